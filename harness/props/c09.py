"""C09 — snapshot and restore do not depend on thread or I/O scheduling.

Tie: the REAL `Repository.snapshot` / `Repository.restore` run under the schedule controller (harness/impl/sched_ctl.py): gated
backend (sync and coroutine flavours), parking locks, parked writes, parked producer.  The controller plays
  (i)  ALL completion orders of the pending backend calls on small snapshot cases, and all single (thorough: double)
       pre-emptions at lock / write / call boundaries on small restore cases (2–3 loaders sharing files),
  (ii) PCT-style and uniformly random schedules on larger generated cases (shared chunks, several references per file,
       pre-existing chunks, injected transfer failures),
  (iii) "flood" cases: more chunks than the bounded chunk queue plus the workers can hold (> 11·N), under producer-ahead schedules
       (the producer fills the queue and waits in `put` while transfers are pending) × fault plans: none / one failed transfer
       (N = 1: no worker survives; N ≥ 2: the survivors drain the queue) / backend outage from the k-th transfer on (every worker
       fails) — the abort protocol between the failing workers and a producer that is waiting on a full queue.
  (iv) transfer latency in VIRTUAL time (harness/impl/c09_vtime.py): every wait with a finite time-out issued by replicat code
       (Future.result / Queue.get,put / Event.wait / Lock.acquire / asyncio.wait_for, wait, timeout / futures.wait, as_completed)
       gets a deadline on the controller's virtual clock; the scheduling action "tick" lets the clock jump to the next deadline while
       the controller is holding a transfer (an arbitrarily slow backend, no real sleeping) and that wait expires.  Ticks are a
       choice of every strategy (random / PCT / each single pre-emption); "latency" cases (more chunks than slots, so that loaders
       queue for a slot) additionally run under the `slow` strategy: a transfer completes only when nothing else can move and
       every overlapping finite wait has expired first.  The slot requests, grants, transfer ends, delays and expiries are the
       events of the fifth system `Lat` (`latency_never_fails`, `latency_result_independent`).
For every schedule the observed event trace is translated into the events of the four transition systems of
`ReplicatModel/Sched.lean` and must be accepted by the compiled model (`sched.accepts`: slots, snapshot, locks, fin); the model's
final state is compared with the implementation's (free slots, peak in-flight, processed chunks, uploaded?, finalisation counts,
failed loaders).  A snapshot run that hangs is cut at the hang: the prefix must be a legal schedule that ends in a state the model
calls `stuck` (with the extracted shape of the producer's put), i.e. the model explains the hang.
Direct oracles (the property's own statement on the real code): spurious exception, hang, in-flight transfers > N,
slots ≠ {2..N+1} afterwards (success or failure), two writers inside one file, file finalised ≠ once, manifest / stored objects /
restored tree ≠ the sequential run.
"""
import gc
import json
import multiprocessing as mp
import os
import time
import traceback
from pathlib import Path

from ..common import rng_for, digest
from ..impl import runner as R
from ..impl import sched_ctl as S
from ..impl import c09_vtime as VT
from ..impl import c09_affinity as AF

PARAMS = [(16, 16), (32, 32), (8, 32), (16, 64), (12, 12)]


class Box:
    ctl = None


# ------------------------------------------------------------------------------------------------ cases
def gen_case(r, small=None):
    """→ dict: chunking params, files (rel → bytes), N, async?, encrypted?"""
    if small == 'snap3':
        mn = mx = 16
        blocks = [r.randbytes(16) for _ in range(3)]
        return {'params': (mn, mx), 'files': {'f0': b''.join(blocks)}, 'n': 3, 'async': r.random() < 0.5, 'encrypted': False, 'shape': small}
    if small == 'snap4x':
        mn = mx = 16
        blocks = [r.randbytes(16) for _ in range(4)]
        return {'params': (mn, mx), 'files': {'f0': b''.join(blocks)}, 'n': 4, 'async': r.random() < 0.5, 'encrypted': False, 'shape': small, 'prepopulate': 'all'}
    if small == 'abort1':      # more chunks than the queue holds, one worker: only the abort flag lets the producer stop after a failure
        mn = mx = 12
        return {'params': (mn, mx), 'files': {'f0': r.randbytes(12 * 14)}, 'n': 1, 'async': r.random() < 0.5, 'encrypted': False, 'shape': small}
    if small == 'flood':       # more chunks than queue (10·N) + workers (N) can hold: the producer has to wait in `put` on a full queue
        n = r.choice([1, 1, 2, 3])
        sz = r.choice([12, 16])
        cap = flood_capacity(n)
        t = cap + r.choice([1, 2, 3, 5]) if r.random() < 0.85 else max(2, cap - r.choice([1, 2, n + 3]))   # (some stay below the bound: control)
        return {'params': (sz, sz), 'files': {'f0': r.randbytes(sz * t)}, 'n': n, 'async': r.random() < 0.5, 'encrypted': False, 'shape': small}
    if small == 'lat':         # more distinct chunks than slots: loader threads / worker tasks queue for a slot while transfers are held
        n = r.choice([1, 1, 2, 2, 3])
        k = n + r.choice([1, 2, 3]) + (n if r.random() < 0.3 else 0)
        blocks = [r.randbytes(16) for _ in range(k)]
        cut = r.randrange(1, k)
        files = {'f0': b''.join(blocks[:cut]), 'd/f1': b''.join(blocks[cut:]) + (blocks[0] if r.random() < 0.4 else b'')}
        return {'params': (16, 16), 'files': files, 'n': n, 'async': r.random() < 0.4, 'encrypted': False, 'shape': small}
    if small == 'stall1':      # one worker, few chunks: the loop thread is held between the two halves of the workers' exit test
        mn = mx = 16
        return {'params': (mn, mx), 'files': {'a': r.randbytes(32), 'b': r.randbytes(16 * r.choice([3, 4, 5]))}, 'n': 1, 'async': r.random() < 0.5, 'encrypted': False, 'shape': small}
    if small == 'd4':          # two chunks of one file → two loaders, one pending set
        mn = mx = 32
        return {'params': (mn, mx), 'files': {'f0': r.randbytes(64)}, 'n': 2, 'async': False, 'encrypted': False, 'shape': small}
    if small == 'share3':      # three loaders, two files sharing one chunk, one chunk referenced twice by a file
        mn = mx = 16
        a, b, c = (r.randbytes(16) for _ in range(3))
        return {'params': (mn, mx), 'files': {'f0': a + b + a, 'f1': b + c}, 'n': 2, 'async': r.random() < 0.4, 'encrypted': False, 'shape': small}
    mn, mx = r.choice(PARAMS)
    nblocks = r.choice([2, 3, 4, 6])
    pool = [r.randbytes(mx) for _ in range(nblocks)]
    files = {}
    for k in range(r.choice([1, 2, 2, 3, 4])):
        parts = [r.choice(pool) for _ in range(r.choice([0, 1, 2, 3, 4]))]
        tail = r.randbytes(r.choice([0, 0, 1, 5, mn, mx - 1])) if r.random() < 0.5 else b''
        files['d%d/f%d' % (k % 2, k)] = b''.join(parts) + tail
    if all(not v for v in files.values()) and r.random() < 0.7:
        files['d0/extra'] = r.choice(pool) + r.choice(pool)
    return {'params': (mn, mx), 'files': files, 'n': r.choice([1, 2, 2, 3, 3, 5]), 'async': r.random() < 0.4, 'encrypted': r.random() < 0.25,
            'shape': 'gen', 'prepopulate': r.choice([None, None, 'all', 'some'])}


def flood_capacity(n, queue_factor=None):
    """chunks that fit into the bounded queue (`queueFactor`·N, read from the source by the extractor) plus one per worker"""
    return (queue_factor if queue_factor is not None else QUEUE_FACTOR[0]) * n + n


QUEUE_FACTOR = [10]     # replaced by the extracted value (`sched.flags`) at the start of a run


def canon_manifest(data, chunks):
    """path → (sorted refs with the chunk's digest, digest, size); independent of completion order"""
    out = {}
    for f in data['files']:
        refs = sorted((c['counter'], c['range'][0], c['range'][1], bytes(chunks[c['index']]).hex()) for c in f['chunks'])
        out[f['path']] = {'refs': refs, 'digest': None if f['digest'] is None else bytes(f['digest']).hex(),
                          'mtime': None if f['metadata'] is None else f['metadata'].get('mtime')}
    return out


class Prepared:
    """a case materialised on disk + its sequential reference run"""

    def __init__(self, case, sc, tag):
        self.case = case
        self.src = sc.dir(f'{tag}_src')
        tree = {k: (v, 10 ** 18 + 1000 * i) for i, (k, v) in enumerate(sorted(case['files'].items()))}
        R.write_tree(self.src, tree)
        self.tree = tree
        mn, mx = case['params']
        self.settings = R.settings_for(case['encrypted'], chunking={'name': 'gclmulchunker', 'min_length': mn, 'max_length': mx})
        box = Box()
        self.box = box
        be = S.GatedBackend(lambda: box.ctl)
        repo, self.key = R.init_repo(be, self.settings, concurrent=1)
        self.base_objects = dict(be.objects)
        with R.quiet():
            snap = R.run(repo.snapshot(paths=[Path(self.src)]))
        self.ref_backend_objects = dict(be.objects)
        self.ref_manifest = canon_manifest(snap.data, snap.chunks)
        # chunk locations by counter
        by_counter = {}
        for f in snap.data['files']:
            for c in f['chunks']:
                by_counter[c['counter']] = repo._chunk_digest_to_location(snap.chunks[c['index']])
        self.total = max(by_counter) if by_counter else 0
        self.loc_by_counter = [by_counter.get(k + 1) for k in range(self.total)]
        self.names = {}
        for k, loc in enumerate(self.loc_by_counter):
            if loc is not None:
                self.names.setdefault(loc, ('c', k))
        self.chunk_names = sorted(n for n in be.objects if n.startswith('data/'))
        self.distinct_chunks = len(self.chunk_names)

    def backend(self, objects):
        cls = S.AsyncGatedBackend if self.case['async'] else S.GatedBackend
        box = self.box
        return cls(lambda: box.ctl, objects)

    def expected_tree(self):
        out = {}
        for rel, (data, mt) in self.tree.items():
            p = os.path.join(str(self.src), rel)
            out[os.fsencode(p[1:])] = (data, mt)
        return out


# ------------------------------------------------------------------------------------------------ trace → model events
TRANSFER_OPS = set(S.TRANSFERS)


def slots_request(log, n):
    holders = []            # [acq_idx, rel_idx, slot]
    open_by_slot = {}
    calls = {}
    for i, e in enumerate(log):
        if e[0] == 'slot_acq':
            h = [i, None, e[1]]
            holders.append(h)
            open_by_slot[e[1]] = h
        elif e[0] == 'slot_rel':
            h = open_by_slot.pop(e[1], None)
            if h is not None:
                h[1] = i
        elif e[0] == 'call_start' and e[2] in TRANSFER_OPS:
            calls[e[1]] = [i, None, None]
        elif e[0] == 'call_end' and e[1] in calls:
            calls[e[1]][1] = i
            calls[e[1]][2] = e[4] is None
    INF = len(log) + 1
    cl = sorted(calls.values())
    adj = []
    for c in cl:
        ce = c[1] if c[1] is not None else INF
        adj.append([hi for hi, h in enumerate(holders) if h[0] < c[0] and (h[1] if h[1] is not None else INF + 1) > ce])
    match_h = {}

    def aug(ci, seen):
        for hi in adj[ci]:
            if hi in seen:
                continue
            seen.add(hi)
            if hi not in match_h or aug(match_h[hi], seen):
                match_h[hi] = ci
                return True
        return False
    unmatched = [ci for ci in range(len(cl)) if not aug(ci, set())]
    call_of = {hi: cl[ci] for hi, ci in match_h.items()}
    evs = []
    for hi, h in enumerate(holders):
        evs.append((h[0], ['acquire', h[2]]))
        c = call_of.get(hi)
        if c is not None:
            evs.append((c[0], ['start', h[2]]))
            if c[1] is not None:
                evs.append((c[1], ['finish', h[2], bool(c[2])]))
        elif h[1] is not None:
            evs.append((h[1] - 0.5, ['finish', h[2], True]))
        if h[1] is not None:
            evs.append((h[1], ['release', h[2]]))
    evs.sort(key=lambda x: x[0])
    return {'op': 'sched.accepts', 'system': 'slots', 'n': n, 'events': [e for _, e in evs]}, len(unmatched), len(cl)


def snapshot_request(log, total, n, upto_hang=False):
    """`upto_hang`: translate only the prefix before the controller's `hang` mark (what follows is the tear-down) and close it with
    the abort flag the source sets after a worker failure — the model is then asked whether that state is stuck"""
    evs = []
    busy = {}
    failed = False
    abort_emitted = False
    visible = False
    produced = 0
    for e in log:
        k = e[0]
        if k == 'hang' and upto_hang:
            break
        if k == 'q_put_try':
            evs.append(['enterPut'] + ([e[1]] if e[1] is not None else []))
        elif k == 'q_put':
            evs.append(['put'] + ([e[1]] if e[1] is not None else []))
            produced += 1
        elif k == 'job_end' and e[1] == ('P',):
            if produced < total and failed and not abort_emitted:
                evs.append(['raiseAbort'])
                abort_emitted = True
            evs.append(['prodStop'])
        elif k == 'q_test':
            w = e[1]
            if w in busy:
                evs.append(['finish', w, True, busy.pop(w)])
            if e[3] and not visible:
                evs.append(['prodVisible'])
                visible = True
        elif k == 'q_get':
            evs.append(['take', e[1]] + ([e[2]] if e[2] is not None else []))
            busy[e[1]] = e[2]
        elif k == 'q_poll':
            evs.append(['poll', e[1]])
        elif k == 'w_end':
            w, exc = e[1], e[2]
            if exc is None:
                if not visible:
                    evs.append(['prodVisible'])
                    visible = True
                evs.append(['exit', w])
            elif exc != 'CancelledError':
                if w in busy:
                    evs.append(['finish', w, False, busy.pop(w)])
                    failed = True
        elif k == 'call_start' and e[2] == 'upload' and e[3][0] == 's':
            evs.append(['upload'])
    if upto_hang and failed and not abort_emitted:
        evs.append(['raiseAbort'])
    return {'op': 'sched.accepts', 'system': 'snapshot', 'total': total, 'n': n, 'events': evs}


def restore_requests(log, under_lock):
    """→ (locks request, fin request, impl observation dict)"""
    files = {}

    def fidx(p):
        return files.setdefault(str(p), len(files))
    # ---- jobs
    wjobs, ljobs = {}, {}
    parent = {}
    lrefs = {}
    for e in log:
        if e[0] in ('job_submit', 'job_start'):      # submitted jobs count even if they are cancelled before they start
            key = e[1]
            if key[0] == 'W' and key not in wjobs:
                wjobs[key] = len(wjobs)
                parent[key] = e[2]
            elif key[0] == 'L' and key not in ljobs:
                ljobs[key] = len(ljobs)
                lrefs[key] = e[3]
    flock_norm = {}
    for e in log:
        if e[0] == 'lock_new' and e[2] == 'f':
            flock_norm[e[1]] = len(flock_norm)
    job_flock = {}
    acq_ctx = {}
    for e in log:
        if e[0] == 'lock_acq' and e[2] == 'f' and e[3] in wjobs:
            job_flock.setdefault(e[3], flock_norm.get(e[1]))
    # file of a writer job: the restore target reported at its lock acquisitions, else its snapshot path
    wfile = {}
    for e in log:
        if e[0] == 'lock_acq' and e[3] in wjobs and e[4] and e[4][0] == 'W' and e[4][1] not in (None, 'None'):
            wfile.setdefault(e[3], e[4][1])
    for key in wjobs:
        wfile.setdefault(key, key[1])
    file_of_job = [None] * len(wjobs)
    for key, j in wjobs.items():
        file_of_job[j] = fidx(('w', wfile[key]))
    # ---- lock events
    levs = []
    gsec = {}
    wrote = set()
    for e in log:
        k = e[0]
        if k == 'lock_acq':
            _, lid, kind, a, ctx = e
            if a in wjobs:
                j = wjobs[a]
                if kind == 'g':
                    levs.append(['gAcq', j])
                else:
                    levs.append(['fAcq', j] + ([flock_norm[lid]] if lid in flock_norm else []))
            elif kind == 'g':
                levs.append(['extAcq', ljobs.get(a, 10 ** 6)])
                acq_ctx[a] = ctx
        elif k == 'lock_rel':
            _, lid, kind, a = e
            if a in wjobs:
                j = wjobs[a]
                if kind == 'g':
                    c = gsec[a] = gsec.get(a, 0) + 1
                    if c == 1:
                        levs.append(['look', j])
                        levs.append(['commit', j] + ([job_flock[a]] if job_flock.get(a) is not None else []))
                    else:
                        levs.append(['unreg', j])
                    levs.append(['gRel', j])
                else:
                    if a not in wrote:
                        levs.append(['write', j])
                    levs.append(['fRel', j])
            elif kind == 'g':
                levs.append(['extRel', ljobs.get(a, 10 ** 6)])
        elif k == 'write_end' and e[1] in wjobs:
            levs.append(['write', wjobs[e[1]]])
            wrote.add(e[1])
    locks_req = {'op': 'sched.accepts', 'system': 'locks', 'files': file_of_job, 'events': levs}
    # ---- finaliser events
    pfiles = {}

    def pidx(p):
        return pfiles.setdefault(p, len(pfiles))
    loaders = []
    ok_fin = True
    for key, d in sorted(ljobs.items(), key=lambda kv: kv[1]):
        refs = lrefs.get(key)
        if refs is None:
            ok_fin = False
            refs = []
        rf = [pidx(r[0]) for r in refs]
        paths = list(dict.fromkeys(rf))
        loaders.append({'d': d, 'refs': rf, 'paths': paths})
    fevs = []
    joined = set()
    sect = {}
    pending_test = {}
    cur_ctx = {}
    lab_to_loader = {key[1]: key for key in ljobs}
    failed_loaders = {}
    for e in log:
        k = e[0]
        # (old code) `if not digests:` runs after the loader is let go from the after-release park of the remove section
        # and before it reaches its next instrumented point
        if ((k == 'park' and e[2] != 'rel') or k == 'job_end') and e[1] in pending_test:
            d, f = pending_test.pop(e[1])
            fevs.append(['test', d, f])
        elif k == 'lock_acq' and e[3] in pending_test:
            d, f = pending_test.pop(e[3])
            fevs.append(['test', d, f])
        if k == 'call_end' and e[2] == 'download_stream' and e[4] is None and e[3] in lab_to_loader:
            fevs.append(['downloaded', ljobs[lab_to_loader[e[3]]]])
        elif k == 'job_end' and e[1] in wjobs and e[2] is None:
            p = parent.get(e[1])
            if p in ljobs:
                fevs.append(['write', ljobs[p], pidx(e[1][1])])
        elif k == 'lock_acq' and e[2] == 'g' and e[3] in ljobs:
            cur_ctx[e[3]] = e[4]
        elif k == 'lock_rel' and e[2] == 'g' and e[3] in ljobs:
            a = e[3]
            d = ljobs[a]
            ctx = cur_ctx.get(a)
            fp = ctx[1] if ctx and ctx[0] == 'L' else None
            if fp is None:
                ps = loaders[d]['paths']
                if len(ps) == 1:
                    f = ps[0]
                else:
                    ok_fin = False
                    continue
            else:
                f = pidx(fp)
            c = sect[(d, f)] = sect.get((d, f), 0) + 1
            if c == 1:
                if d not in joined:
                    joined.add(d)
                    fevs.append(['joined', d])
                fevs.append(['remove', d, f])
                if not under_lock:
                    pending_test[a] = (d, f)
            else:
                fevs.append(['pop', d, f])
        elif k == 'job_end' and e[1] in ljobs:
            if e[2] is None:
                fevs.append(['finish', ljobs[e[1]]])
            else:
                failed_loaders[ljobs[e[1]]] = e[2]
    fin_req = {'op': 'sched.accepts', 'system': 'fin', 'loaders': loaders, 'events': fevs} if ok_fin else None
    fin_counts = {}
    for e in log:
        if e[0] == 'finalise' and e[1] is not None and e[1][0] == 'L':
            fin_counts[e[2]] = fin_counts.get(e[2], 0) + 1
    obs = {'failed_loaders': failed_loaders, 'finalised_by_loaders': sorted(fin_counts.values()), 'n_loaders': len(ljobs), 'n_writers': len(wjobs),
           'loader_paths': [len(x['paths']) for x in loaders], 'locks_created': len(flock_norm)}
    return locks_req, fin_req, obs


def latency_request(log, n):
    """slot requests / grants / transfer ends, the delays of the virtual clock and the expiries of slot requests → events of `Lat`"""
    void = set()
    last = {}
    for i, e in enumerate(log):
        if e[0] == 'vt_expire':
            last[e[1]] = i
        elif e[0] == 'vt_expire_void' and e[1] in last:
            void.add(last.pop(e[1]))
    evs = []
    jobs = slot_exp = other_exp = pending_exp = 0
    finite_slot_waits = []
    for i, e in enumerate(log):
        k = e[0]
        if k == 'slot_req':
            evs.append(['request'])
            jobs += 1
        elif k == 'slot_acq':
            evs.append(['grant'])
        elif k == 'slot_rel':
            evs.append(['finish'])
        elif k == 'vt_wait' and str(e[4]).startswith('_acquire_slot'):
            finite_slot_waits.append((e[2], e[3], e[4]))
        elif k == 'vt_expire':
            _, agent, prim, timeout, where, before, now, held, forced = e
            if now > before:
                evs.append(['delay', now - before])
            if i in void:
                continue
            if str(where).startswith('_acquire_slot'):
                pending_exp += 1
            else:
                other_exp += 1
        elif k == 'slot_req_cancel' and pending_exp:
            # the waiter whose time was up abandoned its request (a wait that is retried after the time-out keeps it)
            pending_exp -= 1
            evs.append(['expire'])
            slot_exp += 1
    return ({'op': 'sched.accepts', 'system': 'lat', 'n': n, 'jobs': jobs, 'events': evs},
            {'slot_timeouts': slot_exp, 'other_timeouts': other_exp, 'jobs': jobs, 'finite_slot_waits': finite_slot_waits[:3]})


def vt_summary(ctl):
    vt = ctl.vt
    return {'expired': [(prim, t, where, now, [list(map(str, h)) for h in held[:3]], forced) for (_, prim, t, where, now, held, forced) in vt.expired][:8],
            'ticks': vt.ticks, 'forced': vt.forced, 'voided': vt.voided, 'windows': vt.windows, 'windows_any': vt.windows_any,
            'seen': sorted((f'{prim}:{cls}', c) for (prim, cls), c in vt.seen.items())}


def latency_verdicts(V, ctl, fail, op):
    """a run in which finite waits expired under the virtual clock and whose outcome differs from the sequential run's: name the class
    in the signature and say which wait expired while which transfer was held"""
    live = [x for x in ctl.vt.expired]
    if not live or fail is not None or not V:
        return V
    prim, t, where, now = live[0][1], live[0][2], live[0][3], live[0][4]
    held = live[0][5]
    note = (f'; VIRTUAL TIME: {len(live)} finite wait(s) issued by replicat code expired, the first: {prim}(timeout={t}) in {where} at t={now / 1000:g} s while the '
            f'controller was holding {len(held)} transfer(s) {[tuple(map(str, h)) for h in held[:2]]} — a backend that needs more than {t} s for one '
            f'transfer produces this outcome, a fast one (and the sequential run) does not')
    out = []
    for sig, what in V:
        if ':spurious-exception:' in sig or sig.endswith(':hang') or sig.endswith(':result-differs'):
            sig = sig.replace(f'{op}:', f'{op}:latency-dependent:', 1)
            what += note
        out.append((sig, what))
    return out


# ------------------------------------------------------------------------------------------------ one schedule
def make_strategy(spec, r):
    kind = spec[0]
    if kind == 'fifo':
        return S.Fifo()
    if kind == 'random':
        return S.RandomStrategy(r)
    if kind == 'pct':
        return S.PCT(r, depth=spec[1], est_steps=spec[2])
    if kind == 'ahead':
        return S.ProducerAhead(r, bias=spec[1] if len(spec) > 1 else 1.0)
    if kind == 'slow':
        return VT.SlowTransfers(r, max_ticks=spec[1] if len(spec) > 1 else 4)
    if kind == 'listed':
        return S.Listed({int(k): v for k, v in spec[1].items()}, mode=spec[2])
    raise ValueError(kind)


def exc_name(e):
    return type(e).__name__


def run_snapshot_schedule(prep, spec, r, flags, fail=None, quick=True, hold_empty=False):
    """→ result dict for one controlled snapshot"""
    case = prep.case
    n = case['n']
    objs = dict(prep.base_objects)
    pre = case.get('prepopulate')
    if pre == 'all':
        objs.update({k: v for k, v in prep.ref_backend_objects.items() if k.startswith('data/')})
    elif pre == 'some':
        for i, k in enumerate(prep.chunk_names):
            if i % 2 == 0:
                objs[k] = prep.ref_backend_objects[k]
    be = prep.backend(objs)
    repo = R.unlock(be, key=prep.key, concurrent=n)
    strat = make_strategy(spec, r)
    ctl = S.Controller(strat, n, names=prep.names, hang_after=3.0 if quick else 6.0, fail_at=fail,
                       gate_producer=(case.get('shape') not in ('snap3', 'snap4x')) and not hold_empty)
    ctl.hold_empty = hold_empty
    ctl.loc_of_digest = repo._chunk_digest_to_location
    prep.box.ctl = ctl
    t0 = time.time()
    try:
        with R.quiet():
            res = S.run_controlled(ctl, repo, lambda: repo.snapshot(paths=[Path(prep.src)]))
    finally:
        prep.box.ctl = None
    out = {'op': 'snapshot', 'violations': [], 'model': [], 'steps': ctl.step, 'multi': ctl.multi_choice_steps, 'wall': round(time.time() - t0, 3),
           'decisions': [list(map(str, d[:1])) + [d[1]] for d in ctl.decisions][:400], 'shape': getattr(strat, 'shape', None)}
    V = out['violations']
    want_slots = list(range(flags['slotBase'], flags['slotBase'] + n))
    failed_workers = sum(1 for e in ctl.log if e[0] == 'w_end' and e[2] not in (None, 'CancelledError'))
    fault_name = None if fail is None else (fail['kind'] if isinstance(fail, dict) else fail[0])
    if res['hang']:
        what = f'snapshot (N={n}, {prep.total} chunks, queue bound {ctl.queue_cap}) did not terminate under the schedule: {res["hang"]}'
        if ctl.fault_log:
            f0 = ctl.fault_log[0]
            what += (f'; {len(ctl.fault_log)} injected transfer failure(s) (fault plan {fail}), the first in {f0["op"]} of chunk {f0["label"]} with '
                     f'{f0["queue_len"]}/{f0["queue_cap"]} chunks queued and the producer {f0["producer"]}; {failed_workers} of {n} workers raised; '
                     f'expected: the transfer error is re-raised')
        stacks = ctl.blocked_stacks
        if stacks:
            what += f'; threads still blocked (innermost first): {stacks}'
        V.append(('snapshot:hang', what))
    if ctl.max_inflight > n:
        V.append(('slots:inflight-exceeds-concurrency', f'{ctl.max_inflight} backend transfers in flight with concurrency {n} (snapshot)'))
    if fail is None or (isinstance(fail, dict) and not ctl.faults_injected and not res['hang']):      # (a plan that starts after the last transfer)
        if res['outcome'] == 'error':
            V.append((f'snapshot:spurious-exception:{exc_name(res["error"])}', f'snapshot raised {res["error"]!r} under a schedule; the sequential run succeeds'))
        elif res['outcome'] == 'ok':
            man = canon_manifest(res['value'].data, res['value'].chunks)
            if man != prep.ref_manifest:
                bad = sorted(p for p in set(man) | set(prep.ref_manifest) if man.get(p) != prep.ref_manifest.get(p))
                V.append(('snapshot:result-differs', f'manifest differs from the sequential run for {bad[:2]} (got {str(man.get(bad[0]))[:160]}, want {str(prep.ref_manifest.get(bad[0]))[:160]})'))
            got_chunks = sorted(k for k in be.objects if k.startswith('data/'))
            if got_chunks != prep.chunk_names:
                V.append(('snapshot:objects-differ', f'stored chunk objects differ from the sequential run: {len(got_chunks)} vs {len(prep.chunk_names)}'))
            if res['slots_at_return'] != want_slots:
                V.append(('slots:not-restored', f'free slots after a successful snapshot: {res["slots_at_return"]}, expected {want_slots}'))
    else:
        if res['outcome'] == 'ok' and ctl.faults_injected:
            V.append(('snapshot:failure-swallowed', 'a transfer failed but snapshot reported success'))
        elif res['outcome'] == 'error' and not isinstance(res['error'], S.InjectedFault):
            V.append((f'snapshot:spurious-exception:{exc_name(res["error"])}', f'snapshot raised {res["error"]!r} instead of the injected transfer error'))
        if ctl.faults_injected and fault_name != 'upload' and any(k.startswith('snapshots/') for k in be.objects):
            V.append(('snapshot:uploaded-after-failure', 'a snapshot object was uploaded although a chunk transfer had failed'))
    if not res['hang']:
        if not res.get('quiescent'):
            V.append(('snapshot:hang-after-end', 'workers / transfers still pending long after snapshot returned'))
        elif res['slots_after'] != want_slots:
            V.append(('slots:not-restored' + ('-after-failure' if fail is not None else ''), f'free slots at quiescence: {res["slots_after"]}, expected {want_slots}'))
    # model requests
    sreq, unmatched, ncalls = slots_request(ctl.log, n)
    out['model'].append((sreq, {'free': res.get('slots_after'), 'max_inflight': ctl.max_inflight, 'unmatched': unmatched, 'hang': bool(res['hang'])}, 'slots'))
    preq = snapshot_request(ctl.log, prep.total, n, upto_hang=bool(res['hang']))
    impl_up = any(k.startswith('snapshots/') for k in be.objects)
    out['model'].append((preq, {'uploaded': impl_up, 'ok': res['outcome'] == 'ok', 'total': prep.total, 'hang': bool(res['hang']), 'failed': fail is not None and bool(ctl.faults_injected)}, 'snapshot'))
    lreq, lobs = latency_request(ctl.log, n)
    out['model'].append((lreq, dict(lobs, clean=fail is None and res['outcome'] == 'ok' and not res['hang'] and bool(res.get('quiescent')), hang=bool(res['hang'])), 'lat'))
    out['violations'] = V = latency_verdicts(V, ctl, fail, 'snapshot')
    out['summary'] = {'op': 'snapshot', 'n': n, 'async': case['async'], 'chunks': prep.total, 'distinct': prep.distinct_chunks, 'pre': pre, 'strategy': spec[0],
                      'steps': ctl.step, 'multi': ctl.multi_choice_steps, 'calls': ncalls, 'max_inflight': ctl.max_inflight, 'fail': fault_name,
                      'fault_plan': fail if isinstance(fail, dict) else None, 'faults': len(ctl.fault_log), 'failed_workers': failed_workers,
                      'queue_cap': ctl.queue_cap, 'full_waits': ctl.put_full_waits,
                      'full_at_fault': sum(1 for f in ctl.fault_log if f['queue_cap'] and f['queue_len'] >= f['queue_cap']),
                      'producer_waiting_at_fault': sum(1 for f in ctl.fault_log if f['producer'] == 'waiting-full'),
                      'order': [e[2] for e in ctl.log if e[0] == 'q_get'][:24], 'completion': [str(e[3]) + e[2][0] for e in ctl.log if e[0] == 'call_end'][:40],
                      'vt': vt_summary(ctl)}
    out['nontrivial'] = ctl.multi_choice_steps >= 2 and (ncalls >= 3 or ctl.put_full_waits > 0)
    del repo
    return out


def run_restore_schedule(prep, spec, r, flags, sc, tag, fail=None, quick=True, preexisting=None, control=None):
    case = prep.case
    n = case['n']
    be = prep.backend(dict(prep.ref_backend_objects))
    tgt = sc.dir(f'{tag}_tgt')
    if preexisting:
        R.write_tree(tgt, preexisting)
    repo = R.unlock(be, key=prep.key, concurrent=n)
    if control == 'retried-slot-wait':
        VT.retried_slot_wait(repo)
    strat = make_strategy(spec, r)
    ctl = S.Controller(strat, n, names=prep.names, hang_after=3.0 if quick else 6.0, fail_at=fail)
    ctl.loc_of_digest = repo._chunk_digest_to_location
    prep.box.ctl = ctl
    t0 = time.time()
    try:
        with R.quiet():
            res = S.run_controlled(ctl, repo, lambda: repo.restore(path=Path(tgt)))
    finally:
        prep.box.ctl = None
    out = {'op': 'restore', 'violations': [], 'model': [], 'steps': ctl.step, 'multi': ctl.multi_choice_steps, 'wall': round(time.time() - t0, 3),
           'decisions': [list(map(str, d[:1])) + [d[1]] for d in ctl.decisions][:600], 'shape': getattr(strat, 'shape', None)}
    V = out['violations']
    want_slots = list(range(flags['slotBase'], flags['slotBase'] + n))
    paths = {os.path.join(str(prep.src), rel) for rel in prep.tree}
    if res['hang']:
        V.append(('restore:hang', f'restore did not terminate under the schedule: {res["hang"]}'))
    if ctl.max_inflight > n:
        V.append(('slots:inflight-exceeds-concurrency', f'{ctl.max_inflight} backend transfers in flight with concurrency {n} (restore)'))
    if ctl.overlap is not None:
        V.append(('restore:concurrent-writers', f'two writer threads inside _write_file_part for the same file {ctl.overlap}'))
    locks_req, fin_req, obs = restore_requests(ctl.log, flags['finaliseDecidedUnderLock'])
    fin_by_path = {}
    for e in ctl.log:
        if e[0] == 'finalise':
            fin_by_path[e[2]] = fin_by_path.get(e[2], 0) + 1
    if fail is None:
        if res['outcome'] == 'error':
            e = res['error']
            if isinstance(e, KeyError) and e.args and e.args[0] in paths:
                V.append(('restore:double-finalise', f'restore raised KeyError({e.args[0]!r}): two loaders both saw the pending set of the file empty and both finalised it'))
            else:
                V.append((f'restore:spurious-exception:{exc_name(e)}', f'restore raised {e!r} under a schedule; the sequential run succeeds'))
        elif res['outcome'] == 'ok':
            got = R.read_tree(tgt)
            want = prep.expected_tree()
            if preexisting:
                for k, v in preexisting.items():
                    want.setdefault(os.fsencode(k), None)
            bad = [k for k in want if want[k] is not None and got.get(k) != want[k]]
            if bad or set(got) != set(want):
                k = bad[0] if bad else sorted(set(got) ^ set(want))[0]
                V.append(('restore:result-differs', f'restored tree differs from the source for {k!r}: got {str(got.get(k))[:80]} want {str(want.get(k))[:80]}'))
            if sorted(res['value'].files) != sorted(paths):
                V.append(('restore:result-differs', 'restore reports a different file list than the snapshot holds'))
            wrong = {p: c for p, c in fin_by_path.items() if c != 1}
            if wrong or len(fin_by_path) != len(paths):
                V.append(('restore:finalise-count', f'files finalised other than exactly once: {wrong or "missing"} ({len(fin_by_path)} of {len(paths)} files)'))
            if res['slots_at_return'] != want_slots:
                V.append(('slots:not-restored', f'free slots after a successful restore: {res["slots_at_return"]}, expected {want_slots}'))
    else:
        if res['outcome'] == 'ok' and ctl.faults_injected:
            V.append(('restore:failure-swallowed', 'a download failed but restore reported success'))
        elif res['outcome'] == 'error' and isinstance(res['error'], KeyError) and res['error'].args and res['error'].args[0] in paths:
            V.append(('restore:double-finalise', f'restore raised KeyError({res["error"].args[0]!r}): two loaders both saw the pending set of the file empty and both finalised it'))
        elif res['outcome'] == 'error' and not isinstance(res['error'], S.InjectedFault):
            V.append((f'restore:spurious-exception:{exc_name(res["error"])}', f'restore raised {res["error"]!r} instead of the injected transfer error'))
    if not res['hang']:
        if not res.get('quiescent'):
            V.append(('restore:hang-after-end', 'loader / writer threads still pending long after restore returned'))
        elif res['slots_after'] != want_slots:
            V.append(('slots:not-restored' + ('-after-failure' if fail is not None else ''), f'free slots at quiescence: {res["slots_after"]}, expected {want_slots}'))
    sreq, unmatched, ncalls = slots_request(ctl.log, n)
    out['model'].append((sreq, {'free': res.get('slots_after'), 'max_inflight': ctl.max_inflight, 'unmatched': unmatched, 'hang': bool(res['hang'])}, 'slots'))
    clean = fail is None and res['outcome'] == 'ok' and not res['hang']
    out['model'].append((locks_req, {'clean': clean, 'max_writers_in': ctl.max_writers_in, 'hang': bool(res['hang'])}, 'locks'))
    if fin_req is not None:
        out['model'].append((fin_req, dict(obs, clean=clean, finalise_counts=sorted(fin_by_path.values()), hang=bool(res['hang']),
                                           keyerror=res['outcome'] == 'error' and isinstance(res.get('error'), KeyError)), 'fin'))
    else:
        out['fin_unavailable'] = True
    lreq, lobs = latency_request(ctl.log, n)
    out['model'].append((lreq, dict(lobs, clean=clean and bool(res.get('quiescent')), hang=bool(res['hang'])), 'lat'))
    out['violations'] = V = latency_verdicts(V, ctl, fail, 'restore')
    out['summary'] = {'op': 'restore', 'n': n, 'async': case['async'], 'chunks': prep.total, 'distinct': prep.distinct_chunks, 'files': len(paths), 'strategy': spec[0],
                      'steps': ctl.step, 'multi': ctl.multi_choice_steps, 'loaders': obs['n_loaders'], 'writers': obs['n_writers'], 'loader_paths': obs['loader_paths'][:12],
                      'fail': None if fail is None else (fail['kind'] if isinstance(fail, dict) else fail[0]), 'faults': len(ctl.fault_log),
                      'dev': spec[1] if spec[0] == 'listed' else None,
                      'lock_order': [str(e[3][1:3]) + e[2] for e in ctl.log if e[0] == 'lock_acq'][:40], 'vt': vt_summary(ctl), 'control': control}
    if control:
        # the control runs harness code in place of one method: whatever goes wrong is the harness's problem, not replicat's
        out['control_failures'] = [f'{sig}: {what[:300]}' for sig, what in V]
        out['violations'] = V = []
    out['nontrivial'] = ctl.multi_choice_steps >= 4 and obs['n_loaders'] >= 2
    del repo
    return out


# ------------------------------------------------------------------------------------------------ work items
def do_item(arg):
    """one work item in a pool process → list of result dicts"""
    seed, item, flags, tier = arg
    from .. import common
    common.use_rebuilt_chunker()
    quick = tier == 'quick'
    kind = item['kind']
    QUEUE_FACTOR[0] = int(flags.get('queueFactor') or 10)
    r = rng_for(seed, 'C09', item['id'])
    results = []
    t_start = time.time()
    if kind == 'cli-failure':
        return [cli_failure(item, flags)]
    try:
        with R.Scratch('c09_%s' % item['id']) as sc:
            case = gen_case(rng_for(seed, 'C09-case', item['case']), item.get('small'))
            prep = Prepared(case, sc, 'p')
            if kind == 'snap-all-orders':
                # odometer DFS over every choice of the controller (calls only; the producer runs free)
                choices = []
                budget = item['budget']
                runs = 0
                while runs < budget:
                    spec = ('listed', {str(i): c - 1 for i, c in enumerate(choices) if c > 0}, 'key')
                    res = run_snapshot_schedule(prep, spec, r, flags, quick=quick)
                    runs += 1
                    res['summary']['choices'] = list(choices)
                    results.append(res)
                    shape = res['shape'] or []
                    real = [(choices[i] if i < len(choices) else 0) for i in range(len(shape))]
                    nxt = None
                    for i in range(len(shape) - 1, -1, -1):
                        if real[i] + 1 < shape[i][0]:
                            nxt = real[:i] + [real[i] + 1]
                            break
                    if nxt is None:
                        results[-1]['exhausted'] = True
                        break
                    choices = nxt
            elif kind == 'restore-preempt':
                # every single (bound 2: pairs of) deviation(s) from two base schedules: non-pre-emptive and maximally interleaved
                bound = item['bound']
                rr = rng_for(seed, 'C09-pre', item['id'])
                for mode in item.get('modes', ['sticky', 'fifo']):
                    base = run_restore_schedule(prep, ('listed', {}, mode), r, flags, sc, 'b', quick=quick)
                    results.append(base)
                    shape = base['shape'] or []
                    pts = [(i, a) for i, (nc, d) in enumerate(shape) for a in range(nc - 1)]
                    if len(pts) > item['budget']:
                        pts = rr.sample(pts, item['budget'])
                    second = []
                    for (i, a) in pts:
                        res = run_restore_schedule(prep, ('listed', {str(i): a}, mode), r, flags, sc, 'b', quick=quick)
                        results.append(res)
                        if bound >= 2:
                            sh2 = res['shape'] or []
                            second += [((i, a), (j, b)) for j, (nc, d) in enumerate(sh2) if j > i for b in range(nc - 1)]
                    if bound >= 2 and second:
                        for (i, a), (j, b) in rr.sample(second, min(len(second), item.get('budget2', 0))):
                            results.append(run_restore_schedule(prep, ('listed', {str(i): a, str(j): b}, mode), r, flags, sc, 'b', quick=quick))
            elif kind == 'snap-stall-empty':
                for rep in range(item.get('reps', 2)):
                    results.append(run_snapshot_schedule(prep, ('fifo',), rng_for(seed, 'C09-stall', item['id'], rep), flags, quick=quick, hold_empty=True))
            elif kind == 'flood':
                # producer-ahead schedules × fault plans on a case with more chunks than queue + workers hold
                n = case['n']
                rr = rng_for(seed, 'C09-flood', item['id'])
                plans = [('ahead', None)]
                # nobody survives: the only worker's transfer fails / an outage starts at the k-th chunk transfer
                plans.append(('ahead', {'kind': 'calls', 'ordinals': [rr.randrange(0, 3)]} if n == 1 else {'kind': 'outage', 'from': 0}))
                plans.append(('ahead', {'kind': 'outage', 'from': rr.randrange(0, 2 * n + 2)}))
                plans.append((rr.choice(['ahead9', 'pct']), {'kind': 'outage', 'from': rr.randrange(0, 3 * n + 1), 'ops': [rr.choice(['exists', 'upload_stream'])]}))
                # somebody survives (N ≥ 2): a transient failure of one or two transfers
                if n >= 2:
                    plans.append(('ahead', {'kind': 'calls', 'ordinals': sorted(rr.sample(range(0, 3 * n), rr.choice([1, 1, 2]) if n > 2 else 1))}))
                for p_i, (st, fplan) in enumerate(plans[:item.get('runs', 9)]):
                    spec = {'ahead': ('ahead', 1.0), 'ahead9': ('ahead', 0.9), 'pct': ('pct', 3, 20 + 12 * prep.total)}[st]
                    results.append(run_snapshot_schedule(prep, spec, rng_for(seed, 'C09-fl', item['id'], p_i), flags, fail=fplan, quick=quick))
                    if time.time() - t_start > item.get('time_box', 60):
                        break
            elif kind == 'latency':
                # a slow backend in virtual time: `slow` (every overlapping finite wait expires before a transfer completes; 1 or
                # up to 4 expiries), then random with ticks as one choice among the held transfers
                for s_i, spec in enumerate(item.get('strategies', [['slow', 4], ['slow', 1], ['random']])):
                    spec = tuple(spec)
                    if s_i != 1:
                        results.append(run_snapshot_schedule(prep, spec, rng_for(seed, 'C09-ls', item['id'], s_i), flags, quick=quick))
                    results.append(run_restore_schedule(prep, spec, rng_for(seed, 'C09-lr', item['id'], s_i), flags, sc, 'l%d' % s_i, quick=quick))
                    if s_i == 0 and item.get('control'):
                        results.append(run_restore_schedule(prep, spec, rng_for(seed, 'C09-lc', item['id'], s_i), flags, sc, 'c%d' % s_i, quick=quick,
                                                            control='retried-slot-wait'))
                    if time.time() - t_start > item.get('time_box', 60):
                        break
            elif kind == 'random':
                est = 20 + 12 * prep.total
                for s_i, spec in enumerate(item['strategies']):
                    spec = tuple(spec)
                    if spec[0] == 'pct':
                        spec = ('pct', spec[1], est)
                    fail = None
                    if item.get('fail_first') and prep.total:
                        fail = ('exists', ('c', 0))
                    elif item.get('outage') and s_i == 0 and prep.total:
                        fail = {'kind': 'outage', 'from': r.randrange(0, prep.total + 1)}
                    elif item.get('fail') and s_i == 0 and prep.total:
                        k = r.randrange(prep.total)
                        fail = (r.choice(['exists', 'upload_stream']) if not case.get('prepopulate') else 'exists', ('c', prep.names[prep.loc_by_counter[k]][1]))
                    results.append(run_snapshot_schedule(prep, spec, rng_for(seed, 'C09-s', item['id'], s_i), flags, fail=fail, quick=quick))
                    pre = None
                    if r.random() < 0.3:
                        pre = {}
                        for rel, (data, _) in prep.tree.items():
                            if r.random() < 0.5:
                                pre[os.path.join(str(prep.src), rel)[1:]] = (data + b'TAIL' if r.random() < 0.5 else data[:len(data) // 2], None)
                    rfail = None
                    if item.get('outage') and s_i == 1 and prep.total:
                        rfail = {'kind': 'outage', 'from': r.randrange(0, prep.distinct_chunks + 1)}
                    elif item.get('fail') and s_i == 1 and prep.total:
                        k = r.randrange(prep.total)
                        rfail = ('download_stream', ('c', prep.names[prep.loc_by_counter[k]][1]))
                    results.append(run_restore_schedule(prep, spec, rng_for(seed, 'C09-r', item['id'], s_i), flags, sc, 't%d' % s_i, fail=rfail, quick=quick, preexisting=pre))
                    if time.time() - t_start > item.get('time_box', 60):
                        break
            gc.collect()
    except Exception:
        results.append({'infra_error': traceback.format_exc()[-1500:], 'violations': [], 'model': []})
    for i, res in enumerate(results):
        res['item'] = item['id']
        res['run'] = i
        res['case'] = item['case']
        res['small'] = item.get('small')
    return results


def cli_failure(item, flags):
    """a failed restore run the way replicat's CLI runs it (`asyncio.run(command)`, nothing keeps the loop alive afterwards)"""
    n, chunks = item['n'], item['chunks']
    t0 = time.time()
    # whether a thread re-requests a slot before or after the loop object is closed is a race the harness does not control:
    # the oracle asks whether SOME run leaves blocked threads (three tries)
    tries = []
    for attempt in range(3):
        obs = S.probe_failed_restore({'n': n, 'chunks': chunks, 'seed': item.get('pseed', 0) + attempt})
        tries.append({k: obs.get(k) for k in ('blocked', 'slots_free', 'raised')})
        if obs.get('blocked') or 'probe_error' in obs:
            break
    obs['tries'] = tries
    res = {'op': 'restore-cli', 'violations': [], 'model': [], 'item': item['id'], 'run': 0, 'case': item['id'], 'small': 'cli-failure',
           'steps': 0, 'multi': 0, 'wall': round(time.time() - t0, 3), 'decisions': None,
           'summary': {'op': 'restore-cli', 'n': n, 'async': False, 'chunks': chunks, 'distinct': chunks, 'files': 1, 'strategy': 'fail-first-hold-rest', 'steps': 0, 'multi': 0,
                       'fail': 'download_stream', 'observed': obs}, 'nontrivial': True}
    if 'probe_error' in obs:
        res['infra_error'] = obs['probe_error']
        return res
    want = list(range(flags['slotBase'], flags['slotBase'] + n))
    if obs['raised'] != 'InjectedFault':
        res['violations'].append((f'restore:spurious-exception:{obs["raised"]}', f'failed restore raised {obs["raised"]} instead of the injected transfer error'))
    if obs['blocked']:
        res['violations'].append(('restore:failure-leaves-blocked-loaders',
                                  f'restore (N={n}, {chunks} chunks) raised after one failed download; afterwards {len(obs["blocked"])} non-daemon executor thread(s) '
                                  f'{[b[0] for b in obs["blocked"]]} stay blocked for ever in {obs["blocked"][0][1]} (the event loop is gone), free slots {obs["slots_free"]} '
                                  f'instead of {want}: the process cannot exit'))
    elif obs['slots_free'] != want:
        res['violations'].append(('slots:not-restored-after-failure', f'free slots after a failed restore (CLI style): {obs["slots_free"]}, expected {want}'))
    evs = [['begin'], ['grant']] * n + [['begin']] * n + [['finish', False], ['ret'], ['cancelWaiter'], ['begin'], ['close']]
    res['model'].append(({'op': 'sched.accepts', 'system': 'life', 'n': n, 'jobs': chunks, 'events': evs}, {'blocked': len(obs['blocked']), 'slots_free': obs['slots_free']}, 'life'))
    return res


def plan(seed, tier):
    quick = tier == 'quick'
    items = []
    # (i) exhaustive parts
    items.append({'id': 'all3', 'kind': 'snap-all-orders', 'case': 'a3', 'small': 'snap3', 'budget': 100 if quick else 2000})
    items.append({'id': 'all4x', 'kind': 'snap-all-orders', 'case': 'a4', 'small': 'snap4x', 'budget': 30 if quick else 200})
    for rep in range(2 if quick else 6):
        items.append({'id': f'd4-{rep}', 'kind': 'restore-preempt', 'case': f'd4-{rep}', 'small': 'd4', 'bound': 1 if quick else 2, 'budget': 40 if quick else 400,
                      'budget2': 0 if quick else 300})
    for rep in range(2 if quick else 6):
        items.append({'id': f'sh3-{rep}', 'kind': 'restore-preempt', 'case': f'sh3-{rep}', 'small': 'share3', 'bound': 1 if quick else 2, 'budget': 30 if quick else 120,
                      'budget2': 0 if quick else 150})
    for rep in range(3 if quick else 12):
        items.append({'id': f'stall{rep}', 'kind': 'snap-stall-empty', 'case': f'st{rep}', 'small': 'stall1', 'reps': 2})
    items.append({'id': 'abort1', 'kind': 'random', 'case': 'ab1', 'small': 'abort1', 'strategies': [['random'], ['fifo']], 'fail_first': True, 'time_box': 40})
    for rep in range(8 if quick else 60):
        items.append({'id': f'flood{rep}', 'kind': 'flood', 'case': f'fl{rep}', 'small': 'flood', 'time_box': 45 if quick else 90})
    for n in ((1, 2, 3) if quick else (1, 2, 3, 5)):
        items.append({'id': f'cli{n}', 'kind': 'cli-failure', 'case': f'cli{n}', 'n': n, 'chunks': 12 if n < 5 else 24, 'pseed': seed})
    # (iv) transfer latency in virtual time: loaders / workers queue for a slot while the held transfers are arbitrarily slow
    for rep in range(6 if quick else 60):
        items.append({'id': f'lat{rep}', 'kind': 'latency', 'case': f'lat{rep}', 'small': 'lat', 'time_box': 30 if quick else 90, 'control': rep % 3 == 0})
    # (ii) random / PCT on generated cases
    nrand = 64 if quick else 700
    for k in range(nrand):
        items.append({'id': f'g{k}', 'kind': 'random', 'case': f'g{k}', 'strategies': [['pct', 2, 0], ['pct', 3, 0], ['random']] if not quick else [['pct', 3, 0], ['random']],
                      'fail': k % 4 == 3, 'outage': k % 8 == 5, 'time_box': 40 if quick else 90})
    return items


# ------------------------------------------------------------------------------------------------ comparison with the model
def compare(kind, req, impl, m, flags):
    bad = []
    if 'error' in m:
        return [f'driver error: {m["error"]}']
    if kind == 'life':
        predicted = bool(m.get('ok') and m.get('stuck'))
        if predicted != (impl['blocked'] > 0):
            return [f'life: model (joins={m.get("joins")}) predicts blocked loaders = {predicted}, implementation left {impl["blocked"]} blocked']
        return []
    if kind == 'lat' and not impl.get('hang'):
        bad = []
        # (a finite slot wait that is retried keeps its request: no `expire` event; one that gives up needs `Lat.tmo = some T` to be accepted)
        if not m.get('ok'):
            ev = req['events'][m['index']] if m.get('index', 0) < len(req['events']) else None
            return bad + [f'lat: observed trace rejected by the model (request bound {m.get("timeoutMs")} ms) at event #{m.get("index")} {ev}: {m.get("why")}']
        if m['timedOut'] != impl['slot_timeouts']:
            bad.append(f'slot requests that gave up: model {m["timedOut"]} implementation {impl["slot_timeouts"]}')
        if impl['clean'] and not (m['quiet'] and m['done'] == impl['jobs'] and m['free'] == req['n']):
            bad.append(f'after a successful run the model is not at rest: quiet={m["quiet"]} done={m["done"]}/{impl["jobs"]} free={m["free"]}/{req["n"]}')
        return bad
    if impl.get('hang'):
        # a hung run is reported by the oracle; its trace is a prefix torn down by the controller.  For the snapshot pipeline the
        # prefix up to the hang must be a legal schedule that ends in a state the model calls stuck (the model explains the hang)
        if kind != 'snapshot':
            return []
        if not m.get('ok'):
            ev = req['events'][m['index']] if m.get('index', 0) < len(req['events']) else None
            return [f'snapshot: trace of the hung run rejected by the model at event #{m.get("index")} {ev}: {m.get("why")}']
        if not m.get('stuck'):
            return [f'snapshot: the implementation hung but the model state is not stuck (rechecks={m.get("rechecks")}, inPut={m.get("inPut")}, '
                    f'queue {len(m.get("queue", []))}/{m.get("cap")}, workers {m.get("workers")}, abort={m.get("abort")})']
        return []
    if not m.get('ok'):
        ev = req['events'][m['index']] if m.get('index', 0) < len(req['events']) else None
        return [f'{kind}: observed trace rejected by the model at event #{m.get("index")} {ev}: {m.get("why")}']
    if kind == 'slots':
        if impl.get('unmatched'):
            bad.append(f'{impl["unmatched"]} transfer(s) ran outside every held slot')
        if impl.get('free') is not None and m['free'] != impl['free']:
            bad.append(f'free slots: model {m["free"]} implementation {impl["free"]}')
        if m['max_inflight'] != impl['max_inflight']:
            bad.append(f'peak in-flight: model {m["max_inflight"]} implementation {impl["max_inflight"]}')
        if m['max_held'] > req['n']:
            bad.append('more holders than slots')
    elif kind == 'snapshot':
        if m['uploaded'] != impl['uploaded']:
            bad.append(f'snapshot object uploaded: model {m["uploaded"]} implementation {impl["uploaded"]}')
        if impl['ok']:
            if sorted(m['processed']) != list(range(impl['total'])):
                bad.append(f'processed chunks {sorted(m["processed"])} ≠ 0..{impl["total"] - 1}')
            if not m['finished']:
                bad.append('implementation returned but the model state is not finished')
            if any(w != 'exited' for w in m['workers']):
                bad.append(f'workers at the end: {m["workers"]}')
    elif kind == 'locks':
        if m['err']:
            bad.append('model reached a KeyError state')
        if m['max_writers_per_file'] > 1 or impl['max_writers_in'] > 1:
            bad.append(f'writers per file: model {m["max_writers_per_file"]} implementation {impl["max_writers_in"]}')
        if impl['clean']:
            if any(p != 10 for p in m['pcs']):
                bad.append(f'writer jobs not finished in the model: pcs {m["pcs"][:10]}')
            if any(t[1] is not None or t[2] != 0 for t in m['table']):
                bad.append(f'lock table not empty at the end: {m["table"][:4]}')
            if not m['glock_free']:
                bad.append('glock held at the end')
    elif kind == 'fin':
        if not m['wf']:
            bad.append('loader table not well-formed')
        mfailed = sorted(d for d, ph in m['phases'] if ph == 'failed')
        ifailed = sorted(d for d, t in impl['failed_loaders'].items() if t == 'KeyError')
        if mfailed != ifailed:
            bad.append(f'loaders ending in KeyError: model {mfailed} implementation {ifailed}')
        if impl['clean']:
            if any(ph != 'done' for _, ph in m['phases']):
                bad.append(f'loaders not done in the model: {m["phases"][:6]}')
            mc = sorted(f[1] for f in m['files'])
            if mc != impl['finalised_by_loaders']:
                bad.append(f'finalisations per file: model {mc} implementation {impl["finalised_by_loaders"]}')
            if any(f[2] for f in m['files']):
                bad.append('metadata left in the model')
    return bad


def run(out, drv, info):
    quick = out.tier == 'quick'
    out.rule = ('evaluation = one controlled run of the real snapshot or restore under one schedule. case = chunking (fixed-size 12/16/32 or content-defined 8–32/16–64) × '
                '1–4 files built from a pool of shared blocks (chunks referenced by several files / several times by one file, empty files, tails) × N ∈ {1,2,3,5} × '
                'sync/coroutine backend × plain/encrypted × pre-existing chunks (none/some/all) × pre-existing target files × optional injected transfer failure; '
                'schedule = all completion orders (small snapshot cases), every single pre-emption (thorough: pairs) at lock/write/call boundaries (2–3 loaders sharing files), '
                'PCT(d=2,3) and uniform random elsewhere; flood cases (> 11·N chunks, N ∈ {1,2,3}) under producer-ahead schedules (the producer waits on the full queue) × '
                'fault plans none / listed transfers fail / outage from the k-th transfer on; latency cases (distinct chunks > N: requests queue for a slot) under '
                'the slow-transfer strategy in virtual time (finite waits of replicat code expire while a transfer is held), ticks are a choice of every other strategy too. non-trivial = the controller had ≥ 2 (snapshot) / ≥ 4 (restore, ≥ 2 loaders) decision points with more than one enabled agent; '
                'distinct = hash of (case summary, realised order of queue gets / completions / lock acquisitions)')
    out.assumptions = ['pre-emption only at the instrumented points (backend transfers, Lock acquire / after release, _write_file_part, producer put); CPython byte-code level '
                       'interleavings, the GIL and event-loop internals are not explored (claim is PARTIAL) — except the slot queue: its own micro-steps are modelled (SlotQ) and ONE '
                       'byte-code level pre-emption is forced on the real restore: the loop thread is held between a slot request\'s emptiness test and its registration '
                       '(impl/c09_affinity.py; bounded window, child process, hang = no return within 5 s)',
                       'liveness = no deadlock + bounded number of progress steps in the model; the harness reports a hang after a time-out',
                       'asyncio / ThreadPoolExecutor / queue.Queue / threading.Lock behave as documented',
                       'sequential reference = the same operation with concurrency 1 and calls completing in issue order',
                       'virtual time: threads run in zero time, only transfers take time; finite waits of at most %g s run in real time; at most %d expiries per run' % (VT.REAL_MAX, VT.MAX_TICKS)]
    if drv is None:
        flags = {'slotBase': 2, 'finaliseDecidedUnderLock': True}
    else:
        flags = drv.ask({'op': 'sched.flags'})
        if 'error' in flags:
            out.disagreement('driver does not answer sched.flags: ' + str(flags), {'kind': 'flags'})
            flags = {'slotBase': 2, 'finaliseDecidedUnderLock': True}
    # the pre-fix source is recognised by the extractor: drive the implementation with the semantics the source has
    try:
        gen = (Path(__file__).resolve().parent.parent.parent / 'lean' / 'ReplicatModel' / 'Generated.lean').read_text()
        if 'def finaliseDecidedUnderLock : Bool := false' in gen:
            flags['finaliseDecidedUnderLock'] = False
    except OSError:
        pass
    out.extra['model_flags'] = flags
    QUEUE_FACTOR[0] = int(flags.get('queueFactor') or 10)
    items = plan(out.seed, out.tier)
    results = []
    for it in [x for x in items if x['kind'] == 'cli-failure']:
        results.extend(do_item((out.seed, it, flags, out.tier)))      # alone, before the pool loads the machine
    items = [x for x in items if x['kind'] != 'cli-failure']
    args = [(out.seed, it, flags, out.tier) for it in items]
    # long items first
    args.sort(key=lambda a: 0 if a[1]['kind'] != 'random' else 1)
    deadline = time.time() + (150 if quick else 1500)
    with mp.get_context('fork').Pool(min(16, os.cpu_count() or 4), maxtasksperchild=8) as pool:
        it = pool.imap_unordered(do_item, args, chunksize=1)
        for _ in range(len(args)):
            try:
                results.extend(it.next(timeout=max(5.0, deadline - time.time())))
            except mp.TimeoutError:
                out.extra['pool_timeout'] = True
                break
    reqs, meta = [], []
    infra = 0
    for res in results:
        if 'infra_error' in res:
            infra += 1
            out.extra.setdefault('infra_errors', []).append(res['infra_error'][-600:])
            continue
        s = res['summary']
        key = {k: s.get(k) for k in ('op', 'n', 'async', 'chunks', 'distinct', 'pre', 'files', 'fail', 'fault_plan', 'order', 'completion', 'lock_order', 'loader_paths')}
        key['case'] = res['case']
        out.case(dict(key, strategy=s.get('strategy'), steps=s.get('steps'), multi=s.get('multi')) if len(out.samples) < 6 else key, res.get('nontrivial', False))
        out.count(f"op:{s['op']}")
        out.count(f"strategy:{s['strategy']}")
        out.count(f"N:{s['n']}")
        out.count('backend:' + ('coroutine' if s['async'] else 'sync'))
        out.count('shape:' + str(res.get('small') or 'generated'))
        out.count('chunks:' + ('0' if not s['chunks'] else '1-3' if s['chunks'] <= 3 else '4-8' if s['chunks'] <= 8 else '>8'))
        if s.get('fail'):
            out.count('injected-failure:' + s['fail'])
        if s['op'] == 'snapshot':
            # the class "a transfer fails while the producer is ahead": how far ahead, and is anybody left to drain the queue
            if s.get('full_waits'):
                out.count('snapshot:producer-waited-on-full-queue')
            if s.get('chunks', 0) > flood_capacity(s['n'], flags.get('queueFactor')):
                out.count('snapshot:chunks>queue+workers')
            if s.get('faults'):
                survivors = s['n'] - s.get('failed_workers', 0)
                out.count('snapshot-failure:' + ('no-worker-survives' if survivors <= 0 else 'some-worker-survives'))
                if s.get('producer_waiting_at_fault') or s.get('full_at_fault'):
                    out.count('snapshot-failure-with-full-queue:' + ('no-worker-survives' if survivors <= 0 else 'some-worker-survives'))
                if s.get('faults', 0) > 1:
                    out.count('snapshot-failure:several-transfers-failed')
        if s['op'] == 'restore-cli':
            out.count('cli-style-failed-restore')
        elif s['op'] == 'restore':
            out.count('loaders:' + ('0-1' if s['loaders'] <= 1 else '2-3' if s['loaders'] <= 3 else '>3'))
            if any(p > 1 for p in s.get('loader_paths') or []):
                out.count('chunk-shared-by-files')
        else:
            out.count('pre-existing-chunks:' + str(s.get('pre')))
        out.count('decision-points-with-choice', s.get('multi', 0))
        vt = s.get('vt')
        if s.get('control'):
            out.count('control:' + s['control'])
            out.count('control:' + s['control'] + ':expiries-played', vt['ticks'] if vt else 0)
            if not (vt and vt['ticks']):
                out.count('control:' + s['control'] + ':no-expiry-played')
            for cf in res.get('control_failures') or []:
                out.disagreement('virtual-time control (harness code with a retried finite slot wait in place of _acquire_slot_threadsafe): ' + cf,
                                 {'kind': 'schedule', 'seed': out.seed, 'tier': out.tier, 'item': res['item'], 'run': res['run'], 'system': 'control', 'summary': s})
        if vt:
            # the class "outcome depends on the latency of a transfer": states in which a finite wait could expire, waits seen, expiries played
            out.count('latency-windows(only held transfers are enabled)', vt['windows_any'])
            out.count('latency-windows-with-a-queued-slot-request', vt['windows'])
            if vt['windows']:
                out.count('schedules-with-slot-request-queued-behind-a-held-transfer')
            for name, c in vt['seen']:
                out.count('wait-issued-by-replicat:' + name, c)
            if vt['ticks']:
                out.count('schedules-with-virtual-time-expiry')
                out.count('virtual-time-expiries', vt['ticks'])
            if vt['forced']:
                out.count('virtual-time-expiries:nothing-else-enabled', vt['forced'])
        if res.get('fin_unavailable'):
            out.count('fin-trace-unavailable')
        if res.get('exhausted'):
            out.count('exhaustive-enumeration-completed')
        for sig, what in res['violations']:
            out.violation(sig, what, {'kind': 'schedule', 'seed': out.seed, 'tier': out.tier, 'item': res['item'], 'run': res['run'], 'case': res['case'],
                                      'small': res.get('small'), 'summary': s, 'decisions': res.get('decisions')})
        for req, impl, kind in res['model']:
            reqs.append(req)
            meta.append((res, impl, kind))
    if infra:
        out.count('infra-errors', infra)
    if drv is not None and reqs:
        replies = drv.ask_many(reqs)
        for req, (res, impl, kind), m in zip(reqs, meta, replies):
            bad = compare(kind, req, impl, m, flags)
            if bad:
                out.disagreement('; '.join(bad[:3]), {'kind': 'schedule', 'seed': out.seed, 'tier': out.tier, 'item': res['item'], 'run': res['run'], 'system': kind,
                                                      'summary': res['summary'], 'request_digest': digest(req), 'events_head': req['events'][:60]})
            else:
                out.traces_validated += 1
                out.count(f'accepted:{kind}' + (':hang-explained-by-model' if kind == 'snapshot' and impl.get('hang') else ''))
    affinity_cases(out, drv, quick)
    out.extra['schedules'] = len(results) - infra
    if infra and infra > len(results) // 4 and info.get('proof_ok'):
        # (with a broken proof the verdict is a violation anyway; an implementation that cannot even be constructed is not an infrastructure problem)
        raise RuntimeError('too many infrastructure errors: ' + str(out.extra.get('infra_errors', [])[:1]))


def affinity_verdict(case, res, m):
    """→ (violations [(sig, what)], disagreements [what]) of one slot-queue affinity run against the property and against `slotq.run`"""
    viol, dis = [], []
    if res.get('outcome') == 'hang':
        viol.append(('restore:hang:slot-request-pre-empted-before-it-registers',
                     f"restore with {case['concurrent']} connection(s) of {res.get('chunks')} chunk object(s) did not terminate within {case['hang_s']} s under a schedule that "
                     f"pre-empts the event-loop thread between a slot request's emptiness test and its registration: {res.get('qsize')} slot(s) sit in the queue while "
                     f"{res.get('waiters')} request(s) wait for one; {res.get('offloop_puts')} give-back(s) were executed by a thread other than the loop thread"))
    elif res.get('outcome') != 'ok':
        viol.append(('restore:schedule-dependent:' + str(res.get('outcome')), f"restore under a pre-emption between a slot request's test and its registration ended with {res.get('outcome')}: {res.get('detail')}"))
    elif not res.get('tree_ok'):
        viol.append(('restore:result-differs', 'restored tree differs under a pre-emption between a slot request\'s test and its registration'))
    if m is not None:
        if 'error' in m:
            dis.append('driver: ' + str(m['error']))
        else:
            if not m['accepted']:
                dis.append(f"the queue's observed micro-steps are not a run of SlotQ.step (event {m['upto']}: {res['events'][m['upto']:m['upto'] + 1]})")
            else:
                if m['lostWakeup'] != (res.get('outcome') == 'hang'):
                    dis.append(f"model lostWakeup = {m['lostWakeup']} but the real restore outcome is {res.get('outcome')}")
                if res.get('outcome') in ('ok', 'hang') and (m['items'] != res.get('qsize') or m['parked'] != res.get('waiters')):
                    dis.append(f"final counts differ: model items/parked {m['items']}/{m['parked']}, real queue {res.get('qsize')}/{res.get('waiters')}")
            if res.get('offloop_puts') and m.get('onLoopOnly'):
                dis.append(f"{res['offloop_puts']} give-back(s) ran on a foreign thread although Gen.slotQueueOnLoopOnly = true")
    return viol, dis


def affinity_cases(out, drv, quick):
    """thread affinity of the slot queue: the real restore under the pre-emption between `while self.empty()` and `_getters.append` of
    `asyncio.Queue.get` (child processes), replayed on `SlotQ.step` (`slotq.run`)"""
    from concurrent.futures import ThreadPoolExecutor as _TP
    r = rng_for(out.seed, 'C09-affinity')
    cases = AF.gen_cases(r, 8 if quick else 40)
    with _TP(8) as ex:
        results = list(ex.map(lambda c: _safe_aff(c), cases))
    for case, res in zip(cases, results):
        if res.get('outcome') == 'infra':
            out.count('affinity:infra')
            out.extra.setdefault('infra_errors', []).append('affinity: ' + str(res.get('detail'))[-300:])
            continue
        out.case({'kind': 'slot-affinity', 'concurrent': case['concurrent'], 'sizes': case['sizes'], 'chunk': case['chunk'], 'encrypted': case['encrypted'],
                  'events': len(res.get('events', []))}, res.get('windows', 0) > 0)
        out.count('affinity:runs')
        out.count('affinity:windows-between-test-and-registration', res.get('windows', 0))
        out.count(f"affinity:slots:{case['concurrent']}")
        if res.get('offloop_puts'):
            out.count('affinity:give-backs-on-a-foreign-thread', res['offloop_puts'])
        m = drv.ask({'op': 'slotq.run', 'n': res['n'], 'events': res.get('events', [])}) if drv is not None else None
        viol, dis = affinity_verdict(case, res, m)
        rp = {'kind': 'slot-affinity', 'case': case, 'events': res.get('events'), 'outcome': res.get('outcome')}
        for sig, what in viol:
            out.violation(sig, what, rp)
        for what in dis:
            out.disagreement('slot queue: ' + what, rp)
        if m is not None and not dis:
            out.traces_validated += 1
            out.count('accepted:slotq')


def _safe_aff(case):
    try:
        return AF.run_case(case)
    except Exception as e:  # noqa: BLE001
        return {'outcome': 'infra', 'detail': repr(e)}


def replay(path, drv):
    d = json.load(open(path))
    rp = d.get('replay', d)
    if rp.get('kind') == 'slot-affinity':
        res = _safe_aff(rp['case'])
        m = drv.ask({'op': 'slotq.run', 'n': res['n'], 'events': res.get('events', [])}) if drv is not None and 'n' in res else None
        viol, dis = affinity_verdict(rp['case'], res, m)
        for sig, what in viol:
            print('violation', sig, what)
        for what in dis:
            print('disagreement', what)
        print(f"slot-affinity case re-run: outcome {res.get('outcome')}, {len(viol)} violations")
        return 1 if viol or dis else 0
    if rp.get('kind') != 'schedule':
        print('replay kind not supported')
        return 2
    from . import c09 as me
    flags = drv.ask({'op': 'sched.flags'}) if drv is not None else {'slotBase': 2, 'finaliseDecidedUnderLock': True}
    item = next((it for it in plan(rp['seed'], rp.get('tier', 'quick')) if it['id'] == rp['item']), None)
    if item is None:
        print('work item not found')
        return 2
    results = me.do_item((rp['seed'], item, flags, rp.get('tier', 'quick')))
    bad = 0
    for res in results:
        for sig, what in res.get('violations', []):
            print('violation', res.get('run'), sig, what)
            bad += 1
    print(f'{len(results)} schedules re-run, {bad} violations')
    return 1 if bad else 0
