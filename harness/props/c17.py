"""C17 — accepted settings always yield a usable repository and working keys.

Tie: the REAL `Repository.init` (dict backend, `harness/impl/c17_repo.py`) and the compiled Lean model
(`settings.decide`) run on the same settings dictionaries — the documented lattice (3 hashes × sizes, 2 ciphers × key
sizes, 2 KDFs × parameters, chunk bounds) and typed junk (out-of-range, mistyped, unknown entries, any adapter name in any
slot) — and are compared on: accepted?, what reached the backend, the stored config and the key's KDF section.
Direct oracle (the statement of C17 on the implementation): rejected ⇒ the backend holds no object and saw no mutation;
accepted ⇒ a FRESH Repository unlocks from the stored config + serialized key, snapshots a small tree, and another fresh one
restores it byte-identically.  The model's `usable` (third-party preconditions) is validated against that round trip.
add-key: random chains (independent / shared / clone, several KDF parameter sets incl. refused ones, right and wrong
unlock passwords); every (key, password) pairing is tried on the real code and compared with the symbolic key model
(`settings.keychain`); add-key must never touch the backend.
Key files ON DISK (`harness/impl/c17_keyfile.py`): chains init -o → add-key -o … whose output paths are absent / hold an earlier
(shorter, longer, equally long) key of the chain / another repository's key / arbitrary content; every file is read back from
disk and handed to a FRESH repository (never the in-process return value); the model (`settings.keydisk`, the way the path is
opened regenerated from the source) must predict every file after every invocation.
Settings WRITTEN ON THE COMMAND LINE (`harness/impl/c17_cli.py`, stream `cli_stream_*` at the end of this file): generated argument
lists through the real `parse_cli_settings` + `flat_to_nested` in-process and through the real `main()` in a child interpreter
up to the handler (the `settings=` that `Repository.init` / `add_key` / `benchmark` receive), against `settings.cli.*`; direct
oracle: `replicat init … <flags>` and `init(settings=dict)` leave the same stored config and the same KDF section in the key.
"""
import json
import math
import multiprocessing as mp
import os
import shutil
import time

from ..common import WORK, REPO, rng_for, digest, use_rebuilt_chunker

ADAPTER_NAMES = ['aes_gcm', 'chacha20_poly1305', 'scrypt', 'blake2b', 'sha2', 'sha3', 'gclmulchunker']
FILES_SMALL = {'a.txt': b'hello world, ' * 9, 'd/b.bin': bytes(range(256)) * 2 + b'tail', 'e': b''}
PASSWORD = b'correct horse'


# ------------------------------------------------------------------ typed encoding (what crosses the tie)
def enc(v):
    if isinstance(v, bool):
        return ['b', v]
    if isinstance(v, int):
        return ['i', v]
    if isinstance(v, float):
        if math.isnan(v):
            return ['nan']
        n, d = v.as_integer_ratio()
        return ['f', n, d]
    if isinstance(v, str):
        return ['s', v]
    if v is None:
        return ['none']
    if isinstance(v, dict):
        return ['m', [[k, enc(x)] for k, x in v.items()]]
    raise TypeError(f'value outside the typed universe: {v!r}')


def enc_settings(s):
    return None if s is None else enc(s)


def flat(v):
    """typed encoding of an adapter argument as the model reports it (mappings lose their content)"""
    e = enc(v)
    return ['m'] if e[0] == 'm' else e


def typed_section(d):
    return {k: flat(v) for k, v in d.items()}


def typed_config(cfg):
    out = {'hashing': typed_section(cfg['hashing']), 'chunking': typed_section(cfg['chunking'])}
    if cfg.get('encryption') is not None:
        out['encryption'] = {'cipher': typed_section(cfg['encryption']['cipher'])}
    return out


# ------------------------------------------------------------------ generators
FAST_KDFS = [{'n': 2}, {'n': 4}, {'n': 16, 'r': 2}, {'n': 1024, 'r': 1, 'p': 2}, {'n': 4, 'r': 8, 'p': 1}, {'name': 'blake2b'},
             {'name': 'scrypt', 'n': 8, 'r': 1}, {'n': 32768, 'r': 1}]
JUNK_INTS = [0, 1, -1, -5, 2, 3, 7, 8, 9, 12, 15, 16, 17, 24, 32, 63, 64, 65, 95, 96, 100, 127, 128, 129, 191, 192, 193, 223, 224, 225, 255, 256, 257, 384, 512, 1024,
             1031, 1032, 65536, 1 << 40]
JUNK_FLOATS = [0.0, 1.0, 1.5, 8.0, 64.0, 96.0, 128.0, 256.0, 512.0, -2.5, 1e3, float('nan')]
JUNK_STRS = ['', 'a', 'b', '64', 'blake2b', 'sha2', 'é']


def junk_value(r):
    k = r.random()
    if k < 0.40:
        return r.choice(JUNK_INTS)
    if k < 0.50:
        return r.choice([True, False])
    if k < 0.68:
        return r.choice(JUNK_FLOATS)
    if k < 0.80:
        return r.choice(JUNK_STRS)
    if k < 0.90:
        return None
    return r.choice([{}, {'a': 1}])


def lattice_point(r):
    """a documented, valid settings dictionary"""
    s = {}
    h = r.random()
    if h < 0.3:
        pass
    elif h < 0.6:
        s['hashing'] = {'name': 'blake2b', 'length': r.choice([1, 16, 20, 32, 48, 64])}
        if r.random() < 0.3:
            del s['hashing']['name']
    elif h < 0.8:
        s['hashing'] = {'name': 'sha2', 'bits': r.choice([224, 256, 384, 512])}
    else:
        s['hashing'] = {'name': 'sha3', 'bits': r.choice([224, 256, 384, 512])}
    if r.random() < 0.25 and 'hashing' in s and 'bits' in s['hashing']:
        del s['hashing']['bits']
    c = r.random()
    if c < 0.75:
        mn, mx = r.choice([(4, 8), (8, 8), (5, 7), (1, 10), (16, 64), (64, 256), (100, 1000), (1, 1), (3, 4096)])
        s['chunking'] = {'min_length': mn, 'max_length': mx}
        if r.random() < 0.3:
            s['chunking']['name'] = 'gclmulchunker'
    e = r.random()
    if e < 0.25:
        s['encryption'] = None
    else:
        encd = {'kdf': dict(r.choice(FAST_KDFS))}
        ci = r.random()
        if ci < 0.45:
            encd['cipher'] = {'name': 'aes_gcm', 'key_bits': r.choice([128, 192, 256])}
            if r.random() < 0.5:
                encd['cipher']['nonce_bits'] = r.choice([64, 96, 100, 128, 256, 1024, 1031])
            if r.random() < 0.3:
                del encd['cipher']['name']
        elif ci < 0.7:
            encd['cipher'] = {'name': 'chacha20_poly1305'}
        s['encryption'] = encd
    return s


SLOTS = {
    'hashing': (('hashing',), ['name', 'length', 'bits']),
    'chunking': (('chunking',), ['name', 'min_length', 'max_length']),
    'cipher': (('encryption', 'cipher'), ['name', 'key_bits', 'nonce_bits']),
    'kdf': (('encryption', 'kdf'), ['name', 'n', 'r', 'p', 'length']),
}


def section_of(s, path, create=True):
    cur = s
    for p in path:
        nxt = cur.get(p)
        if not isinstance(nxt, dict):
            if not create:
                return None
            nxt = cur[p] = {}
        cur = nxt
    return cur


def mutate(r, s):
    """one typed-junk edit of a lattice point; returns (settings, label)"""
    k = r.random()
    if k < 0.50:      # a parameter gets a junk value
        slot = r.choice(list(SLOTS))
        path, params = SLOTS[slot]
        if slot in ('cipher', 'kdf') and not isinstance(s.get('encryption', {}), dict):
            s['encryption'] = {'kdf': {'n': 4}}
        sec = section_of(s, path)
        p = r.choice([x for x in params if x != 'name'])
        if slot == 'kdf' and p == 'length' and r.random() < 0.7:
            p = r.choice(['n', 'r', 'p'])
        v = junk_value(r)
        if slot == 'chunking' and r.random() < 0.45:
            # boundary of the constructor's comparison: relative to the other bound
            other = sec.get('max_length' if p == 'min_length' else 'min_length', 128000 if p == 'max_length' else 5120000)
            if isinstance(other, int) and not isinstance(other, bool):
                v = other + r.choice([-2, -1, 0, 1, 2])
        # keep scrypt cheap: a huge valid cost parameter would only burn time/memory
        if slot == 'kdf' and isinstance(v, int) and not isinstance(v, bool) and v > 65536:
            v = 65536
        if slot == 'kdf' and p in ('r', 'p') and isinstance(v, int) and not isinstance(v, bool) and v > 16:
            v = r.choice([0, 1, 2, 3, -1])
        sec[p] = v
        return s, f'junk:{slot}.{p}:{type(v).__name__}'
    if k < 0.68:      # any adapter name in any slot
        slot = r.choice(list(SLOTS))
        path, _ = SLOTS[slot]
        if slot in ('cipher', 'kdf') and not isinstance(s.get('encryption', {}), dict):
            s['encryption'] = {'kdf': {'n': 4}}
        sec = section_of(s, path)
        nm = r.choice(ADAPTER_NAMES + ['md5', 'AES_GCM', 5, None, {}, True, 1.5])
        keep = r.random() < 0.35
        if not keep:
            for key in list(sec):
                if not (slot == 'kdf' and key in ('n', 'r', 'p')):
                    del sec[key]
        sec['name'] = nm
        if nm == 'scrypt' and slot != 'kdf' and r.random() < 0.7:
            sec['length'] = r.choice([16, 32, 64])
            if r.random() < 0.5:
                sec['n'] = 4
        return s, f'name:{slot}:{nm if isinstance(nm, str) else type(nm).__name__}'
    if k < 0.78:      # unknown parameter
        slot = r.choice(list(SLOTS))
        path, _ = SLOTS[slot]
        if slot in ('cipher', 'kdf') and not isinstance(s.get('encryption', {}), dict):
            s['encryption'] = {'kdf': {'n': 4}}
        sec = section_of(s, path)
        sec[r.choice(['lenght', 'bits', 'length', 'size', 'key_bits', 'n', 'min_length', 'salt'])] = r.choice([1, 64, 256, 'x', None])
        return s, f'param:{slot}'
    if k < 0.86:      # unknown key at the top / encryption level
        if r.random() < 0.5:
            s[r.choice(['hash', 'compression', 'Hashing', 'kdf', 'cipher', ''])] = r.choice([{}, 1, None, 'x'])
            return s, 'key:top'
        if not isinstance(s.get('encryption'), dict):
            s['encryption'] = {}
        s.setdefault('encryption', {})[r.choice(['mac', 'mac', 'shared_kdf', 'shared_kdf', 'hash', 'Cipher'])] = r.choice(
            [{}, {'name': 'blake2b'}, 1, {'name': 'blake2b', 'length': 100}, {'length': 0}, {'name': 'sha2'}, {'name': 'scrypt', 'n': 3}, {'length': 1.5}])
        return s, 'key:encryption'
    if k < 0.96:      # a section of the wrong type
        which = r.choice(['hashing', 'chunking', 'encryption', 'cipher', 'kdf'])
        v = r.choice([None, 5, 'x', 1.5, True, {}])
        if which == 'kdf' and v == {}:
            v = {'n': 2}          # an empty kdf section means scrypt n = 2^20 (1 GiB, seconds): only the corpus case does that
        if which in ('cipher', 'kdf'):
            if not isinstance(s.get('encryption'), dict):
                s['encryption'] = {}
            s['encryption'][which] = v
        else:
            s[which] = v
        return s, f'shape:{which}:{type(v).__name__}'
    return s, 'lattice'


CORPUS = [
    # (settings, password present, label) — the D12 witnesses and the edges of every constructor check
    ({'hashing': {'length': 100}, 'encryption': {'kdf': {'n': 4}}}, True, 'D12:hashing.length=100'),
    ({'hashing': {'name': 'aes_gcm'}, 'encryption': {'kdf': {'n': 4}}}, True, 'D12:hashing.name=aes_gcm'),
    ({'hashing': {'name': 'scrypt', 'length': 32}, 'encryption': None}, True, 'D12:hashing.name=scrypt'),
    ({'chunking': {'min_length': -5, 'max_length': 8}, 'encryption': {'kdf': {'n': 4}}}, True, 'D12:chunking.min=-5'),
    ({'chunking': {'min_length': 1.5, 'max_length': 8}, 'encryption': None}, True, 'D12:chunking.min=1.5'),
    ({'chunking': {'min_length': 0, 'max_length': 0}, 'encryption': None}, True, 'D12:chunking.min=max=0'),
    ({'chunking': {'name': 'blake2b'}, 'encryption': None}, True, 'D12:chunking.name=blake2b(unencrypted)'),
    ({'chunking': {'name': 'blake2b'}, 'encryption': {'kdf': {'n': 4}}}, True, 'chunking.name=blake2b(encrypted)'),
    ({'chunking': {'min_length': 'a', 'max_length': 'b'}, 'encryption': None}, True, 'D12:chunking.str'),
    ({'chunking': {'min_length': float('nan'), 'max_length': 8}, 'encryption': None}, True, 'D12:chunking.nan'),
    ({'hashing': {'length': 0}, 'encryption': None}, True, 'D12:hashing.length=0'),
    ({'hashing': {'length': 64.0}, 'encryption': None}, True, 'D12:hashing.length=64.0'),
    ({'hashing': {'length': True}, 'encryption': None}, True, 'hashing.length=True'),
    ({'hashing': {'length': 1}, 'chunking': {'min_length': 4, 'max_length': 8}, 'encryption': None}, True, 'hashing.length=1 (pigeonhole: > 256 chunks)'),
    ({'hashing': {'length': 16}, 'chunking': {'min_length': 4, 'max_length': 8}, 'encryption': {'kdf': {'n': 4}}}, True, 'hashing.length=16'),
    ({'hashing': {'name': 'sha2', 'bits': 256.0}, 'encryption': None}, True, 'sha2.bits=256.0'),
    ({'hashing': {'name': 'sha2', 'bits': 100}, 'encryption': None}, True, 'sha2.bits=100'),
    ({'encryption': {'cipher': {'key_bits': 256.0}, 'kdf': {'n': 4}}}, True, 'aes.key_bits=256.0'),
    ({'encryption': {'cipher': {'key_bits': 512}, 'kdf': {'n': 4}}}, True, 'aes.key_bits=512'),
    ({'encryption': {'cipher': {'nonce_bits': 63}, 'kdf': {'n': 4}}}, True, 'aes.nonce_bits=63'),
    ({'encryption': {'cipher': {'nonce_bits': 64}, 'kdf': {'n': 4}}}, True, 'aes.nonce_bits=64'),
    ({'encryption': {'cipher': {'nonce_bits': 1031}, 'kdf': {'n': 4}}}, True, 'aes.nonce_bits=1031'),
    ({'encryption': {'cipher': {'nonce_bits': 1032}, 'kdf': {'n': 4}}}, True, 'aes.nonce_bits=1032'),
    ({'encryption': {'cipher': {'nonce_bits': 96.0}, 'kdf': {'n': 4}}}, True, 'aes.nonce_bits=96.0'),
    ({'encryption': {'cipher': {'name': 'blake2b'}, 'kdf': {'n': 4}}}, True, 'cipher.name=blake2b'),
    ({'encryption': {'kdf': {'n': 3}}}, True, 'scrypt.n=3'),
    ({'encryption': {'kdf': {'n': 1}}}, True, 'scrypt.n=1'),
    ({'encryption': {'kdf': {'n': 4, 'r': 0}}}, True, 'scrypt.r=0'),
    ({'encryption': {'kdf': {'n': 4, 'p': True}}}, True, 'scrypt.p=True'),
    ({'encryption': {'kdf': {'n': 65536, 'r': 1}}}, True, 'scrypt.n=2^16,r=1'),
    ({'encryption': {'kdf': {'n': 4, 'length': 32}}}, True, 'kdf.length given'),
    ({'encryption': {'kdf': {'name': 'sha2'}}}, True, 'kdf.name=sha2'),
    ({'encryption': {'kdf': {'n': 4}}}, False, 'no password'),
    ({'encryption': None}, False, 'unencrypted, no password'),
    (None, True, 'settings=None (default KDF cost)'),
    ({}, False, 'settings={} without password'),
    ({'encryption': {'kdf': {'n': 4}, 'mac': {}}}, True, 'unknown encryption key'),
    ({'hashing': 5}, True, 'hashing not a mapping'),
    ({'encryption': {'kdf': {'n': 4}, 'mac': {'length': 100}}}, True, 'encryption.mac (read by _make_key, outside the schema)'),
    ({'encryption': {'kdf': {'n': 4}, 'shared_kdf': {'name': 'scrypt', 'n': 3}}}, True, 'encryption.shared_kdf (read by _make_key, outside the schema)'),
]


def gen_cases(r, n):
    cases = [{'settings': s, 'password': pw, 'label': lb, 'origin': 'corpus'} for s, pw, lb in CORPUS]
    while len(cases) < n:
        s = lattice_point(r)
        k = r.random()
        if k < 0.22:
            label = 'lattice'
        elif k < 0.85:
            s, label = mutate(r, s)
        else:
            s, l1 = mutate(r, s)
            s, l2 = mutate(r, s)
            label = l1 + '+' + l2
        pw = r.random() > 0.04
        cases.append({'settings': s, 'password': pw, 'label': label, 'origin': 'generated'})
    return cases


# ------------------------------------------------------------------ implementation side (worker processes)
_scratch = None


def _worker_init():
    global _scratch
    use_rebuilt_chunker()
    _scratch = WORK / str(os.getppid()) / f'w{os.getpid()}'
    _scratch.mkdir(parents=True, exist_ok=True)


def _pigeonhole_tree():
    import random
    rr = random.Random(17)
    return {'big.bin': rr.randbytes(4096), 'a.txt': b'hello world, ' * 3}


def files_for(config):
    """keep the number of chunks small when the accepted chunk lengths are tiny — except for a one-byte digest, where more
    than 256 distinct chunks make a name collision certain (deterministic witness instead of a 1-in-256 flake)"""
    try:
        mx = config['chunking'].get('max_length')
        hl = config['hashing'].get('length')
        if config['hashing'].get('name') == 'blake2b' and isinstance(hl, int) and hl == 1 and isinstance(mx, int) and 4 <= mx <= 12:
            return _pigeonhole_tree()
        if isinstance(mx, (int, float)) and not isinstance(mx, bool) and mx == mx and mx < 64:
            return {'a.txt': b'hello world, ' * 3, 'd/b.bin': bytes(range(97)), 'e': b''}
    except Exception:  # noqa: BLE001
        pass
    return FILES_SMALL


MIN_DIGEST_BYTES = 16


def _intlike(v):
    return isinstance(v, int)      # bool included, as in Python


def py_why(config, key):
    """The specification `usable` evaluated on the implementation's own config / key (independent of the Lean model; adapter
    kinds come from the real class hierarchy).  Returns the failing slots in the model's order and naming."""
    from replicat.utils import adapters as A

    def kind(name, base):
        t = A._adapters_mapping.get(name) if isinstance(name, str) else None
        return t is not None and issubclass(t, base)
    why = []
    h = config['hashing']
    if not kind(h.get('name'), A.HashAdapter):
        why.append('hashing:wrong-kind')
    elif h['name'] == 'blake2b':
        ln = h.get('length')
        if not _intlike(ln):
            why.append('hashing:blake2b:non-integer')
        elif not 1 <= ln <= 64:
            why.append('hashing:blake2b:out-of-range')
        elif ln < MIN_DIGEST_BYTES:
            why.append('hashing:blake2b:digest-too-short')
    elif h['name'] in ('sha2', 'sha3'):
        b = h.get('bits')
        if not (isinstance(b, int) and not isinstance(b, bool) and b in (224, 256, 384, 512)):
            why.append(f'hashing:{h["name"]}:parameters')
    else:
        why.append(f'hashing:{h["name"]}:parameters')
    c = config['chunking']
    if not kind(c.get('name'), A.ChunkerAdapter):
        why.append('chunking:wrong-kind')
    else:
        mn, mx = c.get('min_length'), c.get('max_length')
        if not (_intlike(mn) and _intlike(mx)):
            why.append(f'chunking:{c["name"]}:non-integer')
        elif mn < 1:
            why.append(f'chunking:{c["name"]}:below-one')
        elif mx < mn:
            why.append(f'chunking:{c["name"]}:min-above-max')
        elif c['name'] != 'gclmulchunker':
            why.append(f'chunking:{c["name"]}:parameters')
    if config.get('encryption') is not None:
        ci = config['encryption']['cipher']
        if not kind(ci.get('name'), A.CipherAdapter):
            why.append('cipher:wrong-kind')
        elif ci['name'] == 'aes_gcm':
            kb, nb = ci.get('key_bits'), ci.get('nonce_bits')
            if not (isinstance(kb, int) and not isinstance(kb, bool) and kb in (128, 192, 256)):
                why.append('cipher:aes_gcm:key-bits')
            elif not (_intlike(nb) and 8 <= nb // 8 <= 128):
                why.append('cipher:aes_gcm:nonce')
        elif ci['name'] != 'chacha20_poly1305':
            why.append(f'cipher:{ci["name"]}:parameters')
        k = (key or {}).get('kdf')
        if k is None:
            why.append('kdf:no-key')
        elif not kind(k.get('name'), A.KDFAdapter):
            why.append('kdf:wrong-kind')
        elif k['name'] == 'scrypt':
            ln, n, r, p = k.get('length'), k.get('n'), k.get('r'), k.get('p')
            ok = all(_intlike(x) for x in (ln, n, r, p)) and ln >= 0 and n >= 2 and (n & (n - 1)) == 0 and r >= 1 and p >= 1 and n < 2 ** (16 * r)
            if not ok:
                why.append('kdf:scrypt:parameters')
        elif k['name'] == 'blake2b':
            if not (_intlike(k.get('length')) and 1 <= k['length'] <= 64):
                why.append('kdf:blake2b:parameters')
        else:
            why.append(f'kdf:{k["name"]}:parameters')
    return why


def impl_case(case):
    """runs the real init; if accepted, the fresh unlock → snapshot → restore round trip"""
    from ..impl import c17_repo as R
    t0 = time.time()
    pw = PASSWORD if case['password'] else None
    res = R.run_init(case['settings'], pw)
    be = res['backend']
    out = {'accepted': res['accepted'], 'error': res['error'], 'error_repr': res['error_repr'],
           'mutations': [list(m) for m in be.mutations], 'objects': sorted(be.objects),
           'config': None, 'kdf': None, 'roundtrip': None, 'why': None}
    if res['accepted']:
        try:
            out['config'] = typed_config(res['config'])
            out['kdf'] = typed_section(res['key']['kdf']) if res['key'] is not None else None
        except Exception as e:  # noqa: BLE001
            out['config_error'] = repr(e)
        try:
            out['why'] = py_why(res['config'], res['key'])
        except Exception as e:  # noqa: BLE001
            out['why'] = ['unclassified:' + type(e).__name__]
        out['roundtrip'] = R.roundtrip(be, res['key'], pw, files_for(res['config']), _scratch)
    out['t'] = round(time.time() - t0, 3)
    return out


def impl_chain(sc):
    """a repository + a chain of add-key invocations on the real code; then every (key, password) pairing"""
    from ..impl import c17_repo as R
    pws = sc['passwords']
    res = R.run_init(sc['repo_settings'], pws[sc['init_pw']].encode())
    if not res['accepted']:
        return {'init_ok': False, 'error': res['error_repr']}
    be = res['backend']
    n0 = len(be.mutations)
    keys = [res['key']]
    ops_out = []
    for op in sc['ops']:
        unlock_with = None
        if op['kind'] in ('shared', 'clone'):
            unlock_with = (keys[op['using']], pws[op['using_pw']].encode()) if op['using'] < len(keys) else 'missing'
        if unlock_with == 'missing':
            ops_out.append({'ok': False, 'error': 'no-such-key', 'mutations': []})
            continue
        new_pw = pws[op['using_pw']] if op['kind'] == 'clone' else pws[op['pw']]
        a = R.run_add_key(be, unlock_with=unlock_with, new_password=new_pw.encode(), settings=op['settings'],
                          shared=op['kind'] in ('shared', 'clone'))
        ops_out.append({'ok': a['ok'], 'error': a['error'], 'error_repr': a['error_repr'], 'mutations': [list(m) for m in a['mutations']],
                        'kdf': typed_section(a['key']['kdf']) if a['ok'] else None})
        if a['ok']:
            keys.append(a['key'])
    matrix, fams = [], []
    for k in keys:
        row, fam = [], None
        for p in pws:
            ok, err, private = R.try_unlock(be, k, p.encode())
            row.append(bool(ok))
            if ok:
                fam = private['shared_key'].hex() + private['mac_params'].hex() + bytes(private['chunker_params']).hex()
            elif err != 'decryption_error':
                row[-1] = 'error:' + str(err)
        matrix.append(row)
        fams.append(fam)
    return {'init_ok': True, 'ops': ops_out, 'matrix': matrix, 'families': fams, 'later_mutations': [list(m) for m in be.mutations[n0:]]}


def impl_keyfile(sc):
    """init -o / add-key -o chains observed through the file system (`impl/c17_keyfile.py`)"""
    from ..impl import c17_keyfile as KF
    return KF.impl_keyfile_chain(sc, _scratch)


def impl_cli_rotation(sc):
    from ..common import PYMOD
    from ..impl import c17_keyfile as KF
    try:
        return KF.cli_rotation(sc, _scratch, REPO, PYMOD, os.environ.get('REPLICAT_VERIF_GCL_SO') or WORK / 'native' / 'libgcl.so')
    except Exception as e:  # noqa: BLE001
        return {'ok': False, 'failed': [{'stage': 'harness', 'rc': None, 'output': repr(e)[:300]}], 'stages': []}


CLI_ROTATIONS = [
    # in-place rotation of the key file by separate interpreters: KDF cost lowered / raised / unchanged, over a long earlier file, independent key
    {'n_init': 1024, 'n_new': 16}, {'n_init': 16, 'n_new': 4096}, {'n_init': 16, 'n_new': 4, 'pre_bytes': 5000}, {'n_init': 1024, 'n_new': 2, 'independent': True},
    {'n_init': 64, 'n_new': 32}, {'n_init': 4, 'n_new': 2, 'pre_bytes': 3}, {'n_init': 128, 'n_new': 8, 'independent': True}, {'n_init': 2, 'n_new': 1024, 'pre_bytes': 668},
    {'n_init': 4096, 'n_new': 2}, {'n_init': 16, 'n_new': 8, 'pre_bytes': 667}, {'n_init': 256, 'n_new': 64}, {'n_init': 8, 'n_new': 16, 'independent': True},
]


# ------------------------------------------------------------------ add-key scenarios
ADDKEY_KDFS = [
    ({'encryption': {'kdf': {'n': 2}}}, True), ({'encryption': {'kdf': {'n': 4, 'r': 2}}}, True), ({'encryption': {'kdf': {'name': 'blake2b'}}}, True),
    ({'encryption': {'kdf': {'n': 8, 'p': 2}}}, True), ({'encryption': {'kdf': {'n': 3}}}, False), ({'encryption': {'kdf': {'n': 4, 'p': 0}}}, False),
    ({'encryption': {'kdf': {'n': 4, 'r': 1.0}}}, False), ({'encryption': {'kdf': {'name': 'sha2'}}}, False), ({'encryption': {'kdf': {'n': 4}, 'cipher': {}}}, False),
    ({'encryption': {'kdf': {'n': 4, 'length': 16}}}, False), ({'encryption': {'kdf': {'n': True}}}, False), ({'kdf': {'n': 4}}, False),
    ({'encryption': {'kdf': {'n': 16, 'r': 1, 'p': 1}}}, True),
]
REPO_SETTINGS = [
    {'encryption': {'kdf': {'n': 4}}},
    {'encryption': {'kdf': {'n': 2}, 'cipher': {'name': 'chacha20_poly1305'}}},
    {'encryption': {'kdf': {'name': 'blake2b'}, 'cipher': {'key_bits': 128}}},
    {'encryption': {'kdf': {'n': 4}, 'cipher': {'key_bits': 192, 'nonce_bits': 128}}, 'hashing': {'name': 'sha2', 'bits': 256}},
]


def gen_chain(r):
    pws = ['pw-zero', 'pw-one', 'pw-two', 'pw-\xe9']
    sc = {'repo_settings': r.choice(REPO_SETTINGS), 'passwords': pws, 'init_pw': r.randrange(len(pws)), 'ops': []}
    nkeys_upper = 1
    key_pw = [sc['init_pw']]      # password index each *potential* key was made with (upper bound bookkeeping for the generator only)
    for _ in range(r.randint(2, 6)):
        kind = r.choice(['independent', 'independent', 'shared', 'shared', 'clone'])
        kid = r.randrange(len(ADDKEY_KDFS)) if r.random() < 0.35 else r.choice([0, 1, 2, 3, 12])
        op = {'kind': kind, 'kdf': kid, 'settings': ADDKEY_KDFS[kid][0], 'pw': r.randrange(len(pws))}
        if kind != 'independent':
            op['using'] = r.randrange(nkeys_upper)
            guess = key_pw[op['using']] if op['using'] < len(key_pw) else 0
            op['using_pw'] = guess if r.random() < 0.75 else r.randrange(len(pws))
        sc['ops'].append(op)
        if ADDKEY_KDFS[kid][1]:
            nkeys_upper += 1
            key_pw.append(op.get('using_pw', 0) if kind == 'clone' else op['pw'])
    return sc


# ------------------------------------------------------------------ the run
def classify(case):
    return case['label'].split(':')[0] if case['origin'] == 'generated' else 'corpus'


def sig_for(why, rt):
    """stable signature of an accepted-but-not-usable finding: the slot the model blames, else the failing stage"""
    if why:
        return 'settings:accepted-unusable:' + why[0]
    return 'settings:accepted-roundtrip-failed:' + str(rt.get('stage'))


def check_case(out, case, im, m):
    """compare one implementation result with the model's reply and evaluate the direct oracle"""
    cid = {'settings': enc_settings(case['settings']), 'password': case['password']}
    replay = {'kind': 'init', 'settings_repr': repr(case['settings']), 'settings_typed': cid['settings'], 'password_given': case['password'],
              'label': case['label']}
    nontrivial = case['settings'] not in (None, {}) and case['label'] != 'lattice' or (im['accepted'] and case['settings'] not in (None, {}))
    out.case({'settings': repr(case['settings'])[:300], 'password': case['password'], 'accepted': im['accepted'], 'error': im['error'],
              'roundtrip': (im['roundtrip'] or {}).get('ok')}, bool(nontrivial))
    out.count('kind:' + classify(case))
    out.count('impl:' + ('accepted' if im['accepted'] else 'rejected:' + str(im['error'])))
    enc_kind = 'unencrypted' if isinstance(case['settings'], dict) and 'encryption' in case['settings'] and case['settings']['encryption'] is None else 'encrypted'
    out.count('repo:' + enc_kind)
    # ---- direct oracle, part 1: rejected ⇒ backend untouched
    if not im['accepted'] and (im['mutations'] or im['objects']):
        out.violation('settings:rejected-after-upload',
                      f'init raised {im["error_repr"]} but the backend already holds {im["objects"]} (mutations {im["mutations"]})',
                      dict(replay, observed={'error': im['error_repr'], 'objects': im['objects']}, expected='no object at the backend after a rejected init'))
    # ---- direct oracle, part 2: accepted ⇒ fresh unlock + snapshot + restore works
    rt = im['roundtrip']
    if im['accepted']:
        out.count('roundtrip:' + ('ok' if rt['ok'] else 'failed@' + str(rt['stage'])))
        if im['objects'] != ['config']:
            out.violation('settings:accepted-without-config', f'init returned normally but the backend holds {im["objects"]}', dict(replay, observed=im['objects']))
        if not rt['ok']:
            why = im['why'] or []
            out.violation(sig_for(why, rt),
                          f'init accepted {case["settings"]!r} and uploaded the config, but a fresh repository cannot back up and restore: '
                          f'{rt["stage"]}: {rt["error_repr"]}',
                          dict(replay, observed={'stage': rt['stage'], 'error': rt['error_repr']}, expected='unlock + snapshot + restore reproduce the tree',
                               specification_blames=why))
    # ---- correspondence with the model
    if m is None:
        return
    if 'error' in m and 'accept' not in m:
        out.disagreement('driver error', {'case': cid, 'reply': m})
        return
    ok = True
    if m['accept'] != im['accepted']:
        ok = False
        out.disagreement(f'accepted? differs: model {m["accept"]} ({m.get("error")}), implementation {im["accepted"]} ({im["error_repr"]})',
                         dict(replay, model=m, impl={k: im[k] for k in ('accepted', 'error', 'error_repr', 'mutations')}))
    model_muts = [['put', n] for n in m['puts']]
    if model_muts != im['mutations']:
        ok = False
        out.disagreement(f'backend mutations differ: model {model_muts}, implementation {im["mutations"]}', dict(replay, model=m))
    if im['accepted'] and m['accept']:
        if m['config'] != im['config']:
            ok = False
            out.disagreement('stored config differs', dict(replay, model=m['config'], impl=im['config']))
        if m['kdf'] != im['kdf']:
            ok = False
            out.disagreement("key file's kdf section differs", dict(replay, model=m['kdf'], impl=im['kdf']))
        if m['why'] != im['why']:
            ok = False
            out.disagreement(f'`usable` evaluated by the model ({m["why"]}) and on the implementation\'s config ({im["why"]}) differ', dict(replay, model=m))
        # validation of `usable` (third-party preconditions) against the libraries: usable ⇒ the round trip works
        if m['usable'] and not rt['ok']:
            ok = False
            out.disagreement(f'model says usable, round trip fails at {rt["stage"]}: {rt["error_repr"]}', dict(replay, model=m))
        out.count('usable:' + ('yes' if m['usable'] else 'no:' + (m['why'] or ['?'])[0]) + ('|works' if rt['ok'] else '|fails'))
        if not m['usable'] and m['checked_elsewhere']:
            ok = False
            out.disagreement('model: accepted, not usable, yet inside the region of accept_implies_usable_partial (theorem would be false)', dict(replay, model=m))
    if not im['accepted'] and not m['accept']:
        out.count('error-class:' + ('same' if m['error'] == im['error'] else f'model={m["error"]},impl={im["error"]}'))
    if ok:
        out.traces_validated += 1


def check_chain(out, sc, im, drv):
    replay = {'kind': 'addkey-chain', 'scenario': sc}
    nkeys = 1 + sum(1 for o in im.get('ops', []) if o['ok'])
    out.case({'repo': repr(sc['repo_settings'])[:120], 'ops': [(o['kind'], o['kdf'], o.get('using'), o.get('using_pw'), o['pw']) for o in sc['ops']],
              'keys': nkeys, 'matrix': im.get('matrix')}, nkeys >= 3)
    if not im['init_ok']:
        out.disagreement('add-key scenario: init of a standard repository failed', dict(replay, impl=im))
        return
    pws = sc['passwords']
    # ---- direct oracle
    if im['later_mutations']:
        out.violation('settings:addkey-touched-backend', f'add-key mutated the backend: {im["later_mutations"][:4]}', dict(replay, observed=im['later_mutations']))
    for o in sc['ops']:
        out.count('addkey:' + o['kind'])
    key_pw = [sc['init_pw']]
    for o, r_ in zip(sc['ops'], im['ops']):
        out.count('addkey-result:' + ('ok' if r_['ok'] else str(r_['error'])))
        if r_['ok']:
            key_pw.append(o['using_pw'] if o['kind'] == 'clone' else o['pw'])
    for i, row in enumerate(im['matrix']):
        for j, cell in enumerate(row):
            want = (pws[j] == pws[key_pw[i]])
            if cell is not want:
                out.violation('settings:key-unlock-matrix',
                              f'key #{i} (made with password #{key_pw[i]}) unlock with password #{j}: got {cell}, expected {want}',
                              dict(replay, observed=im['matrix'], key_passwords=key_pw))
    # ---- model
    if drv is None:
        return
    valid = []
    ok = True
    for kid in sorted({o['kdf'] for o in sc['ops']}):
        a = drv.ask({'op': 'settings.addkey', 'repo_settings': enc_settings(sc['repo_settings']), 'settings': enc_settings(ADDKEY_KDFS[kid][0]),
                     'password': True, 'shared': False, 'unlocked': True})
        if a.get('accept'):
            valid.append(kid)
            if not a.get('kdf_usable'):
                ok = False
                out.disagreement('model: add-key accepts KDF settings that are not usable', dict(replay, kdf=ADDKEY_KDFS[kid][0], model=a))
        if a.get('uploads'):
            ok = False
            out.disagreement('extractor: add_key contains a mutating backend call', dict(replay, model=a))
    mops = []
    for o in sc['ops']:
        if o['kind'] == 'independent':
            mops.append({'kind': 'independent', 'pw': o['pw'], 'kdf': o['kdf']})
        else:
            mops.append({'kind': o['kind'], 'using': o['using'], 'using_pw': o['using_pw'], 'pw': o['pw'], 'kdf': o['kdf']})
    m = drv.ask({'op': 'settings.keychain', 'valid': valid, 'init': {'pw': sc['init_pw'], 'kdf': 1000}, 'ops': mops, 'passwords': list(range(len(pws)))})
    # passwords with equal text are equal passwords: the model works on indices, all our passwords are distinct texts
    if len(m['keys']) != len(im['matrix']):
        ok = False
        out.disagreement(f'number of keys produced differs: model {len(m["keys"])}, implementation {len(im["matrix"])}', dict(replay, model=m, impl=im))
    else:
        if m['matrix'] != im['matrix']:
            ok = False
            out.disagreement('unlock matrix differs', dict(replay, model=m['matrix'], impl=im['matrix']))
        # family partition (which keys share secrets)
        mf = [k['family'] for k in m['keys']]
        part_m = [[i for i, f in enumerate(mf) if f == g] for g in sorted(set(mf))]
        fi = im['families']
        part_i = [[i for i, f in enumerate(fi) if f == g] for g in sorted(set(fi), key=lambda g: fi.index(g))]
        if sorted(part_m) != sorted(part_i):
            ok = False
            out.disagreement('partition of keys into families (shared secrets) differs', dict(replay, model=part_m, impl=part_i))
    if ok:
        out.traces_validated += 1


def addkey_settings_cases(r, n):
    cases = []
    for kid in range(len(ADDKEY_KDFS)):
        for shared in (False, True):
            cases.append({'repo_settings': REPO_SETTINGS[0], 'settings': ADDKEY_KDFS[kid][0], 'password': True, 'shared': shared, 'unlocked': True})
    cases.append({'repo_settings': REPO_SETTINGS[0], 'settings': ADDKEY_KDFS[0][0], 'password': False, 'shared': False, 'unlocked': True})
    cases.append({'repo_settings': REPO_SETTINGS[0], 'settings': ADDKEY_KDFS[0][0], 'password': True, 'shared': True, 'unlocked': False})
    cases.append({'repo_settings': {'encryption': None}, 'settings': ADDKEY_KDFS[0][0], 'password': True, 'shared': False, 'unlocked': False})
    cases.append({'repo_settings': REPO_SETTINGS[0], 'settings': {}, 'password': False, 'shared': False, 'unlocked': False})
    while len(cases) < n:
        s = {'encryption': {'kdf': dict(r.choice(FAST_KDFS))}}
        k = r.random()
        if k < 0.5:
            s['encryption']['kdf'][r.choice(['n', 'r', 'p', 'length', 'name', 'bits'])] = junk_value(r)
            v = s['encryption']['kdf']
            for p_, cap in (('n', 65536), ('r', 16), ('p', 16)):
                if isinstance(v.get(p_), int) and not isinstance(v.get(p_), bool) and v[p_] > cap:
                    v[p_] = cap if p_ == 'n' else 3
        elif k < 0.7:
            which = r.choice(['cipher', 'mac', 'kdf'])
            s['encryption'][which] = r.choice([{} if which != 'kdf' else {'n': 2}, None, 5])
        elif k < 0.8:
            s[r.choice(['hashing', 'chunking', 'x'])] = {}
        cases.append({'repo_settings': r.choice(REPO_SETTINGS), 'settings': s, 'password': r.random() > 0.05, 'shared': r.random() < 0.4, 'unlocked': r.random() < 0.8})
    return cases


def impl_addkey_case(c):
    from ..impl import c17_repo as R
    res = R.run_init(c['repo_settings'], PASSWORD)
    if not res['accepted']:
        return {'init_ok': False}
    be = res['backend']
    unlock_with = (res['key'], PASSWORD) if (c['unlocked'] and res['key'] is not None) else None
    a = R.run_add_key(be, unlock_with=unlock_with, new_password=b'new' if c['password'] else None, settings=c['settings'], shared=c['shared'])
    out = {'init_ok': True, 'ok': a['ok'], 'error': a['error'], 'error_repr': a['error_repr'], 'mutations': [list(x) for x in a['mutations']],
           'kdf': typed_section(a['key']['kdf']) if a['ok'] else None, 'unlocks': None}
    if a['ok']:
        out['unlocks'] = [R.try_unlock(be, a['key'], b'new')[0], R.try_unlock(be, a['key'], b'other')[0]]
    return out


def run(out, drv, info):
    quick = out.tier == 'quick'
    n_init = 420 if quick else 8000
    n_chain = 40 if quick else 700
    n_addkey = 60 if quick else 900
    n_keyfile = 90 if quick else 2500
    cli_rot = CLI_ROTATIONS[:3] if quick else CLI_ROTATIONS
    workers = min(16, os.cpu_count() or 4)
    out.rule = ('init cases = corpus (D12 witnesses, edges of every constructor check) + documented lattice points (hash × size, cipher × key size × nonce, '
                'KDF × parameters, chunk bounds, encrypted / unencrypted) + one or two typed-junk edits (junk value for a parameter, any adapter name in any slot, '
                'unknown parameter / key, section of the wrong type, missing password); non-trivial = settings non-empty and (junk edit or accepted); '
                'add-key chains: 2–6 invocations over independent / shared / clone × 13 KDF settings (valid and refused) × right / wrong unlock password, '
                'non-trivial = ≥ 3 keys produced; key files on disk: chains init -o / add-key -o (independent / shared / clone, 12 accepted + 4 refused KDF sections '
                'of different serialised length, 6 repositories) over 1–4 output paths that are absent / hold an earlier key of the chain (shorter, longer, equal) / '
                'another repository\'s key / bytes, text, JSON or white space of a length relative to the key about to be written (−40 … +300, equal) — '
                'every file read back from disk by a fresh repository, non-trivial = ≥ 2 key files written; plus in-place key rotations through the CLI in '
                'separate interpreters; distinct = hash of the case; command line: argument lists = corpus (conflicts in both orders, flag after flag, value '
                'without flag, trailing flag, repeated flag, single / triple dash, `{}` / `[]` values) + canonical renderings of lattice points (as is, shuffled, respelled as the README spells values, '
                'with `-` for `_` and extra dashes, with a repeated flag, with a dotted-prefix conflict, with left-over arguments) + token soup (29 flags × 55 '
                'values) + literal-looking values on lattice keys — all through the real parse_cli_settings + flat_to_nested, a subset through the real main() in a '
                'child interpreter per case (init / add-key / benchmark / list-snapshots) and a subset of lattice points through `python -m replicat init` against '
                'init(settings=dict); dicts with dotted keys in random insertion order through flat_to_nested (children order compared); guess_type on every text '
                'of length ≤ 2 over a 24-character alphabet + random longer ones + a corpus of literals')
    out.assumptions = [
        'ideal cryptography in the key-chain theorems: KDF injective in (parameters, salt, password), AEAD opens only with the sealing key; os.urandom fresh',
        '`usable` encodes third-party preconditions (hashlib.blake2b digest 1…64, AES key 128/192/256 bits, AES-GCM nonce 8…128 bytes, scrypt n = 2^k > 1, '
        'n < 2^(16 r), r, p ≥ 1, chunk lengths integers with 1 ≤ min ≤ max); validated against the libraries only by the round trips of this run',
        'resource limits of scrypt (memory / time for large n·r·p) are outside the model; the tie samples n ≤ 65536, r, p ≤ 16',
        'settings values range over int, bool, float (finite or NaN), str, None, mapping; lists / bytes / sets are outside the typed universe',
        'the dict backend stands for every backend: init and add-key only call backend.upload / download',
        'key files: the output path is a regular file or absent, in a writable directory of a POSIX file system; symlinks, read-only files, '
        'directories at the path and concurrent writers are outside the model; `deserialize ∘ serialize = id` on keys (hypothesis `hparse`) is validated on every written key',
        'command line: the model starts at the arguments the second `parse_known_args` leaves unknown (argparse itself — abbreviations, `--`, known options — is '
        'outside; the run records whether argparse passed the generated arguments through unchanged); `guess_type` is modelled on texts of ≤ 256 printable ASCII '
        'characters that are empty, none / true / false in any case, a signed decimal or hexadecimal integer literal, a quoted string without that quote and '
        'without backslash, or a word [A-Za-z_][A-Za-z0-9_.-]*; on every other text the model answers `unmodelled` and only the structure is compared; values '
        'that are containers (`{}` merges with dotted keys instead of conflicting) and undecodable argv bytes (lone surrogates) are outside the model',
    ]
    r = rng_for(out.seed, 'C17-init')
    cases = gen_cases(r, n_init)
    chains = [gen_chain(rng_for(out.seed, 'C17-chain', i)) for i in range(n_chain)]
    akcases = addkey_settings_cases(rng_for(out.seed, 'C17-addkey'), n_addkey)
    from ..impl import c17_keyfile as KF
    kfchains = [KF.gen_keyfile_chain(rng_for(out.seed, 'C17-keyfile', i)) for i in range(n_keyfile)]
    cli_plan = cli_stream_plan(out, drv)
    scratch_root = WORK / str(os.getpid())
    scratch_root.mkdir(parents=True, exist_ok=True)
    try:
        ctx = mp.get_context('fork')
        with ctx.Pool(workers, initializer=_worker_init) as pool:
            impl = pool.map(impl_case, cases, chunksize=4)
            impl_chains = pool.map(impl_chain, chains, chunksize=2)
            impl_ak = pool.map(impl_addkey_case, akcases, chunksize=4)
            cli_async = pool.map_async(impl_cli_rotation, cli_rot, chunksize=1)
            cli_main_async = pool.map_async(impl_cli_main, cli_plan['main'], chunksize=1)
            cli_oracle_async = pool.map_async(impl_cli_oracle, cli_plan['oracle'], chunksize=1)
            impl_kf = pool.map(impl_keyfile, kfchains, chunksize=3)
            impl_cli = cli_async.get()
            cli_plan['main_results'] = cli_main_async.get()
            cli_plan['oracle_results'] = cli_oracle_async.get()
    finally:
        shutil.rmtree(scratch_root, ignore_errors=True)
    model = None
    if drv is not None:
        model = drv.ask_many([{'op': 'settings.decide', 'settings': enc_settings(c['settings']), 'password': c['password']} for c in cases])
        tbl = drv.ask({'op': 'settings.table'})
        out.extra['model_table'] = tbl
    for i, (c, im) in enumerate(zip(cases, impl)):
        check_case(out, c, im, model[i] if model is not None else None)
    out.extra['impl_seconds_init_cases'] = round(sum(x['t'] for x in impl), 1)
    for sc, im in zip(chains, impl_chains):
        check_chain(out, sc, im, drv)
    # ---- key files on disk, as a later process sees them
    kf_valid = KF.valid_kdf_ids(drv) if drv is not None else None
    for sc, im in zip(kfchains, impl_kf):
        KF.check_keyfile_chain(out, sc, im, drv, kf_valid)
    for sc, res in zip(cli_rot, impl_cli):
        out.case({'cli_rotation': sc, 'ok': res['ok'], 'stages': res['stages']}, True)
        out.count('keyfile-cli:' + ('ok' if res['ok'] else 'failed@' + str(res['failed'][0]['stage'])))
        if not res['ok']:
            f = res['failed'][0]
            if f['stage'] in ('use-init-key', 'use-new-key'):
                out.violation('settings:keyfile:cli:' + f['stage'],
                              f'CLI, separate interpreters: init -o K (scrypt n={sc["n_init"]}' + (f', K held {sc["pre_bytes"]} bytes' if sc.get('pre_bytes') else '')
                              + f') → add-key {"" if sc.get("independent") else "--shared "}-o K (n={sc["n_new"]}); then `list-snapshots -K K` with the password of the '
                              f'key just written fails at {f["stage"]}: …{f["output"][-160:]!r}',
                              {'kind': 'cli-rotation', 'scenario': sc, 'observed': f})
            else:
                out.disagreement(f'CLI rotation: {f["stage"]} failed (rc {f["rc"]}): {f["output"][-200:]!r}', {'kind': 'cli-rotation', 'scenario': sc, 'observed': f})
        else:
            out.traces_validated += 1
    # ---- add-key settings acceptance
    for c, im in zip(akcases, impl_ak):
        cid = {'repo': repr(c['repo_settings']), 'settings': repr(c['settings']), 'password': c['password'], 'shared': c['shared'], 'unlocked': c['unlocked']}
        replay = {'kind': 'addkey', 'case': c}
        out.case(dict(cid, accepted=im.get('ok')), bool(c['settings']))
        if not im['init_ok']:
            out.disagreement('add-key case: init failed', replay)
            continue
        out.count('addkey-settings:' + ('accepted' if im['ok'] else 'rejected:' + str(im['error'])))
        if im['mutations']:
            out.violation('settings:addkey-touched-backend', f'add-key mutated the backend: {im["mutations"]}', dict(replay, observed=im['mutations']))
        if im['ok'] and im['unlocks'] != [True, False]:
            out.violation('settings:addkey-key-unusable', f'add-key accepted {c["settings"]!r} but the new key unlocks (own, other) = {im["unlocks"]}',
                          dict(replay, observed=im['unlocks'], expected=[True, False]))
        if drv is None:
            continue
        encrypted_repo = not (isinstance(c['repo_settings'], dict) and c['repo_settings'].get('encryption', {}) is None)
        m = drv.ask({'op': 'settings.addkey', 'repo_settings': enc_settings(c['repo_settings']), 'settings': enc_settings(c['settings']),
                     'password': c['password'], 'shared': c['shared'], 'unlocked': c['unlocked'] and encrypted_repo})
        if m.get('accept') != im['ok']:
            out.disagreement(f'add-key accepted? differs: model {m.get("accept")} ({m.get("error")}), implementation {im["ok"]} ({im["error_repr"]})', dict(replay, model=m, impl=im))
        elif im['ok'] and m['kdf'] != im['kdf']:
            out.disagreement("add-key: new key's kdf section differs", dict(replay, model=m['kdf'], impl=im['kdf']))
        else:
            out.traces_validated += 1
    # ---- "every key unlocks with its own password and with no other", for passwords longer than any primitive's key / block size
    # that share a long prefix (direct oracle, shared with C06): init keys and add-key keys of every KDF
    from .c06 import long_password_probe
    from ..impl import access as _A
    lp_args = [(out.seed, i, kdf, plen) for i, (kdf, plen) in enumerate((k, n) for k in _A.KDFS for n in (64, 65, 128))]
    for a_, res in zip(lp_args, _A.run_tasks(long_password_probe, lp_args, 60)):
        out.case({'long_password': [a_[2]['name'], a_[3]], 'created': res.get('created'), 'refused': res.get('refused')}, bool(res.get('created')))
        out.count('longpw:' + ('created' if res.get('created') else 'refused:%s' % res.get('refused')))
        for sig, what in res.get('violations', []):
            out.violation('settings:' + sig, what, {'kind': 'longpw', 'seed': out.seed, 'idx': a_[1], 'kdf': a_[2], 'prefix_len': a_[3]})
    cli_stream_check(out, drv, cli_plan)
    out.extra['direct_oracle_findings_by_sig'] = _sig_histogram(out)


def _sig_histogram(out):
    h = {}
    for v in out.violations:
        h[v['sig']] = h.get(v['sig'], 0) + 1
    return h


def replay(path, drv):
    d = json.load(open(path))
    rp = d.get('replay', d)
    use_rebuilt_chunker()
    global _scratch
    _scratch = WORK / str(os.getpid()) / 'replay'
    _scratch.mkdir(parents=True, exist_ok=True)
    try:
        if rp.get('kind') == 'init':
            settings = eval(rp['settings_repr'], {'nan': float('nan'), 'inf': float('inf')})  # noqa: S307 — our own repr of a settings dict
            im = impl_case({'settings': settings, 'password': rp['password_given']})
            print('init:', 'accepted' if im['accepted'] else 'rejected ' + str(im['error_repr']), '| backend objects:', im['objects'])
            print('round trip:', im['roundtrip'])
            bad = (not im['accepted'] and im['objects']) or (im['accepted'] and not im['roundtrip']['ok'])
            return 1 if bad else 0
        if rp.get('kind') == 'addkey-chain':
            im = impl_chain(rp['scenario'])
            print(json.dumps(im, indent=1, default=str))
            return 0
        if rp.get('kind') == 'keyfile-chain':
            from ..common import Outcome
            from ..impl import c17_keyfile as KF
            im = KF.impl_keyfile_chain(rp['scenario'], _scratch)
            o = Outcome('C17', 'replay', 0)
            KF.check_keyfile_chain(o, rp['scenario'], im, drv, KF.valid_kdf_ids(drv) if drv is not None else None)
            for st in im.get('steps', []):
                print({k: (v if not isinstance(v, str) or len(v) < 90 else v[:40] + '…' + str(len(v) // 2) + ' bytes') for k, v in st.items()})
            for v in o.violations:
                print('FAILS:', v['sig'], '—', v['what'])
            for d_ in o.disagreements:
                print('model ≠ implementation:', d_['what'])
            return 1 if o.violations else 0
        if rp.get('kind') == 'cli-rotation':
            res = impl_cli_rotation(rp['scenario'])
            print(json.dumps(res, indent=1))
            return 0 if res['ok'] else 1
        if str(rp.get('kind', '')).startswith('cli-'):
            from ..impl import c17_cli as CL
            return CL.replay_case(rp, drv, _scratch, REPO)
        print('replay kind not supported:', rp.get('kind'))
        return 2
    finally:
        shutil.rmtree(WORK / str(os.getpid()), ignore_errors=True)


# ------------------------------------------------------------------ settings written on the command line (`harness/impl/c17_cli.py`)
def _so_path():
    return os.environ.get('REPLICAT_VERIF_GCL_SO') or WORK / 'native' / 'libgcl.so'


def impl_cli_main(case):
    from ..common import PYMOD
    from ..impl import c17_cli as CL
    return CL.run_main_child(case, _scratch, REPO, PYMOD, _so_path())


def impl_cli_oracle(case):
    from ..common import PYMOD
    from ..impl import c17_cli as CL
    return CL.run_oracle(case, _scratch, REPO, PYMOD, _so_path())


def cli_stream_plan(out, drv):
    """generate the cases of the command-line stream (the canonical renderings come from the MODEL, so that what runs through
    the real code is literally the `renderSettings` of `cli_settings_equals_direct`)"""
    from ..impl import c17_cli as CL
    quick = out.tier == 'quick'
    r = rng_for(out.seed, 'C17-cli')
    render_log = []

    def render(s):
        py = CL.py_render(s)
        if drv is None:
            return py
        m = drv.ask({'op': 'settings.cli.render', 'settings': enc_settings(s)})
        render_log.append((s, py, m))
        return m['args'] if m.get('expressible') else None
    cases = CL.gen_args_cases(r, 300 if quick else 5000, lattice_point, render)
    for i, c in enumerate(cases):
        c['idx'] = i
    # through the real main(): the corpus and a sample of every kind
    n_main = 80 if quick else 700
    main_cases = []
    for c in cases:
        if len(main_cases) >= n_main:
            break
        if c['origin'] == 'corpus' or r.random() < (0.3 if quick else 0.15):
            action = 'init'
            k = r.random()
            if c['origin'] != 'corpus' and k < 0.15:
                action = 'add-key'
            elif c['origin'] != 'corpus' and k < 0.25:
                action = 'benchmark'
            elif c['origin'] != 'corpus' and k < 0.30:
                action = 'list-snapshots'
            main_cases.append({'idx': c['idx'], 'kind': c['kind'], 'args': c['args'], 'action': action})
    # the direct oracle: lattice points through `python -m replicat init`
    n_or = 14 if quick else 150
    ro = rng_for(out.seed, 'C17-cli-oracle')
    oracle = []
    fixed = [{'encryption': {'kdf': {'n': 16}}, 'chunking': {'min_length': 1000}, 'hashing': {'name': 'blake2b'}},
             {'encryption': None, 'hashing': {'name': 'sha2', 'bits': 256}},
             {'hashing': {'name': 'blake2b', 'length': 1}, 'encryption': {'kdf': {'n': 4}}}]
    tries = 0
    while len(oracle) < n_or and tries < 20 * n_or:
        tries += 1
        s = fixed[len(oracle)] if len(oracle) < len(fixed) else lattice_point(ro)
        args = render(s)
        if args is None:
            continue
        pairs = [args[i:i + 2] for i in range(0, len(args), 2)]
        if len(oracle) >= len(fixed) and ro.random() < 0.5:
            ro.shuffle(pairs)
        if len(oracle) == 1 or (len(oracle) >= len(fixed) and ro.random() < 0.5):
            pairs = CL.respell(ro, pairs)          # the README's spellings: `--encryption none`, `4_194_304`, `key-bits`
        if len(oracle) == 1:
            pairs = [[p[0], 'none' if p[1].lower() == 'none' else p[1]] for p in pairs]
        oracle.append({'idx': len(oracle), 'settings': s, 'args': [a for p in pairs for a in p]})
    flats = [CL.gen_flat_case(rng_for(out.seed, 'C17-cli-flat', i)) for i in range(300 if quick else 6000)]
    texts = CL.guess_texts(rng_for(out.seed, 'C17-cli-guess'), quick)
    return {'cases': cases, 'main': main_cases, 'oracle': oracle, 'flats': flats, 'texts': texts, 'render_log': render_log}


def cli_stream_check(out, drv, plan):
    from ..impl import c17_cli as CL
    # ---- the model's canonical rendering against an independent one
    for s, py, m in plan['render_log']:
        if m.get('expressible') and py != m['args']:
            out.disagreement(f'canonical rendering differs: model {m["args"]}, harness {py}', {'kind': 'cli-render', 'settings_repr': repr(s)})
        elif not m.get('expressible') and py is not None:
            out.count('cli-render:model-not-expressible')
        else:
            out.count('cli-render:' + ('expressible' if m.get('expressible') else 'not-expressible'))
    # ---- in-process: parse_cli_settings + flat_to_nested
    cases = plan['cases']
    models = drv.ask_many([{'op': 'settings.cli.parse', 'args': c['args']} for c in cases]) if drv is not None else [None] * len(cases)
    for c, m in zip(cases, models):
        CL.check_parse_case(out, drv, c, CL.real_parse(c['args']), m)
    # ---- the real main() in child interpreters
    for c, res in zip(plan['main'], plan.get('main_results', [])):
        CL.check_main_case(out, drv, c, res)
    # ---- direct oracle: command line against init(settings=dict)
    for c, res in zip(plan['oracle'], plan.get('oracle_results', [])):
        CL.check_oracle_case(out, c, res)
    # ---- flat_to_nested on dicts with dotted keys, insertion order random
    for flat in plan['flats']:
        CL.check_flat_case(out, drv, flat)
    # ---- guess_type
    CL.check_guess_texts(out, drv, plan['texts'])
    if drv is not None:
        out.extra['model_table_cli'] = drv.ask({'op': 'settings.cli.table'})
