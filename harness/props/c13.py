"""C13 — all backends behave as the same simple object store.

Tie (correspondence): the REAL adapters `replicat.backends.local.Local`, `s3c.S3Compatible` / `s3.S3`, `b2.B2` are driven through
random histories of upload / upload_stream / delete / exists / download / download_stream / list_files — the local one on a
scratch directory under every spelling of the repository location, the S3 and B2 ones against the in-process fake services of
`harness/impl/fake_s3.py` / `fake_b2.py` (httpx.MockTransport; page sizes 1, 2, 1000; SigV4 verified; B2 token expiry) — and the
compiled Lean models (`store.history` for `spec`, `s3`, `b2`, `local`) run the same history.  Compared, per operation: the
return value (canonical form), per listing the number of list requests the service saw, and at the end the state of the
service / directory tree (files AND directories, B2 version-stack depths).  Also: the two listing loops on hand-made page
sequences (`store.s3loop`, `store.b2loop`; conformant and non-conformant, any element order), and the pathlib / os.path model
(`store.pathlib`).

Time: every history runs on ONE long-lived adapter object per backend under a generated *clock schedule* (`gen_clock`): the wall
clock the adapter reads (`datetime` / `time` names of the backend modules, patched) moves between the calls and, optionally, at
every reading — within one UTC day, across midnight / month end / leap day / year end at a chosen operation, inside one call
(a multi-page listing), over hours and days, with a client clock that is a bit off and jitters (steps back) — while the fake
services keep their own clock: S3 verifies `x-amz-date` against it (15-minute window) next to the full SigV4 check, B2 ages
tokens (24 h).  The Lean S3 model runs the same history *with the clock readings* (`S3.runT`, `s3_timed_history_refines`).

Location: every history also draws HOW THE REPOSITORY LOCATION IS SPELLED, per adapter (`harness/impl/c13_location.py`) — B2: a generated account
(bucket name / 24-hex id, further buckets reported before / after ours, master key or key restricted to the bucket) and the connection string
spelled by bucket NAME or by bucket ID (`-r b2:bucket-name`, `-r b2:bucket-id`; the fake service takes the name only in `/file/<bucket>/…` URLs and
the id only in API calls, like the real one); S3: generated bucket names, regions, and every shape of an S3-compatible endpoint (host, host:port,
IP literals, sub-domains; http / https given or defaulted; the fake serves one scheme); local: the spellings of `localfs.SPELLINGS`.  A third of the
histories is run under a second spelling of the same location as well, `location_sweep` runs one every-kind-of-call history under each spelling
class (seed-independent), and the Lean B2 model runs at the location (`B2.stepAt`, `b2_location_spelling`; slot fillers and match fields are
regenerated from b2.py by `tools/sections/13_b2loc.py`).  `location_probes` records what happens outside the documented spellings.

Object-level commands (`objcmd_stream`, `harness/impl/objcmd.py`): `upload_objects` / `download_objects` / `list_objects` / `delete_objects` of a
real `Repository` (memory backend, real local backend) run in worker processes from a scratch working directory on generated scenarios, against the
compiled model `store.cmd.run` (`ObjCmd.lean`); oracle = the statements of the object-command theorems on the real results.

Overlapping calls (`overlap_stream`, `overlap_sweep`, `harness/impl/c13_overlap.py`): the Repository runs the synchronous local backend on a thread pool, so ONE
`Local` object has several calls in flight at the same time.  Two to four uploads (`upload_stream` with gated input streams, `upload`) — to the SAME name, to
different names of one directory whose base names agree on the first `Gen.localTempStemLen` characters (the backend shortens the temporary's name), to short
siblings, to equal base names in two directories — overlap with each other and with `exists` / `download` / `download_stream` (gated sink) / `list_files` / `delete`
under generated schedules at read granularity (random interleavings, one-after-the-other, and the schedule of the Lean witness `shared_temp_witness`: a writer has
written and not yet renamed when the next one starts).  Oracle: linearisability against the plain map, with the directory read after every release as a further
observer; tie: the same schedule step by step on `LocalConc.run` (`lconc.run`) with the temporaries the calls were seen to use, and the naming rule (`lconc.tempname`).

Direct oracle: the property's own statement — every return value of every real adapter equals what a plain Python dict gives.
Main histories stay inside the region the theorems cover (see `*_ok` below, mirrored from the hypotheses in
Properties/C13.lean); *frontier probes* exercise each excluded input class on the real code and report what they find with a
stable `sig` (these are the forced hypotheses of the `_partial` theorems).
"""
import asyncio
import contextlib
import datetime as _dt
import importlib
import io
import json
import os
import re
import shutil
import sys
import time
import types

from ..common import LEAN, WORK, REPO, rng_for
from ..impl import c13_location as locs
from ..impl import c13_overlap as ov
from ..impl import fake_b2, fake_s3, localfs

# ------------------------------------------------------------------------------------------------ names
ASCII = ''.join(chr(c) for c in range(0x20, 0x7F) if chr(c) != '/')
NONASCII = 'éüßλж中文😀ñ '
TRICKY = ['...', '.a', 'a.', '..b', 'a b', ' a', 'a ', "q'u", 'd"q', 'amp&', 'l<g>', 'b\\s', 'q?x', 'h#x', 'p%41', 'p%', 'pl+us', '~t', 's*', 'e=q', 'c:l', 's;m',
          'a@t', 'tmp', 'x.tmp2', '.tmpx', 'é', '中文', '😀', 'ß', '-d', '$', '{}', '[', '`', '|', '^', ',', '!', 'Key', '&amp;', ']]>', '%2F', 'a%2Fb']


def segs(n):
    return n.split('/')


def valid_name(n):
    """segments non-empty, none is '.' or '..' (Lean: `ValidName`)"""
    return n != '' and all(s not in ('', '.', '..') for s in segs(n))


def s3_ok(n):
    return valid_name(n)


def b2_ok(n):
    return valid_name(n) and not any(c in '?#%+\\' for c in n)


def local_ok(n):
    return valid_name(n) and not n.endswith('.tmp')


def normal_prefix(p):
    """directory part of the prefix is a normal relative path (Lean: `NormalPrefix`)"""
    ss = segs(p)
    return all(s not in ('', '.', '..') for s in ss[:-1])


def gen_segment(r):
    k = r.random()
    if k < 0.25:
        return r.choice(TRICKY)
    if k < 0.55:
        return ''.join(r.choice('abcdef0123456789') for _ in range(r.randint(1, 4)))
    n = r.randint(1, 6)
    s = ''.join(r.choice(ASCII + NONASCII) if r.random() < 0.6 else r.choice('abx') for _ in range(n))
    return s


def gen_universe(r, alphabet_ok):
    """a name universe in which no name is a directory prefix of another; names share directories and stems"""
    def seg():
        for _ in range(50):
            s = gen_segment(r)
            if s not in ('.', '..') and alphabet_ok(s):
                return s
        return 'z'
    dirs = [[]]
    for _ in range(r.randint(1, 4)):
        base = r.choice(dirs)
        if len(base) < 3:
            dirs.append(base + [seg()])
    stems = [seg() for _ in range(r.randint(1, 3))]
    names = set()
    for _ in range(r.randint(3, 11)):
        d = r.choice(dirs)
        leaf = r.choice(stems) + (seg() if r.random() < 0.6 else '')
        if r.random() < 0.3:
            leaf = seg()
        names.add('/'.join(d + [leaf]))
    # siblings that only share leading characters with a directory name (dir `ab` next to `abc/…`, `ab.idx`): a prefix that names
    # the directory exactly, without a trailing slash, must list them too
    for d in dirs:
        if d and r.random() < 0.5:
            for suffix in r.sample(['c', '.idx', '0', '-old', 'b/' + r.choice(stems)], r.randint(1, 2)):
                cand = '/'.join(d[:-1] + [d[-1] + suffix])
                if alphabet_ok(cand.replace('/', '')):
                    names.add(cand if r.random() < 0.5 or '/' in suffix else cand + '/' + r.choice(stems))
    names = sorted(names)
    # prefix-free: drop every name that is a proper directory prefix of another, or equals a directory in use
    out = [n for n in names if not any(m != n and m.startswith(n + '/') for m in names)]
    return out


def gen_prefixes(r, universe):
    ps = ['']
    for n in universe:
        k = r.randint(0, len(n))
        ps.append(n[:k])
        i = n.rfind('/')
        if i >= 0:
            ps.append(n[:i + 1])
            ps.append(n[:i])
        ps.append(n)
        ps.append(n + 'x')
    ps.append('nosuchdir/')
    ps.append('nosuch')
    return [p for p in ps if normal_prefix(p)]


def gen_payload(r, chunk):
    n = r.choice([0, 1, chunk - 1, chunk, chunk + 1, 2 * chunk, 2 * chunk + 1, 3 * chunk - 1, r.randint(0, 3 * chunk)])
    n = max(0, n)
    return r.randbytes(n)


def gen_history(r, universe, prefixes, n_ops, big):
    ops = []
    live = set()
    for i in range(n_ops):
        k = r.random()
        if universe and i < min(5, n_ops // 3) and not big:
            k = k * 0.36      # histories start with uploads so that listings have something to page through
        if universe and k < 0.24:
            n = r.choice(universe)
            ops.append({'op': 'upload', 'name': n, 'data': gen_payload(r, r.choice([1, 5, 40])).hex()})
            live.add(n)
        elif universe and k < 0.36:
            n = r.choice(universe)
            c = r.choice([1, 7, 1000]) if not big else 128000
            ops.append({'op': 'upload_stream', 'name': n, 'data': gen_payload(r, c).hex(), 'chunk': c})
            live.add(n)
        elif universe and k < 0.48:
            n = r.choice(sorted(live)) if live and r.random() < 0.7 else r.choice(universe)
            ops.append({'op': 'delete', 'name': n})
            live.discard(n)
        elif universe and k < 0.60:
            ops.append({'op': 'exists', 'name': r.choice(universe)})
        elif universe and k < 0.70:
            n = r.choice(sorted(live)) if live and r.random() < 0.8 else r.choice(universe)
            ops.append({'op': 'download', 'name': n})
        elif universe and k < 0.78:
            n = r.choice(sorted(live)) if live and r.random() < 0.8 else r.choice(universe)
            c = r.choice([1, 7, 1000]) if not big else 128000
            sink = r.choice([b'', b'junk', r.randbytes(r.randint(0, 3 * min(c, 3000)))])
            ops.append({'op': 'download_stream', 'name': n, 'chunk': c, 'sink': sink.hex()})
        else:
            dirs = [p for p in prefixes if p.endswith('/')] or ['']
            k2 = r.random()
            ops.append({'op': 'list', 'prefix': '' if k2 < 0.3 else r.choice(dirs) if k2 < 0.55 else r.choice(prefixes)})
    return ops


# ------------------------------------------------------------------------------------------------ the wall clock
EPOCH = _dt.datetime(1970, 1, 1)
S3_SKEW = 900                                  # seconds; the service's window for x-amz-date (S3: 15 minutes)
B2_TOKEN_TTL = 86400                           # seconds; lifetime of a B2 authorisation token (24 hours)
LOCAL_OFFSET = _dt.timedelta(hours=9)          # the machine's local zone is not UTC (what a naive `datetime.now()` would show)
CLOCK_MODULES = ('replicat.backends.s3c', 'replicat.backends.s3', 'replicat.backends.b2')


def epoch_s(t):
    return int((t - EPOCH).total_seconds())


class HClock:
    """The clocks of one history.  `t` is true time = what the service's clock shows.  The client's clock shows
    `t + offset + jitter` (offset per history, jitter per operation) and true time moves on by `step` seconds at every reading
    by the client.  `at(op)` moves true time to `start + op['at']` (never backwards) before an operation."""

    def __init__(self, spec):
        self.spec = spec
        self.start = _dt.datetime.fromisoformat(spec['start'])
        self.t = self.start
        self.step = _dt.timedelta(seconds=spec.get('step', 0))
        self.offset = _dt.timedelta(seconds=spec.get('offset', 0))
        self.jit = _dt.timedelta(0)
        self.reads = 0
        self.op_times = []      # (client, server) in epoch seconds at the start of every operation

    def at(self, op):
        self.t = max(self.t, self.start + _dt.timedelta(seconds=op.get('at', 0)))
        self.jit = _dt.timedelta(seconds=op.get('jit', 0))
        self.op_times.append((epoch_s(self.t + self.offset + self.jit), epoch_s(self.t)))

    def client_read(self):
        t = self.t + self.offset + self.jit
        self.t = self.t + self.step
        self.reads += 1
        return t

    def server_now(self):
        return self.t


def _fake_datetime_class(clock):
    class FakeDateTime(_dt.datetime):
        @classmethod
        def utcnow(cls):
            t = clock.client_read()
            return cls(t.year, t.month, t.day, t.hour, t.minute, t.second, t.microsecond)

        @classmethod
        def now(cls, tz=None):
            t = clock.client_read()
            if tz is None:
                t = t + LOCAL_OFFSET
                return cls(t.year, t.month, t.day, t.hour, t.minute, t.second, t.microsecond)
            t = t.replace(tzinfo=_dt.timezone.utc).astimezone(tz)
            return cls(t.year, t.month, t.day, t.hour, t.minute, t.second, t.microsecond, tzinfo=t.tzinfo)

        @classmethod
        def today(cls):
            return cls.now()
    return FakeDateTime


@contextlib.contextmanager
def patched_clock(clock):
    """Every way the backend modules can name the wall clock is redirected to `clock`: the `datetime` class or module, the `time`
    module, or `time` / `time_ns` / `gmtime` / `localtime` / `strftime` imported from it.  (How the source reads the clock is its
    own business — only the reading is controlled.)  Restored on exit."""
    if clock is None:
        yield
        return
    fdt = _fake_datetime_class(clock)
    now_s = lambda: (clock.client_read() - EPOCH).total_seconds()

    def f_time():
        return now_s()

    def f_time_ns():
        return int(now_s() * 1e9)

    def f_gmtime(secs=None):
        return time.gmtime(now_s() if secs is None else secs)

    def f_localtime(secs=None):
        return time.gmtime((now_s() if secs is None else secs) + LOCAL_OFFSET.total_seconds())

    def f_strftime(fmt, tt=None):
        return time.strftime(fmt, f_localtime() if tt is None else tt)
    dt_shim = types.ModuleType('datetime')
    dt_shim.__dict__.update({k: v for k, v in vars(_dt).items() if not k.startswith('__')})
    dt_shim.datetime = fdt
    time_shim = types.ModuleType('time')
    time_shim.__dict__.update({k: v for k, v in vars(time).items() if not k.startswith('__')})
    time_shim.__dict__.update(time=f_time, time_ns=f_time_ns, gmtime=f_gmtime, localtime=f_localtime, strftime=f_strftime)
    by_identity = [(_dt.datetime, fdt), (_dt, dt_shim), (time, time_shim), (time.time, f_time), (time.time_ns, f_time_ns),
                   (time.gmtime, f_gmtime), (time.localtime, f_localtime), (time.strftime, f_strftime)]
    saved = []
    try:
        for name in CLOCK_MODULES:
            try:
                mod = importlib.import_module(name)
            except ImportError:
                continue
            for attr, val in list(vars(mod).items()):
                for orig, repl in by_identity:
                    if val is orig:
                        saved.append((mod, attr, val))
                        setattr(mod, attr, repl)
        yield
    finally:
        for mod, attr, val in saved:
            setattr(mod, attr, val)


BOUNDARIES = {
    'midnight': lambda r: _dt.datetime(r.randint(2000, 2099), r.randint(1, 12), r.randint(2, 28)),
    'month-end': lambda r: _dt.datetime(r.randint(2000, 2099), r.randint(2, 12), 1),
    # 28 Feb → 29 Feb and 29 Feb → 1 Mar in leap years, 28 Feb → 1 Mar otherwise (2100 is not a leap year)
    'leap-day': lambda r: r.choice([_dt.datetime(y, 2, 29) for y in (2000, 2024, 2028, 2096)] + [_dt.datetime(y, 3, 1) for y in (2000, 2024, 2025, 2100)]),
    'year-end': lambda r: _dt.datetime(r.randint(2001, 2100), 1, 1),
}
CLOCK_CLASSES = [('same-day', 18), ('midnight', 26), ('month-end', 6), ('leap-day', 6), ('year-end', 8), ('within-call', 12), ('long-run', 10),
                 ('client-clock-off', 14)]


def gen_clock(r, n_ops):
    """(clock spec, per-operation [(at, jit)]).  `at` = seconds of true time since the start of the history at which the operation
    begins, `jit` = what the client's clock is off by (beyond the history's offset) during that operation.  All whole seconds."""
    cls = r.choices([c for c, _ in CLOCK_CLASSES], [w for _, w in CLOCK_CLASSES])[0]
    step, offset = 0, 0
    jits = [0] * n_ops
    small = lambda: r.choice([0, 0, 0, 1, 1, 2, 7, 20])
    if cls == 'same-day':
        gaps = [small() for _ in range(n_ops)]
        start = _dt.datetime(r.randint(2000, 2099), r.randint(1, 12), r.randint(1, 28), r.randint(0, 22), r.randint(0, 59), r.randint(0, 59))
        if r.random() < 0.3:
            step = 1
    elif cls == 'long-run':
        gaps = [r.choice([0, 1, 600, 3600, 7 * 3600, 13 * 3600, 25 * 3600]) for _ in range(n_ops)]
        start = _dt.datetime(r.randint(2000, 2099), r.randint(1, 12), r.randint(1, 28), r.randint(0, 23), r.randint(0, 59), r.randint(0, 59))
    else:
        kind = cls if cls in BOUNDARIES else r.choice(list(BOUNDARIES))
        b = BOUNDARIES[kind](r)
        gaps = [small() for _ in range(n_ops)]
        if cls == 'within-call':
            # true time moves at every reading of the clock: the date changes between two requests of one call
            step = r.choice([1, 2, 5, 30])
            gaps = [r.choice([0, 0, 1]) for _ in range(n_ops)]
            start = b - _dt.timedelta(seconds=step * r.randint(0, 12) + r.choice([0, 1]))
        else:
            # the date changes right before operation k (k ≥ 1: at least one call is made on the old date)
            k = min(r.randint(1, max(1, n_ops - 1)), n_ops - 1)
            late = r.choice([0, 0, 0, 1])                 # operation k begins at 00:00:00 or 00:00:01
            gaps[k] = max(gaps[k], 1 + late)              # … and operation k - 1 before midnight
            start = b - _dt.timedelta(seconds=sum(gaps[:k + 1]) - late)
            if r.random() < 0.25:
                step = 1
        if cls == 'client-clock-off':
            offset = r.choice([-1, 1]) * r.choice([1, 3, 30, 299, 600])
            jits = [r.randint(-5, 5) for _ in range(n_ops)]
    ats, acc = [], 0
    for g in gaps:
        acc += g
        ats.append(acc)
    return {'class': cls, 'start': start.isoformat(), 'step': step, 'offset': offset}, list(zip(ats, jits))


# ------------------------------------------------------------------------------------------------ the dict model (direct oracle)
def dict_step(m, op):
    o = op['op']
    if o == 'upload' or o == 'upload_stream':
        m[op['name']] = op['data']
        return {'unit': True}
    if o == 'delete':
        m.pop(op['name'], None)
        return {'unit': True}
    if o == 'exists':
        return {'bool': op['name'] in m}
    if o in ('download', 'download_stream'):
        return {'bytes': m[op['name']]} if op['name'] in m else {'error': 'notFound'}
    if o == 'list':
        return {'names': sorted(n for n in m if n.startswith(op['prefix']))}
    raise ValueError(o)


# ------------------------------------------------------------------------------------------------ real adapters
def _patch_sleeps():
    import backoff
    backoff._sync.time.sleep = lambda s: None

    async def _nosleep(s):
        return None
    backoff._async.asyncio.sleep = _nosleep


def _cheap_backoff_log():
    """backoff's default handlers format the exception of every retry with `traceback.format_exception_only` whether or not anything is
    logged; with B2's chained re-authentication errors that is ≈ 8 ms per retry, i.e. more than a second for one call that ends at the
    watchdog.  Give backoff a one-line formatter (its log text is not an observable of this check)."""
    try:
        import backoff._common as bc
        if getattr(bc.traceback, '_c13_cheap', False):
            return
        bc.traceback = types.SimpleNamespace(_c13_cheap=True, format_exception_only=lambda typ, exc=None, *a, **k: ['%s: %s\n' % (getattr(typ, '__name__', typ), exc)])
    except Exception:  # noqa: BLE001
        pass


def _share_default_tls_context():
    """Every adapter object builds an `httpx.AsyncClient`, and with it a TLS context (≈ 35 ms: the CA bundle is parsed) — for a transport that
    is never used here (`install` swaps in the fake service's MockTransport).  Build the default context once and hand it out again; anything
    but the default arguments goes to httpx as before.  Purely a cost matter: hundreds of adapter objects per run."""
    try:
        import httpx._transports.default as d
        orig = d.create_ssl_context
        if getattr(orig, '_c13_shared', False):
            return
        cache = {}

        def shared(verify=True, cert=None, trust_env=True):
            if verify is True and cert is None and trust_env is True:
                if 'ctx' not in cache:
                    cache['ctx'] = orig(verify=verify, cert=cert, trust_env=trust_env)
                return cache['ctx']
            return orig(verify=verify, cert=cert, trust_env=trust_env)
        shared._c13_shared = True
        d.create_ssl_context = shared
    except Exception:  # noqa: BLE001 — another httpx layout: keep its behaviour
        pass


class Watchdog(BaseException):
    pass


def classify(e):
    import httpx
    if isinstance(e, Watchdog):
        return 'watchdog'
    if isinstance(e, FileNotFoundError):
        return 'notFound'
    if isinstance(e, OSError):
        return 'osError'
    if isinstance(e, httpx.HTTPStatusError):
        c = e.response.status_code
        return 'notFound' if c == 404 else 'forbidden' if c == 403 else 'http:%d' % c
    return 'other:' + type(e).__name__


_loop = None


def loop():
    global _loop
    if _loop is None:
        _loop = asyncio.new_event_loop()
    return _loop


def run_local(backend, ops):
    rets = []
    for op in ops:
        o = op['op']
        try:
            if o == 'upload':
                backend.upload(op['name'], bytes.fromhex(op['data']))
                rets.append({'unit': True})
            elif o == 'upload_stream':
                d = bytes.fromhex(op['data'])
                backend.upload_stream(op['name'], io.BytesIO(d), len(d), chunk_size=op['chunk'])
                rets.append({'unit': True})
            elif o == 'delete':
                backend.delete(op['name'])
                rets.append({'unit': True})
            elif o == 'exists':
                rets.append({'bool': bool(backend.exists(op['name']))})
            elif o == 'download':
                rets.append({'bytes': bytes(backend.download(op['name'])).hex()})
            elif o == 'download_stream':
                s = io.BytesIO(bytes.fromhex(op['sink']))
                backend.download_stream(op['name'], s, chunk_size=op['chunk'])
                rets.append({'bytes': s.getvalue().hex()})
            elif o == 'list':
                rets.append({'names': sorted(backend.list_files(op['prefix'])), 'requests': 0})
        except Exception as e:  # noqa: BLE001
            rets.append({'error': classify(e)})
    return rets


async def _one_async(backend, op, count_list_requests):
    o = op['op']
    if o == 'upload':
        await backend.upload(op['name'], bytes.fromhex(op['data']))
        return {'unit': True}
    if o == 'upload_stream':
        d = bytes.fromhex(op['data'])
        await backend.upload_stream(op['name'], io.BytesIO(d), len(d), chunk_size=op['chunk'])
        return {'unit': True}
    if o == 'delete':
        await backend.delete(op['name'])
        return {'unit': True}
    if o == 'exists':
        return {'bool': bool(await backend.exists(op['name']))}
    if o == 'download':
        return {'bytes': bytes(await backend.download(op['name'])).hex()}
    if o == 'download_stream':
        s = io.BytesIO(bytes.fromhex(op['sink']))
        await backend.download_stream(op['name'], s, chunk_size=op['chunk'])
        return {'bytes': s.getvalue().hex()}
    if o == 'list':
        n0 = count_list_requests()
        names = [x async for x in backend.list_files(op['prefix'])]
        return {'names': sorted(names), 'requests': count_list_requests() - n0}
    raise ValueError(o)


async def run_async(backend, ops, count_list_requests, new_op=lambda op: None, stop_at_deviation=False):
    """`stop_at_deviation`: the history ends with the first operation whose return value is not the map's (the states have parted, what
    follows says nothing more — and on B2 every further failing call costs a full round of retries)"""
    rets = []
    m = {}
    for op in ops:
        new_op(op)
        try:
            rets.append(await asyncio.wait_for(_one_async(backend, op, count_list_requests), timeout=60))
        except asyncio.TimeoutError:
            rets.append({'error': 'hang'})
        except (Exception, Watchdog, RecursionError) as e:  # noqa: BLE001
            rets.append({'error': classify(e)})
        if stop_at_deviation and strip_req(rets[-1]) != dict_step(m, op):
            break
    try:
        await backend.close()
    except Exception:  # noqa: BLE001
        pass
    return rets


def make_watchdog(limit=60):
    """fault hook: more than `limit` requests to the fake within ONE adapter call = a loop that does not terminate (a listing
    over ≤ 12 pages with re-authentications stays far below).  Returns (fault, reset); reset is called before every call."""
    n = [0]

    def fault(request):
        n[0] += 1
        if n[0] > limit:
            return Watchdog('more than %d requests in one call' % limit)
        return None

    def reset(op=None):
        n[0] = 0
    return fault, reset


S3_ARGS = dict(key_id='AKIDEXAMPLE', access_key='wJalrXUtnFEMI/K7MDENG+bPxRfiCYEXAMPLEKEY', region='eu-west-1')


def real_s3(ops, ps, variant='s3c', clock=None, location=None):
    """one adapter object for the whole history.  `clock` = clock spec (see `gen_clock`; the operations then carry `at` / `jit`) or None
    = the machine's clock and a service that does not look at the time.  `location` = how the repository is spelled (bucket name, endpoint
    host, scheme, region: `c13_location.gen_s3_location`; it names the variant too) or None = the fixed location of the earlier runs."""
    from replicat.backends.s3c import S3Compatible
    from replicat.backends.s3 import S3
    hc = HClock(clock) if clock is not None else None
    if location is not None:
        variant = location
    with patched_clock(hc):
        rets, info = _real_s3(S3, S3Compatible, ops, ps, variant, hc)
    if hc is not None and hc.reads == 0 and info['requests'] + info['rejected'] > 0:
        # requests were sent but the controlled clock was never read: the adapter gets the time in a way `patched_clock` does not
        # cover.  Not a finding — run the history on the machine's clock (as before clocks were generated) and say so.
        rets, info = _real_s3(S3, S3Compatible, ops, ps, variant, None)
        info['clock_not_intercepted'] = True
    return rets, info


def _real_s3(S3, S3Compatible, ops, ps, variant, hc):
    """`variant` = 's3' / 's3c' (the fixed location) or a location dict"""
    loc = variant if isinstance(variant, dict) else dict(locs.DEFAULT_S3, variant=variant, host='s3.eu-west-1.amazonaws.com' if variant == 's3' else locs.DEFAULT_S3['host'])
    args = dict(S3_ARGS, region=loc['region'])
    host = loc['host']
    if loc['variant'] == 's3':
        b = S3(loc['bucket'], **args)
    elif loc['scheme'] == 'https' and not loc.get('explicit_scheme'):
        b = S3Compatible(loc['bucket'], host=host, **args)                          # the default scheme, not given
    else:
        b = S3Compatible(loc['bucket'], host=host, scheme=loc['scheme'], **args)
    fault, reset = make_watchdog()
    f = fake_s3.FakeS3(loc['bucket'], args['key_id'], args['access_key'], args['region'], loc.get('service_host', host), page_size=ps, fault=fault,
                       clock=hc.server_now if hc is not None else None, max_skew=S3_SKEW, scheme=loc['scheme'])
    fake_s3.install(b, f)
    marks = []       # number of accepted requests before every operation

    def new_op(op):
        reset()
        marks.append(len(f.scope_dates))
        if hc is not None:
            hc.at(op)
    rets = loop().run_until_complete(run_async(b, ops, lambda: sum(1 for e in f.log if e['op'] == 'list'), new_op))
    per_op = [f.scope_dates[a:z] for a, z in zip(marks, marks[1:] + [len(f.scope_dates)])]
    days = [d for i, d in enumerate(f.scope_dates) if i == 0 or d != f.scope_dates[i - 1]]
    return rets, {'state': sorted([k, v.hex()] for k, v in f.objects.items()), 'sig_failures': f.sig_failures, 'requests': len(f.log),
                  'rejected': len(f.sig_failures) + len(f.time_failures), 'time_failures': f.time_failures,
                  'date_changes': max(0, len(days) - 1), 'calls_spanning_a_date_change': sum(1 for x in per_op if len(set(x)) > 1),
                  'requests_after_first_date_change': len(f.scope_dates) - f.scope_dates.count(f.scope_dates[0]) if f.scope_dates else 0,
                  'times': list(hc.op_times) if hc is not None else None, 'clock_reads': hc.reads if hc is not None else 0,
                  'clock_not_intercepted': False}


def real_b2(ops, ps, token_uses=None, restricted=False, clock=None, location=None, stop_at_deviation=False):
    """one adapter object for the whole history; with a clock spec the service ages its tokens (24 h) on the history's true time.
    `location` = the account and how the repository is spelled (`c13_location.gen_b2_location`: bucket name / id, by name or by id, other
    buckets before / after ours, kind of key) or None = bucket `bkt` spelled by name (the earlier runs)."""
    from replicat.backends.b2 import B2
    hc = HClock(clock) if clock is not None else None
    loc = location if location is not None else dict(locs.DEFAULT_B2, restricted=restricted)
    with patched_clock(hc):
        b = B2(locs.b2_ident(loc), key_id='0012ab34cd56ef', application_key='K001secretsecretsecret')
        fault, reset = make_watchdog()
        f = fake_b2.FakeB2(loc['bucket_name'], '0012ab34cd56ef', 'K001secretsecretsecret', bucket_id=loc['bucket_id'], page_size=ps, token_uses=token_uses,
                           restricted=loc['restricted'], other_buckets=[tuple(x) for x in loc['before']], buckets_after=[tuple(x) for x in loc['after']],
                           fault=fault, clock=hc.server_now if hc is not None else None, token_ttl=B2_TOKEN_TTL)
        fake_b2.install(b, f)

        def new_op(op):
            reset()
            if hc is not None:
                hc.at(op)
        rets = loop().run_until_complete(run_async(b, ops, lambda: sum(1 for e in f.log if e['api'] == 'b2_list_file_names'), new_op,
                                                   stop_at_deviation=stop_at_deviation))
    addressed = {}       # how the requests named the bucket, as the service saw it
    for e in f.log:
        for key, kind in (('bucket', 'download-url'), ('bucket_id', 'api-call')):
            if key in e:
                how = 'bucket-name' if e[key] == loc['bucket_name'] else 'bucket-id' if e[key] == loc['bucket_id'] else 'something-else'
                addressed[kind + ':by-' + how] = addressed.get(kind + ':by-' + how, 0) + 1
    return rets, {'state': sorted([k, v.hex()] for k, v in f.live().items()), 'aged_out': f.n_aged_out, 'addressed': addressed,
                  'stopped_at_deviation': len(rets) < len(ops),
                  'bucket_lookups': sum(1 for e in f.log if e['api'] == 'b2_list_buckets'),
                  'versions': sorted([k, len(v)] for k, v in f.versions.items()), 'requests': len(f.log), 'tokens': f.n_tokens}


def real_local(ops, spelling, scratch):
    from replicat.backends.local import Local
    case = localfs.LocalCase(scratch)
    try:
        s = case.enter(spelling)
        try:
            rets = run_local(Local(s), ops)
        finally:
            case.leave()
        files, dirs = case.tree()
        return rets, {'state': sorted([k, v.hex()] for k, v in files.items()), 'dirs': dirs, 'root': s}
    finally:
        case.remove()


def gen_flag(name, default):
    """a Bool / String constant of the regenerated Generated.lean (what the current source says)"""
    try:
        t = (LEAN / 'ReplicatModel' / 'Generated.lean').read_text()
    except OSError:
        return default
    m = re.search(r'def %s : (?:Bool|String) := (true|false|"[^"]*")' % re.escape(name), t)
    if not m:
        return default
    v = m.group(1)
    return v == 'true' if v in ('true', 'false') else v.strip('"')


def gen_nat(name, default):
    """a Nat constant of the regenerated Generated.lean"""
    try:
        t = (LEAN / 'ReplicatModel' / 'Generated.lean').read_text()
    except OSError:
        return default
    m = re.search(r'def %s : Nat := (\d+)' % re.escape(name), t)
    return int(m.group(1)) if m else default


def root_made_absolute():
    """does Local.__init__ make the repository path absolute (a possible fix of D6)?  Then `self.path` is cwd/<spelling>."""
    return gen_flag('localRootMadeAbsolute', False)


def model_root(spelling):
    """the connection string the model sees: same spelling, with a fixed stand-in for the scratch directory"""
    cwd, s = localfs.table('/w/case')[spelling]
    if root_made_absolute() and not s.startswith('/'):
        return cwd + '/' + s
    return s


# ------------------------------------------------------------------------------------------------ comparison helpers
def strip_req(r):
    return {k: v for k, v in r.items() if k != 'requests'}


def short(x, n=300):
    s = json.dumps(x, ensure_ascii=False)
    return s if len(s) <= n else s[:n] + '…'


def first_diff(a, b):
    for i, (x, y) in enumerate(zip(a, b)):
        if x != y:
            return i
    return None if len(a) == len(b) else min(len(a), len(b))


class Ctx:
    def __init__(self, out, drv):
        self.out, self.drv = out, drv
        self.scratch = WORK / str(os.getpid()) / 'c13'
        self.n = 0
        self.shrunk = set()

    def newdir(self):
        self.n += 1
        return self.scratch / ('case%05d' % self.n)


def ask_history(drv, adapter, ops, **kw):
    if drv is None:
        return None
    req = {'op': 'store.history', 'adapter': adapter, 'ops': ops}
    req.update(kw)
    return drv.ask(req)


def describe_time(ops, i, info, clock):
    """what the clocks showed at operation #i (for the text of a finding)"""
    if clock is None or not info.get('times') or i is None or i >= len(info['times']):
        return ''
    iso = lambda s: (EPOCH + _dt.timedelta(seconds=s)).strftime('%Y-%m-%d %H:%M:%S')
    c0 = info['times'][0][0]
    c, s = info['times'][i]
    why = (info.get('sig_failures') or info.get('time_failures') or [{}])[0].get('why', '').split('\n')[0].split(';')[0]
    return (f' [one adapter object; clock schedule {clock["class"]!r}: its first call was made at {iso(c0)} UTC, this one at {iso(c)} UTC by the '
            f"adapter's clock ({iso(s)} by the service's)" + (f'; the service said: {why}' if why else '') + ']')


def shrink_history(ops, rerun, budget=80):
    """greedy delta debugging on the operation list (the operations keep their `at`, so the clock schedule is preserved): drop every
    operation without which some return value still differs from the map.  Returns (ops, failing index, expected, observed)."""
    def failing(cand):
        rets, _ = rerun(cand)
        m = {}
        exp = [dict_step(m, o) for o in cand]
        got = [strip_req(x) for x in rets]
        i = first_diff(exp, got)
        return None if i is None or i >= len(cand) else (i, exp[i], got[i])
    best, res = list(ops), None
    # what comes after the first deviating operation cannot matter: cut there first (one run instead of one per dropped operation)
    f = failing(best)
    budget -= 1
    if f is not None and f[0] + 1 < len(best):
        cut = best[:f[0] + 1]
        f2 = failing(cut)
        budget -= 1
        if f2 is not None:
            best, res = cut, f2
    changed = True
    while changed and budget > 0:
        changed = False
        for k in range(len(best) - 1, -1, -1):
            if budget <= 0 or len(best) <= 1:
                break
            cand = best[:k] + best[k + 1:]
            budget -= 1
            f = failing(cand)
            if f is not None:
                best, res, changed = cand, f, True
    return (best,) + res if res is not None else None


def check_adapter(ctx, label, adapter, ops, real_rets, real_info, model, replay, compare_requests=True, note=lambda i: '', rerun=None, shrink_budget=80):
    """oracle (real vs dict) and tie (real vs Lean adapter model) for one adapter on its sub-history; `rerun(ops) -> (rets, info)` lets a
    failing history be minimised (once per signature)"""
    out = ctx.out
    # ---- direct oracle
    m = {}
    exp = [dict_step(m, op) for op in ops]
    got = [strip_req(r) for r in real_rets]
    i = first_diff(exp, got)
    ok = True
    if i is not None:
        ok = False
        sig = f'{adapter}:{ops[i]["op"]}:differs-from-map'
        extra = {}
        if rerun is not None and sig not in ctx.shrunk:
            ctx.shrunk.add(sig)
            sh = shrink_history(ops, rerun, shrink_budget)
            if sh is not None:
                extra = {'minimised': {'ops': sh[0], 'failing_index': sh[1], 'expected': sh[2], 'observed': sh[3],
                                       'note': 'same clock schedule and service configuration; replay with these ops in place of "ops"'}}
        out.violation(sig,
                      f'{label}: operation #{i} {short(ops[i], 160)} returned {short(got[i], 200)}; a plain map returns {short(exp[i], 200)}' + note(i),
                      dict(replay, adapter=adapter, ops=ops, failing_index=i, expected=exp[i], observed=got[i], **extra))
    exp_state = sorted([k, v] for k, v in m.items())
    if ok and real_info['state'] != exp_state:
        ok = False
        out.violation(f'{adapter}:final-state:differs-from-map', f'{label}: objects held by the service / directory differ from the map after the history',
                      dict(replay, adapter=adapter, ops=ops, expected_state=exp_state[:20], observed_state=real_info['state'][:20]))
    # ---- tie
    if model is not None:
        if 'error' in model:
            out.disagreement(f'driver error on {adapter} history', dict(replay, adapter=adapter, ops=ops, reply=model))
            return ok
        mr = model['rets']
        stopped = bool(real_info.get('stopped_at_deviation'))
        if stopped:          # the real history ended with its first deviation from the map: compare the operations that were made
            mr = mr[:len(real_rets)]
        cmp_real = real_rets if compare_requests else got
        cmp_model = mr if compare_requests else [strip_req(r) for r in mr]
        j = first_diff(cmp_model, cmp_real)
        agreed = True
        if j is not None:
            agreed = False
            out.disagreement(f'{adapter}: model and implementation differ at operation #{j}',
                             dict(replay, adapter=adapter, ops=ops, index=j, op=ops[j] if j < len(ops) else None,
                                  model=cmp_model[j] if j < len(cmp_model) else None, impl=cmp_real[j] if j < len(cmp_real) else None))
        if stopped:
            return ok
        if model['state'] != real_info['state']:
            agreed = False
            out.disagreement(f'{adapter}: final state differs between model and implementation',
                             dict(replay, adapter=adapter, ops=ops, model=model['state'][:20], impl=real_info['state'][:20]))
        if adapter == 'local' and sorted(model.get('dirs', [])) != real_info['dirs']:
            agreed = False
            out.disagreement('local: directories on disk differ from the model', dict(replay, ops=ops, model=model.get('dirs'), impl=real_info['dirs']))
        if adapter == 'b2' and sorted(model.get('versions', [])) != real_info['versions']:
            agreed = False
            out.disagreement('b2: version stacks differ from the model', dict(replay, ops=ops, model=model.get('versions'), impl=real_info['versions']))
        if agreed:
            out.traces_validated += 1
    return ok


def ask_s3(drv, ops, ps, info):
    """the Lean S3 model on the same history; with the clock readings of every operation (`S3.runT`) when the run was clocked"""
    if info.get('times') is None:
        return ask_history(drv, 's3', ops, ps=ps)
    timed = [dict(o, client=c, server=s) for o, (c, s) in zip(ops, info['times'])]
    return ask_history(drv, 's3', timed, ps=ps, skew=S3_SKEW)


def count_s3_time(out, info):
    """input-distribution counters of the clock dimension, from what the service saw (credential-scope dates of accepted requests)"""
    if info['clock_not_intercepted']:
        out.count('clock:not-intercepted(adapter reads the time some other way; history run on the machine clock)')
    if info['times'] is None:
        out.count('s3:histories-on-the-machine-clock')
        return
    out.count('s3:clock-readings', info['clock_reads'])
    if info['date_changes']:
        out.count('s3:histories-crossing-a-utc-date-change-on-one-adapter-object')
        out.count('s3:utc-date-changes-seen-by-the-service', info['date_changes'])
        out.count('s3:requests-after-the-first-date-change', info['requests_after_first_date_change'])
    else:
        out.count('s3:histories-within-one-utc-date')
    if info['calls_spanning_a_date_change']:
        out.count('s3:calls-spanning-a-date-change(multi-request)', info['calls_spanning_a_date_change'])


# ------------------------------------------------------------------------------------------------ main histories
def quote_via_plus():
    return gen_flag('s3QueryQuoteVia', 'quote_plus') == 'quote_plus'


def b2_rerun(run):
    """for the minimiser: a candidate history that downloads a name that is not live is not run (D9: it would not come back) and counts as
    not failing, so a minimised B2 history never shows D9 instead of what was found"""
    def rerun(ops):
        live = set()
        for o in ops:
            if o['op'] in ('upload', 'upload_stream'):
                live.add(o['name'])
            elif o['op'] == 'delete':
                live.discard(o['name'])
            elif o['op'] in ('download', 'download_stream') and o['name'] not in live:
                m = {}
                return [dict_step(m, x) for x in ops], {}
        return run(ops)
    return rerun


def count_b2_location(out, loc, info):
    """input-distribution counters of the location dimension (B2), the addressing from what the service saw"""
    for lb in locs.b2_label(loc):
        out.count('b2-location:' + lb)
    for k, n in info['addressed'].items():
        out.count('b2:' + k, n)
    if info['bucket_lookups']:
        out.count('b2:bucket-looked-up-by-listing', info['bucket_lookups'])


def main_histories(ctx, r, n_hist, n_big):
    out = ctx.out
    space_breaks_s3_list = quote_via_plus()
    rl = rng_for(out.seed, 'C13-locations')       # its own stream: the histories of a seed are what they were before locations were generated
    for h in range(n_hist):
        big = h < n_big
        universe = gen_universe(r, lambda s: True)
        prefixes = gen_prefixes(r, universe)
        n_ops = r.randint(4, 10) if big else r.randint(6, 26)
        ops = gen_history(r, universe, prefixes, n_ops, big)
        clock, sched = gen_clock(r, len(ops))
        for o, (at, jit) in zip(ops, sched):
            o['at'], o['jit'] = at, jit
        ps = r.choice([1, 1, 2, 2, 3, 1000])
        spelling = r.choice([s for s in localfs.SPELLINGS if s not in localfs.DOT_SPELLINGS]) if r.random() < 0.8 else r.choice(localfs.DOT_SPELLINGS)
        token_uses = r.choice([None, None, 3, 7, 20])
        s3_variant = r.choice(['s3c', 's3c', 's3'])
        # how the repository location is spelled, per adapter (local: `spelling` above)
        b2_loc = locs.gen_b2_location(rl)
        s3_loc = locs.gen_s3_location(rl, variant=s3_variant)
        case = {'kind': 'history', 'universe': universe, 'n_ops': len(ops), 'page_size': ps, 'root_spelling': spelling, 'b2_token_uses': token_uses,
                's3_variant': s3_variant, 'clock': clock, 'ops': [dict(o, data='<%d bytes>' % (len(o['data']) // 2)) if 'data' in o else o for o in ops][:30],
                'b2_location': {k: b2_loc[k] for k in ('by', 'restricted', 'name_class')}, 's3_location': {k: s3_loc[k] for k in ('bucket_class', 'host_class', 'scheme')}}
        replay = {'kind': 'history', 'page_size': ps, 'root_spelling': spelling, 'b2_token_uses': token_uses, 's3_variant': s3_variant, 'clock': clock,
                  'b2_location': b2_loc, 's3_location': s3_loc}
        # per adapter: the sub-history inside the region its theorems cover
        def sub(name_ok, prefix_ok):
            return [o for o in ops if (name_ok(o['name']) if 'name' in o else prefix_ok(o['prefix']))]
        dot_root = spelling in localfs.DOT_SPELLINGS and not root_made_absolute()
        ops_s3 = sub(s3_ok, lambda p: not (space_breaks_s3_list and ' ' in p))
        ops_b2 = sub(b2_ok, lambda p: True)
        # B2: downloading a name that is not live never returns (D9, property C12: unbounded re-authentication recursion) — keep those out
        live, keep = set(), []
        for o in ops_b2:
            if o['op'] in ('upload', 'upload_stream'):
                live.add(o['name'])
            if o['op'] == 'delete':
                live.discard(o['name'])
            if o['op'] in ('download', 'download_stream') and o['name'] not in live:
                out.count('b2:download-of-missing-name-skipped(D9)')
                continue
            keep.append(o)
        ops_b2 = keep
        ops_local = sub(local_ok, lambda p: not (dot_root and '/' in p))
        n_live = len({o['name'] for o in ops if o['op'] in ('upload', 'upload_stream')})
        lists = [o for o in ops if o['op'] == 'list']
        nontrivial = len(ops) >= 6 and n_live >= 2 and len(lists) >= 1 and any(o['op'] == 'delete' for o in ops)
        out.case(case, nontrivial)
        out.count('page_size:%d' % ps)
        out.count('root:' + spelling)
        out.count('objects:' + ('0-1' if n_live <= 1 else '2-3' if n_live <= 3 else '4-6' if n_live <= 6 else '7+'))
        out.count('b2_token_uses:%s' % token_uses)
        out.count('clock:' + clock['class'])
        if clock['step']:
            out.count('clock:moves-at-every-reading')
        for o in ops:
            out.count('op:' + o['op'])
            if 'data' in o:
                n = len(o['data']) // 2
                c = o.get('chunk')
                out.count('payload:' + ('empty' if n == 0 else '<chunk' if c and n < c else '=chunk' if c and n == c else '>chunk' if c else 'plain'))
        # spec model vs dict (sanity of the executable specification)
        spec = ask_history(ctx.drv, 'spec', ops)
        if spec is not None:
            m = {}
            exp = [dict_step(m, op) for op in ops]
            if 'error' in spec or [strip_req(x) for x in spec['rets']] != exp or spec['state'] != sorted([k, v] for k, v in m.items()):
                out.disagreement('Lean specification (MapStore) differs from the Python dict model', dict(replay, ops=ops, reply=short(spec, 2000)))
        # S3
        rets, info = real_s3(ops_s3, ps, s3_variant, clock, location=s3_loc)
        for lb in locs.s3_label(s3_loc):
            out.count('s3-location:' + lb)
        if info['sig_failures']:
            out.count('s3:signature-rejected', len(info['sig_failures']))
        if info['time_failures']:
            out.count('s3:timestamp-rejected', len(info['time_failures']))
        out.count('s3:requests', info['requests'])
        count_s3_time(out, info)
        for x in rets:
            if 'requests' in x:
                out.count('s3:list-pages:' + ('1' if x['requests'] == 1 else '2' if x['requests'] == 2 else '3' if x['requests'] == 3 else '4+'))
        s3_label = 'S3 (%s://%s, bucket %r)' % (s3_loc['scheme'], s3_loc['host'], s3_loc['bucket'])
        s3_fine = check_adapter(ctx, s3_label, 's3', ops_s3, rets, info, ask_s3(ctx.drv, ops_s3, ps, info), replay, note=lambda i: describe_time(ops_s3, i, info, clock),
                              rerun=lambda o: real_s3(o, ps, s3_variant, clock, location=s3_loc))
        # location independence, directly: the same S3 sub-history against another bucket / endpoint / scheme returns the same values
        if h % 3 == 2:
            loc2 = locs.s3_other_spelling(rl, s3_loc)
            rets2, info2 = real_s3(ops_s3, ps, s3_variant, clock, location=loc2)
            out.evaluations += 1
            out.count('s3-location:second-spelling-of-the-same-history')
            for lb in locs.s3_label(loc2):
                out.count('s3-location:' + lb)
            ok2 = check_adapter(ctx, 'S3 (%s://%s, bucket %r)' % (loc2['scheme'], loc2['host'], loc2['bucket']), 's3', ops_s3, rets2, info2,
                                ask_s3(ctx.drv, ops_s3, ps, info2), dict(replay, s3_location=loc2), note=lambda i: describe_time(ops_s3, i, info2, clock),
                                rerun=lambda o: real_s3(o, ps, s3_variant, clock, location=loc2))
            if s3_fine and ok2 and ([strip_req(x) for x in rets2] != [strip_req(x) for x in rets] or info2['state'] != info['state']):
                out.violation('s3:location-spelling-dependence', f'the same history returns different values at {s3_label} and at {loc2["scheme"]}://{loc2["host"]}, bucket {loc2["bucket"]!r}',
                              dict(replay, adapter='s3', ops=ops_s3, s3_location_b=loc2))
        # B2
        b2_loc['restricted'] = r.random() < 0.3
        rets, info = real_b2(ops_b2, ps, token_uses, clock=clock, location=b2_loc, stop_at_deviation=True)
        count_b2_location(out, b2_loc, info)
        out.count('b2:requests', info['requests'])
        out.count('b2:authorizations', info['tokens'])
        if info['aged_out']:
            out.count('b2:histories-outliving-a-token(24h)')
            out.count('b2:requests-with-aged-out-token', info['aged_out'])
        for x in rets:
            if 'requests' in x:
                out.count('b2:list-pages:' + ('1' if x['requests'] == 1 else '2' if x['requests'] == 2 else '3' if x['requests'] == 3 else '4+'))
        # with expiring tokens a list request may be repeated after re-authentication: compare page counts only without expiry
        b2_label = 'B2 (-r b2:%s = the bucket\'s %s; %s key)' % (locs.b2_ident(b2_loc), b2_loc['by'], 'restricted' if b2_loc['restricted'] else 'master')
        b2_fine = check_adapter(ctx, b2_label, 'b2', ops_b2, rets, info, ask_history(ctx.drv, 'b2', ops_b2, ps=ps, loc=locs.b2_model_loc(b2_loc)), replay,
                              compare_requests=token_uses is None and not info['aged_out'],
                              rerun=b2_rerun(lambda o: real_b2(o, ps, token_uses, clock=clock, location=b2_loc, stop_at_deviation=True)), shrink_budget=30)
        # location independence, directly: the other documented spelling of the same bucket returns the same values
        if h % 3 == 1:
            loc2 = locs.b2_other_spelling(rl, b2_loc)
            rets2, info2 = real_b2(ops_b2, ps, token_uses, clock=clock, location=loc2, stop_at_deviation=True)
            out.evaluations += 1
            out.count('b2-location:second-spelling-of-the-same-history')
            count_b2_location(out, loc2, info2)
            ok2 = check_adapter(ctx, 'B2 (-r b2:%s = the bucket\'s %s; %s key)' % (locs.b2_ident(loc2), loc2['by'], 'restricted' if loc2['restricted'] else 'master'),
                                'b2', ops_b2, rets2, info2, ask_history(ctx.drv, 'b2', ops_b2, ps=ps, loc=locs.b2_model_loc(loc2)), dict(replay, b2_location=loc2),
                                compare_requests=token_uses is None and not info2['aged_out'],
                                rerun=b2_rerun(lambda o: real_b2(o, ps, token_uses, clock=clock, location=loc2, stop_at_deviation=True)), shrink_budget=30)
            if b2_fine and ok2 and ([strip_req(x) for x in rets2] != [strip_req(x) for x in rets] or info2['state'] != info['state']):
                out.violation('b2:location-spelling-dependence', f'the same history returns different values with the bucket spelled by {b2_loc["by"]} '
                              f'(-r b2:{locs.b2_ident(b2_loc)}) and by {loc2["by"]} (-r b2:{locs.b2_ident(loc2)})',
                              dict(replay, adapter='b2', ops=ops_b2, b2_location_b=loc2))
        # local
        rets, info = real_local(ops_local, spelling, ctx.newdir())
        ok = check_adapter(ctx, 'local (%s)' % spelling, 'local', ops_local, rets, info,
                           ask_history(ctx.drv, 'local', ops_local, root=model_root(spelling)), dict(replay, root=info['root']))
        if ok and any(n.endswith('.tmp') for n, _ in info['state']):
            out.violation('local:temp-left-behind', 'a temporary file is left in the repository directory after the history', dict(replay, adapter='local', ops=ops_local))
        # root spelling independence, directly: the same local sub-history under a second spelling returns the same values
        if h % 3 == 0:
            pool = localfs.DOT_SPELLINGS if dot_root else [s for s in localfs.SPELLINGS if s not in localfs.DOT_SPELLINGS]
            sp2 = r.choice([s for s in pool if s != spelling])
            rets2, info2 = real_local(ops_local, sp2, ctx.newdir())
            out.evaluations += 1
            no_tmp = lambda st: [e for e in st if not e[0].endswith('.tmp')]
            if [strip_req(x) for x in rets2] != [strip_req(x) for x in rets] or no_tmp(info2['state']) != no_tmp(info['state']):
                i = first_diff([strip_req(x) for x in rets], [strip_req(x) for x in rets2])
                out.violation('local:root-spelling-dependence', f'the same history returns different values under root spellings {spelling!r} and {sp2!r} (operation #{i})',
                              dict(replay, adapter='local', ops=ops_local, spelling_b=sp2, index=i))


# ------------------------------------------------------------------------------------------------ one adapter object across a date change, systematically
def clock_sweep(ctx, r, reps):
    """Seed-independent part of the clock dimension: for every kind of calendar boundary, both S3 adapters and a small and a large page
    size, ONE adapter object makes three calls before the UTC date changes and then every kind of call after it (and, second
    variant, the clock moves at every reading so that the change falls inside the listing).  Oracle and tie as for the main histories."""
    out = ctx.out
    for k in range(reps):
        for kind in BOUNDARIES:
            for variant in ('s3c', 's3'):
                a, b, c = (''.join(r.choice('abcdefgh') for _ in range(r.randint(2, 4))) + s for s in ('1', '2', '3'))
                d1, d2, d3 = (r.randbytes(r.randint(0, 40)).hex() for _ in range(3))
                ops = [{'op': 'upload', 'name': f'{a}/{b}', 'data': d1}, {'op': 'upload', 'name': f'{a}/{c}', 'data': d2}, {'op': 'exists', 'name': f'{a}/{b}'},
                       {'op': 'exists', 'name': f'{a}/{b}'}, {'op': 'list', 'prefix': f'{a}/'}, {'op': 'download', 'name': f'{a}/{c}'},
                       {'op': 'download_stream', 'name': f'{a}/{b}', 'chunk': 7, 'sink': '00ff'},
                       {'op': 'upload_stream', 'name': f'{c}', 'data': d3, 'chunk': 7}, {'op': 'delete', 'name': f'{a}/{c}'}, {'op': 'list', 'prefix': ''}]
                inside = (k + (variant == 's3')) % 2 == 1
                ps = 1 if inside else r.choice([1, 2, 1000])
                bnd = BOUNDARIES[kind](r)
                if inside:       # 3 readings before the listing; readings at -7, -5, -3 s; the two requests of the listing are made at 23:59:59 and 00:00:01
                    clock = {'class': 'sweep:' + kind + ':inside-listing', 'start': (bnd - _dt.timedelta(seconds=7)).isoformat(), 'step': 2, 'offset': 0}
                    for o in ops:
                        o['at'], o['jit'] = 0, 0
                    ops = ops[:3] + ops[4:]
                else:
                    clock = {'class': 'sweep:' + kind, 'start': (bnd - _dt.timedelta(seconds=3)).isoformat(), 'step': 0, 'offset': 0}
                    for i, o in enumerate(ops):
                        o['at'], o['jit'] = (i if i < 3 else i + 1), 0
                rets, info = real_s3(ops, ps, variant, clock)
                out.evaluations += 1
                out.count('clock-sweep:' + kind + (':inside-listing' if inside else ''))
                count_s3_time(out, info)
                replay = {'kind': 'history', 'page_size': ps, 's3_variant': variant, 'clock': clock}
                check_adapter(ctx, 'S3', 's3', ops, rets, info, ask_s3(ctx.drv, ops, ps, info), replay, note=lambda i: describe_time(ops, i, info, clock),
                              rerun=lambda o: real_s3(o, ps, variant, clock))


def clock_skew_ties(ctx, r, n):
    """The hypothesis of `s3_timed_history_refines` from both sides: a client whose clock is off by less than the service's window behaves
    like the map (oracle + tie); one whose clock is off by more has every request refused — that is the service's rule, not a defect of
    the adapter, so there the Lean model's prediction (`forbidden`, nothing stored) is compared and no oracle is applied."""
    out = ctx.out
    for _ in range(n):
        a, b = (''.join(r.choice('abcdefgh') for _ in range(r.randint(2, 4))) for _ in range(2))
        ops = [{'op': 'upload', 'name': f'{a}/{b}', 'data': r.randbytes(r.randint(0, 9)).hex()}, {'op': 'exists', 'name': f'{a}/{b}'},
               {'op': 'list', 'prefix': r.choice(['', a])}, {'op': 'download', 'name': f'{a}/{b}'}, {'op': 'delete', 'name': f'{a}/{b}'}]
        r.shuffle(ops)
        off = r.choice([-1, 1]) * r.choice([120, 899, 901, 1500, 3600, 86400, 40000])
        inside = abs(off) <= S3_SKEW
        for i, o in enumerate(ops):
            o['at'], o['jit'] = i * r.choice([0, 1, 30]), 0
        start = BOUNDARIES['midnight'](r) - _dt.timedelta(seconds=r.choice([0, 1, 2, 40, 4000, 50000]))
        clock = {'class': 'client-clock-off:' + ('inside-window' if inside else 'outside-window'), 'start': start.isoformat(), 'step': 0, 'offset': off}
        ps = r.choice([1, 2, 1000])
        rets, info = real_s3(ops, ps, 's3c', clock)
        out.evaluations += 1
        out.count('clock-skew:' + ('inside-window' if inside else 'outside-window'))
        replay = {'kind': 'history', 'page_size': ps, 's3_variant': 's3c', 'clock': clock}
        if info['times'] is None:
            out.count('clock:not-intercepted(adapter reads the time some other way; history run on the machine clock)')
            continue
        if inside:
            check_adapter(ctx, 'S3', 's3', ops, rets, info, ask_s3(ctx.drv, ops, ps, info), replay, note=lambda i: describe_time(ops, i, info, clock))
        elif ctx.drv is not None:
            model = ask_s3(ctx.drv, ops, ps, info)
            if 'error' in model or model['rets'] != rets or model['state'] != info['state']:
                out.disagreement('s3: a client clock outside the service\'s window — model and implementation differ',
                                 dict(replay, adapter='s3', ops=ops, model=short(model, 1500), impl=short(rets, 1500)))
            else:
                out.traces_validated += 1


# ------------------------------------------------------------------------------------------------ every spelling of the repository location, systematically
def location_sweep(ctx, r, reps):
    """Seed-independent part of the location dimension.  One history that makes every kind of call (`c13_location.full_history`) under
    * B2: the bucket spelled by NAME and by ID × master key / key restricted to the bucket × our bucket reported as the only one / first / in
      the middle / last, the bucket-name classes taken in turn;
    * S3-compatible: every shape of the endpoint (`S3_HOST_CLASSES`) × https (given or left to the default) / http, the bucket-name classes in
      turn; S3 proper in two regions;
    * local: every spelling of `localfs.SPELLINGS`.
    Oracle (the map) and tie (B2: `B2.stepAt` at that location) as for the main histories."""
    out = ctx.out
    n = 0
    for k in range(reps):
        for by in ('name', 'id'):
            for restricted in (False, True):
                for pos in ('only', 'first', 'middle', 'last'):
                    n += 1
                    loc = locs.gen_b2_location(r, by=by, restricted=restricted, position=pos, name_class=locs.B2_NAME_CLASSES[n % len(locs.B2_NAME_CLASSES)])
                    ops, ps = locs.full_history(r), [1, 2, 1000][n % 3]
                    rets, info = real_b2(ops, ps, location=loc, stop_at_deviation=True)
                    out.evaluations += 1
                    out.count('location-sweep:b2:by-%s:%s-key:listed-%s' % (by, 'restricted' if restricted else 'master', pos))
                    count_b2_location(out, loc, info)
                    replay = {'kind': 'history', 'page_size': ps, 'b2_location': loc}
                    check_adapter(ctx, 'B2 (-r b2:%s = the bucket\'s %s; %s key; listed %s)' % (locs.b2_ident(loc), by, 'restricted' if restricted else 'master', pos),
                                  'b2', ops, rets, info, ask_history(ctx.drv, 'b2', ops, ps=ps, loc=locs.b2_model_loc(loc)), replay,
                                  rerun=b2_rerun(lambda o: real_b2(o, ps, location=loc, stop_at_deviation=True)), shrink_budget=30)
        s3_locs = [locs.gen_s3_location(r, variant='s3c', host_class=hc, scheme=sc, bucket_class=locs.S3_BUCKET_CLASSES[(i + k) % len(locs.S3_BUCKET_CLASSES)])
                   for i, (hc, sc) in enumerate((hc, sc) for hc in locs.S3_HOST_CLASSES for sc in ('https', 'http'))]
        s3_locs += [locs.gen_s3_location(r, variant='s3', bucket_class=bc) for bc in ('dotted', 'max-length')]
        for i, loc in enumerate(s3_locs):
            if loc['variant'] == 's3c' and loc['scheme'] == 'https':
                loc['explicit_scheme'] = (i // 2 + k) % 2 == 0
            ops, ps = locs.full_history(r), [1, 2, 1000][i % 3]
            rets, info = real_s3(ops, ps, location=loc)
            out.evaluations += 1
            out.count('location-sweep:s3:%s:%s:%s' % (loc['variant'], loc['host_class'], loc['scheme'] + ('' if loc.get('explicit_scheme', True) else '(default)')))
            for lb in locs.s3_label(loc):
                out.count('s3-location:' + lb)
            replay = {'kind': 'history', 'page_size': ps, 's3_location': loc}
            check_adapter(ctx, 'S3 (%s://%s, bucket %r)' % (loc['scheme'], loc['host'], loc['bucket']), 's3', ops, rets, info, ask_s3(ctx.drv, ops, ps, info), replay,
                          rerun=lambda o: real_s3(o, ps, location=loc))
        for sp in localfs.SPELLINGS:
            dot_root = sp in localfs.DOT_SPELLINGS and not root_made_absolute()
            ops = [o for o in locs.full_history(r) if not (dot_root and '/' in o.get('prefix', ''))]
            rets, info = real_local(ops, sp, ctx.newdir())
            out.evaluations += 1
            out.count('location-sweep:local:' + sp)
            check_adapter(ctx, 'local (%s)' % sp, 'local', ops, rets, info, ask_history(ctx.drv, 'local', ops, root=model_root(sp)),
                          {'kind': 'history', 'root_spelling': sp, 'root': info['root']})


def location_probes(ctx, r):
    """Locations OUTSIDE what the README documents or the theorems cover, run on the real code and recorded as observations (no oracle, nothing
    reported): a B2 connection string that also names another bucket (`b2_ambiguous_location_witness`: compared with the model), one that names no
    bucket, and S3-compatible `--host` values that differ from the `Host` header httpx sends (the scheme's default port written out, upper case)."""
    out = ctx.out
    obs = {}
    own_id = locs._word(r, 24, locs.HEX)
    ops = [{'op': 'exists', 'name': 'a/b'}]
    # the connection string is our bucket's id AND the name of a bucket reported before ours
    loc = {'by': 'id', 'bucket_name': 'my-backups', 'bucket_id': own_id, 'before': [[locs._word(r, 24, locs.HEX), own_id]], 'after': [], 'restricted': False,
           'name_class': 'probe'}
    for order in ('other-first', 'ours-first'):
        if order == 'ours-first':
            loc = dict(loc, before=[], after=loc['before'])
        rets, info = real_b2(ops, 2, location=loc)
        out.evaluations += 1
        out.count('location-probe:b2-id-is-also-another-buckets-name:' + order)
        obs['b2: -r b2:<id> where another bucket is NAMED like that id, ' + order] = {'exists(name)': rets[0], 'download URLs addressed': info['addressed']}
        if ctx.drv is not None:
            m = ask_history(ctx.drv, 'b2', ops, ps=2, loc=locs.b2_model_loc(loc))
            if 'error' in m or [strip_req(x) for x in m['rets']] != [strip_req(x) for x in rets]:
                out.disagreement('b2: ambiguous location — model and implementation differ', {'kind': 'location-probe', 'b2_location': loc, 'model': m, 'impl': rets})
            else:
                out.traces_validated += 1
    # the connection string names no bucket of the account
    loc = {'by': 'name', 'bucket_name': 'no-such-bucket', 'bucket_id': own_id, 'before': [], 'after': [], 'restricted': False, 'name_class': 'probe'}
    from replicat.backends.b2 import B2
    b = B2('no-such-bucket', key_id='0012ab34cd56ef', application_key='K001secretsecretsecret')
    f = fake_b2.FakeB2('my-backups', '0012ab34cd56ef', 'K001secretsecretsecret', bucket_id=own_id, fault=make_watchdog()[0])
    fake_b2.install(b, f)
    rets = loop().run_until_complete(run_async(b, [{'op': 'upload', 'name': 'a', 'data': '01'}, {'op': 'exists', 'name': 'a'}], lambda: 0))
    out.evaluations += 1
    out.count('location-probe:b2-names-no-bucket')
    obs['b2: connection string names no bucket of the account'] = {'returns': rets, 'objects stored': len(f.live())}
    # S3-compatible: `--host` as the user may write it vs the Host header httpx sends (the service verifies the signature over the header it received)
    for label, host, scheme, sent in (('default-port-written-out', 'objects.fake-s3.test:443', 'https', 'objects.fake-s3.test'),
                                      ('default-port-written-out', 'objects.fake-s3.test:80', 'http', 'objects.fake-s3.test'),
                                      ('upper-case', 'Objects.Fake-S3.test', 'https', 'objects.fake-s3.test')):
        loc = dict(locs.DEFAULT_S3, host=host, scheme=scheme, explicit_scheme=True, service_host=sent)
        rets, info = real_s3([{'op': 'upload', 'name': 'a', 'data': '01'}, {'op': 'exists', 'name': 'a'}], 2, location=loc)
        out.evaluations += 1
        out.count('location-probe:s3c-host-' + label)
        obs[f's3c: --host {host} --scheme {scheme} (Host header sent: {sent})'] = {
            'returns': rets, 'service said': (info['sig_failures'] or [{}])[0].get('why', '').split(';')[0].split('\n')[0]}
    out.extra['location_observations_outside_the_theorems'] = obs


# ------------------------------------------------------------------------------------------------ frontier probes
def probe(ctx, adapter, label, sig, ops, what, run, model_kw, compare_model=True):
    """run a short history that leaves the proved region; report a deviation from the map with the given sig"""
    out = ctx.out
    rets, info = run(ops)
    m = {}
    exp = [dict_step(m, op) for op in ops]
    got = [strip_req(x) for x in rets]
    i = first_diff(exp, got)
    out.evaluations += 1
    out.count('probe:' + label)
    if i is not None:
        out.violation(sig, f'{what}: operation #{i} {short(ops[i], 160)} returned {short(got[i], 160)}; a plain map returns {short(exp[i], 160)}',
                      {'kind': 'probe', 'label': label, 'adapter': adapter, 'ops': ops, 'failing_index': i, 'expected': exp[i], 'observed': got[i], **model_kw})
    if ctx.drv is not None and compare_model:
        model = ask_history(ctx.drv, adapter, ops, **{k: v for k, v in model_kw.items() if k in ('ps', 'root')})
        mr = [strip_req(x) for x in model.get('rets', [])]
        if 'error' in model:
            out.disagreement('driver error on probe ' + label, {'ops': ops, 'reply': model})
        elif any(x.get('error') == 'unmodelled' for x in mr):
            out.count('probe-unmodelled:' + label)
        elif mr != got:
            j = first_diff(mr, got)
            out.disagreement(f'probe {label}: the model does not predict what the implementation does at operation #{j}',
                             {'kind': 'probe', 'label': label, 'adapter': adapter, 'ops': ops, 'model': mr[j] if j is not None and j < len(mr) else None,
                              'impl': got[j] if j is not None and j < len(got) else None, **model_kw})
        else:
            out.traces_validated += 1
    return i


def frontier_probes(ctx, r, reps):
    up = lambda n, d=b'x': {'op': 'upload', 'name': n, 'data': d.hex()}
    for k in range(reps):
        a, b, c = (''.join(r.choice('abcdefgh') for _ in range(r.randint(2, 4))) for _ in range(3))
        # D6: repository spelled '.', '' or './' and a prefix with a directory part
        sp = localfs.DOT_SPELLINGS[k % len(localfs.DOT_SPELLINGS)]
        ops = [up(f'{a}/{b}/{c}'), up('top'), {'op': 'list', 'prefix': ''}, {'op': 'list', 'prefix': a[:1]}, {'op': 'list', 'prefix': f'{a}/'}]
        probe(ctx, 'local', 'local-root-dot-list-dir-prefix', 'local:list:root-dot-loses-leading-chars',
              ops, f'local backend with repository location {localfs.LocalCase("/x").spelling(sp)[1]!r}',
              lambda o, sp=sp: real_local(o, sp, ctx.newdir()), {'root': model_root(sp), 'root_spelling': sp})
        # D7: names ending in '.tmp'
        sp = r.choice([s for s in localfs.SPELLINGS if s not in localfs.DOT_SPELLINGS])
        ops = [up(f'{a}/{b}.tmp'), up(f'{a}/{c}'), {'op': 'exists', 'name': f'{a}/{b}.tmp'}, {'op': 'list', 'prefix': f'{a}/'}]
        probe(ctx, 'local', 'local-name-ending-.tmp', 'local:list:hides-names-ending-.tmp', ops, 'local backend, object name ending in .tmp',
              lambda o, sp=sp: real_local(o, sp, ctx.newdir()), {'root': model_root(sp), 'root_spelling': sp})
        # prefixes whose directory part is not a normal relative path
        for pfx in (f'{a}//', f'./{a}/', f'{a}/./'):
            ops = [up(f'{a}/{b}'), {'op': 'list', 'prefix': pfx}]
            probe(ctx, 'local', 'local-prefix-not-normal', 'local:list:prefix-not-normalised', ops, 'local backend, prefix with an empty or "." directory segment',
                  lambda o, sp=sp: real_local(o, sp, ctx.newdir()), {'root': model_root(sp), 'root_spelling': sp})
        # D8: names with '.' / '..' segments
        for dn in (f'{a}/./{b}', f'{a}/../{b}'):
            ops = [up(dn), {'op': 'exists', 'name': dn}, {'op': 'list', 'prefix': ''}]
            probe(ctx, 's3', 's3-name-dot-segment', 's3:name-dot-segment:rejected', ops, 'S3 backend, object name with a dot segment',
                  lambda o: real_s3(o, 2), {'ps': 2})
            probe(ctx, 'b2', 'b2-name-dot-segment', 'b2:name-dot-segment:wrong-object', ops, 'B2 backend, object name with a dot segment',
                  lambda o: real_b2(o, 2), {'ps': 2})
            probe(ctx, 'local', 'local-name-dot-segment', 'local:name-dot-segment:aliased', ops, 'local backend, object name with a dot segment',
                  lambda o, sp=sp: real_local(o, sp, ctx.newdir()), {'root': model_root(sp), 'root_spelling': sp})
        # D8: B2 puts the raw name into the download URL
        for ch in '?#%+':
            n = f'{a}{ch}41{b}'
            ops = [up(n), {'op': 'list', 'prefix': a}, {'op': 'exists', 'name': n}]
            probe(ctx, 'b2', 'b2-name-url-metachar', 'b2:name-url-metachar:wrong-object', ops, f'B2 backend, object name containing {ch!r}',
                  lambda o: real_b2(o, 2), {'ps': 2})
        # D10 seen from C13: a list prefix with a space is signed as '+'
        ops = [up(f'{a} {b}'), {'op': 'exists', 'name': f'{a} {b}'}, {'op': 'list', 'prefix': f'{a} '}]
        probe(ctx, 's3', 's3-list-prefix-space', 's3:query-space-signed-as-plus', ops, 'S3 backend, list prefix containing a space (service verifies SigV4)',
              lambda o: real_s3(o, 2), {'ps': 2}, compare_model=False)


# ------------------------------------------------------------------------------------------------ atomic replacement, observed at the rename
def observe_upload(scratch, spelling, prior, name, data, stream, chunk):
    """run `prior` uploads, then one upload of `name` with a spy on pathlib.Path.replace; returns (old map, seen, tree afterwards)"""
    import pathlib
    from replicat.backends.local import Local
    case = localfs.LocalCase(scratch)
    seen = {}
    try:
        s = case.enter(spelling)
        b = Local(s)
        old = {}
        for o in prior:
            b.upload(o['name'], bytes.fromhex(o['data']))
            old[o['name']] = o['data']
        orig = pathlib.Path.replace

        def spy(self, target, _orig=orig):
            pathlib.Path.replace = _orig          # observe with the unpatched method
            try:
                seen['tree'] = case.tree()[0]
                seen['exists'] = b.exists(name)
                seen['listed'] = sorted(b.list_files(''))
                seen['old'] = b.download(name).hex() if seen['exists'] else None
                seen['temp'] = os.path.basename(str(self))
            finally:
                pathlib.Path.replace = spy
            return _orig(self, target)
        pathlib.Path.replace = spy
        try:
            if stream:
                b.upload_stream(name, io.BytesIO(data), len(data), chunk_size=chunk)
            else:
                b.upload(name, data)
        finally:
            pathlib.Path.replace = orig
        return old, seen, case.tree()[0]
    finally:
        case.remove()


def atomic_oracle(old, seen, name):
    """None if fine, else (sig, what)"""
    if 'tree' not in seen:
        return 'local:upload:no-rename', 'the upload did not go through a rename of a temporary file'
    if seen['exists'] != (name in old) or seen['old'] != old.get(name) or seen['listed'] != sorted(old):
        return ('local:upload:intermediate-state-visible',
                f'right before the rename the object {name!r} reads exists={seen["exists"]}, listing={seen["listed"]}; before the upload it was '
                f'exists={name in old}, listing={sorted(old)}')
    return None


def atomic_upload_observations(ctx, r, n):
    """Every local upload goes through a temporary file and a rename.  The directory tree is observed right before the rename
    (spy on pathlib.Path.replace) and right after the call; both must be what the model's `uploadState` says (k = 3, 4), and
    through the adapter's own exists / download / list_files the object must read as the OLD one until the rename."""
    out = ctx.out
    for _ in range(n):
        universe = [u for u in gen_universe(r, lambda s: True) if local_ok(u)]
        if not universe:
            continue
        prior = [{'op': 'upload', 'name': r.choice(universe), 'data': r.randbytes(r.randint(0, 9)).hex()} for _ in range(r.randint(0, 4))]
        name = r.choice(universe)
        stream = r.random() < 0.4
        chunk = r.choice([1, 1000])
        data = r.randbytes(r.choice([0, 1, 7, 2000]))
        spelling = r.choice([s for s in localfs.SPELLINGS if s not in localfs.DOT_SPELLINGS])
        old, seen, after = observe_upload(ctx.newdir(), spelling, prior, name, data, stream, chunk)
        out.evaluations += 1
        out.count('atomic-upload:' + ('overwrite' if name in old else 'new') + (':stream' if stream else ''))
        replay = {'kind': 'atomic', 'prior': prior, 'name': name, 'data': data.hex(), 'root_spelling': spelling, 'stream': stream, 'chunk': chunk}
        bad = atomic_oracle(old, seen, name)
        if bad is not None:
            out.violation(bad[0], bad[1], dict(replay, observed={k: v for k, v in seen.items() if k != 'tree'}))
            continue
        if ctx.drv is not None:
            leaf = name.rsplit('/', 1)[-1][:240]
            rnd = seen['temp'][len(leaf) + 1:-4] if seen['temp'].startswith(leaf + '_') and seen['temp'].endswith('.tmp') else None
            m = ctx.drv.ask({'op': 'store.upload_states', 'root': model_root(spelling), 'ops': prior, 'name': name, 'data': data.hex(), 'rnd': rnd or ''})
            before = sorted([k, v.hex()] for k, v in seen['tree'].items())
            final = sorted([k, v.hex()] for k, v in after.items())
            if rnd is None or 'error' in m or m['states'][3] != before or m['states'][4] != final:
                out.disagreement('local upload: the directory tree at the rename / after the call differs from the model\'s upload states',
                                 dict(replay, temp=seen['temp'], model=short(m, 1500), before=before[:10], after=final[:10]))
            else:
                out.traces_validated += 1


# ------------------------------------------------------------------------------------------------ listing loops on hand-made pages
def xml_page(elems):
    from xml.sax.saxutils import escape
    body = []
    for tag, text in elems:
        if tag == 'Key':
            body.append('<Contents><Key>%s</Key><Size>1</Size></Contents>' % escape(text))
        else:
            body.append('<%s>%s</%s>' % (tag, escape(text), tag))
    return ('<?xml version="1.0" encoding="UTF-8"?><ListBucketResult xmlns="http://s3.amazonaws.com/doc/2006-03-01/">' + ''.join(body) + '</ListBucketResult>').encode()


def page_events(elems):
    """(tag, text) in the order XMLPullParser reports element ends"""
    ev = []
    for tag, text in elems:
        if tag == 'Key':
            ev += [['Key', text], ['Size', '1'], ['Contents', '']]
        else:
            ev.append([tag, text])
    return ev + [['ListBucketResult', '']]


def gen_s3_pages(r):
    keys = ['k%02d%s' % (i, r.choice(['', 'é', '&<', ' x'])) for i in range(r.randint(0, 7))]
    style = r.choice(['conformant', 'conformant', 'conformant', 'no-token', 'odd-text', 'stale-token', 'cycle'])
    cuts = sorted(r.sample(range(len(keys) + 1), min(len(keys) + 1, r.randint(0, 3))))
    parts, prev = [], 0
    for c in cuts + [len(keys)]:
        parts.append(keys[prev:c])
        prev = c
    pages = []
    tok = None
    for i, part in enumerate(parts):
        last = i == len(parts) - 1
        nxt = None if last else 'tok+%d/=' % (i + 1)
        el = [('Key', k) for k in part]
        tr = ('IsTruncated', 'false' if last else 'true')
        if style == 'odd-text' and last:
            tr = ('IsTruncated', r.choice(['False', 'FALSE', ' false', '0', 'false ']))
        extra = [('Name', 'bkt'), ('Prefix', ''), ('KeyCount', str(len(part))), ('MaxKeys', '1000')]
        el = el + [tr] + r.sample(extra, r.randint(0, len(extra)))
        if nxt is not None and not (style == 'no-token' and i == 0):
            el.append(('NextContinuationToken', nxt if not (style == 'cycle' and i == len(parts) - 2) else 'tok+1/='))
        if last and style == 'stale-token':
            el.append(('NextContinuationToken', 'tok+1/='))
        r.shuffle(el)
        pages.append((tok, el))
        tok = nxt
    return style, pages


def real_s3_loop(pages, limit):
    import httpx
    from replicat.backends.s3c import S3Compatible
    table = {t: xml_page(el) for t, el in pages}
    n = [0]

    def handler(request):
        n[0] += 1
        if n[0] > limit:
            raise Watchdog()
        q = dict(fake_s3.FakeS3.parse_query(request.url.raw_path.partition(b'?')[2].decode()))
        t = q.get('continuation-token')
        body = table.get(t, xml_page([]))
        return httpx.Response(200, content=body)
    b = S3Compatible('bkt', key_id='k', access_key='s', region='r', host='h.test')
    b._client = httpx.AsyncClient(transport=httpx.MockTransport(handler), timeout=None, event_hooks=b._client.event_hooks)

    async def go():
        try:
            return {'names': [x async for x in b.list_files('')], 'requests': n[0]}
        except Watchdog:
            return {'fuel': True}
        finally:
            await b.close()
    return loop().run_until_complete(go())


def gen_b2_pages(r):
    names = ['n%02d%s' % (i, r.choice(['', 'é', ' x'])) for i in range(r.randint(0, 7))]
    style = r.choice(['conformant', 'conformant', 'conformant', 'cycle', 'empty-pages'])
    cuts = sorted(r.sample(range(len(names) + 1), min(len(names) + 1, r.randint(0, 3))))
    if style == 'empty-pages':
        cuts = sorted(cuts + cuts)
    parts, prev = [], 0
    for c in cuts + [len(names)]:
        parts.append(names[prev:c])
        prev = c
    pages, start = [], None
    for i, part in enumerate(parts):
        last = i == len(parts) - 1
        nxt = None if last else 'start-%d' % (i + 1)
        if style == 'cycle' and last and len(parts) > 1:
            nxt = 'start-1'
        pages.append((start, part, nxt))
        start = nxt
    return style, pages


def real_b2_loop(pages, limit):
    import httpx
    from replicat.backends.b2 import B2
    table = {s: (files, nxt) for s, files, nxt in pages}
    n = [0]

    def handler(request):
        url = str(request.url)
        if url.endswith('b2_authorize_account'):
            return httpx.Response(200, json={'accountId': 'a', 'authorizationToken': 't', 'apiUrl': 'https://api.test', 'downloadUrl': 'https://dl.test',
                                             'allowed': {'bucketId': 'bid', 'bucketName': 'bkt'}})
        if url.endswith('b2_list_file_names'):
            n[0] += 1
            if n[0] > limit:
                raise Watchdog()
            p = json.loads(request.content)
            files, nxt = table.get(p.get('startFileName'), ([], None))
            return httpx.Response(200, json={'files': [{'fileName': f, 'action': 'upload'} for f in files], 'nextFileName': nxt})
        return httpx.Response(404, json={'code': 'not_found'})
    b = B2('bkt', key_id='k', application_key='s')
    b._client = httpx.AsyncClient(transport=httpx.MockTransport(handler), timeout=None, event_hooks=b._client.event_hooks)

    async def go():
        try:
            return {'names': [x async for x in b.list_files('')], 'requests': n[0]}
        except Watchdog:
            return {'fuel': True}
        finally:
            await b.close()
    return loop().run_until_complete(go())


def loop_ties(ctx, r, n):
    out = ctx.out
    fuel = 12
    for _ in range(n):
        style, pages = gen_s3_pages(r)
        real = real_s3_loop(pages, fuel)
        out.evaluations += 1
        out.count('s3loop:' + style)
        all_keys = [t for _, el in pages for tag, t in el if tag == 'Key']
        if style == 'conformant' and real != {'names': all_keys, 'requests': len(pages)}:
            out.violation('s3:list:paging-incomplete', f'conformant page sequence {short(pages, 300)}: the adapter returned {short(real)}; the service holds {all_keys}',
                          {'kind': 's3loop', 'pages': pages, 'observed': real})
        if ctx.drv is not None:
            m = ctx.drv.ask({'op': 'store.s3loop', 'fuel': fuel, 'pages': [[t, page_events(el)] for t, el in pages]})
            if m != real:
                out.disagreement('S3 listing loop: model and implementation differ on a hand-made page sequence', {'kind': 's3loop', 'style': style, 'pages': pages, 'model': m, 'impl': real})
            else:
                out.traces_validated += 1
        style, pages = gen_b2_pages(r)
        real = real_b2_loop(pages, fuel)
        out.evaluations += 1
        out.count('b2loop:' + style)
        all_names = [f for _, fs, _ in pages for f in fs]
        if style in ('conformant', 'empty-pages') and real != {'names': all_names, 'requests': len(pages)}:
            out.violation('b2:list:paging-incomplete', f'conformant page sequence {short(pages, 300)}: the adapter returned {short(real)}',
                          {'kind': 'b2loop', 'pages': pages, 'observed': real})
        if ctx.drv is not None:
            m = ctx.drv.ask({'op': 'store.b2loop', 'fuel': fuel, 'pages': [[s, fs, nx] for s, fs, nx in pages]})
            if m != real:
                out.disagreement('B2 listing loop: model and implementation differ on a hand-made page sequence', {'kind': 'b2loop', 'style': style, 'pages': pages, 'model': m, 'impl': real})
            else:
                out.traces_validated += 1


# ------------------------------------------------------------------------------------------------ pathlib / os.path model
def pathlib_ties(ctx, r, n):
    from pathlib import PurePosixPath
    out = ctx.out
    if ctx.drv is None:
        return
    cases = [('', ''), ('.', 'data'), ('', 'data/'), ('/', 'a'), ('//', 'a'), ('///', 'a'), ('//x', ''), ('x/..', 'a/b'), ('x/', '/abs'), ('./', './a//b/')]
    while len(cases) < n:
        cases.append((''.join(r.choice('//..abé') for _ in range(r.randint(0, 7))), ''.join(r.choice('//..abé') for _ in range(r.randint(0, 7)))))
    replies = ctx.drv.ask_many([{'op': 'store.pathlib', 'root': a, 'rel': b} for a, b in cases])
    for (a, b), m in zip(cases, replies):
        p = PurePosixPath(a)
        real = {'str': str(p), 'joined': str(p / b), 'split': list(os.path.split(b)), 'parts': [x for x in p.parts if x != p.anchor]}
        out.evaluations += 1
        if m != real:
            out.disagreement('pathlib / os.path model differs from Python', {'kind': 'pathlib', 'root': a, 'rel': b, 'model': m, 'impl': real})
        else:
            out.traces_validated += 1
    out.count('pathlib-cases', len(cases))


# ------------------------------------------------------------------------------------------------ the object-level commands (ObjCmd.lean)
def objcmd_stream(ctx, r, n):
    """upload_objects / download_objects / list_objects / delete_objects of a REAL Repository (memory backend, sync and coroutine flavour, and the
    real local backend) on generated scenarios, each run in a worker process from a scratch working directory; tie = the compiled model
    `store.cmd.run` on the same scenario (return values, local trees, backend calls, chunk sizes, final objects); direct oracle = the statements of
    `upload_skip_existing_preserves`, `download_skip_existing_preserves`, `list_objects_spec`, `delete_objects_spec`, `upload_then_download_roundtrip`
    on the real results."""
    import multiprocessing as mp
    from ..impl import objcmd
    out = ctx.out
    cases = [objcmd.gen_case(r, ['mem', 'amem', 'local'][i % 3]) for i in range(n)]
    probes = objcmd.probe_cases()
    allc = cases + [c for _, c in probes]
    with mp.get_context('fork').Pool(min(8, os.cpu_count() or 4)) as pool:
        observed = pool.map(objcmd.run_case_safe, allc, chunksize=2)
    live = [(c, o) for c, o in zip(allc, observed) if 'crash' not in o]
    for c, o in zip(allc, observed):
        if 'crash' in o:
            out.disagreement('objcmd: the scenario could not be run on the real code', {'kind': 'objcmd', 'case': c, 'crash': o['crash'], 'tb': o.get('tb')})
    replies = ctx.drv.ask_many([objcmd.model_request(c, o) for c, o in live]) if ctx.drv is not None else [None] * len(live)
    samples, observations = [], {}
    for k, ((c, o), m) in enumerate(zip(live, replies)):
        is_probe = c.get('shape') == 'probe'
        kinds = [x['cmd'] for x in c['cmds']]
        nontrivial = len(set(kinds)) >= 2 and any(x.get('skip_existing') for x in c['cmds']) and any(
            t.startswith(('put ', 'get ', 'del ')) for oc in o['cmds'] for t in oc['trace'])
        out.case({'kind': 'objcmd', 'backend': c['backend'], 'concurrent': c['concurrent'], 'store': sorted(c['store']), 'cmds': c['cmds']}, nontrivial and not is_probe)
        out.count('objcmd:backend:' + c['backend'])
        out.count('objcmd:shape:' + c['shape'])
        for x, oc in zip(c['cmds'], o['cmds']):
            out.count('objcmd:cmd:' + x['cmd'] + (':skip-existing' if x.get('skip_existing') else '') + (':rate-limited' if x.get('rate_limit') else ''))
            if oc['error']:
                out.count('objcmd:error:' + x['cmd'] + ':' + oc['error'])
            if x['cmd'] in ('download', 'list'):
                out.count('objcmd:filter:' + ('prefix' if x['prefix'] else 'no-prefix') + ('+regex' if x['regex'] is not None else ''))
            if x['cmd'] == 'download' and any(k2 in oc['pre'] for k2 in (oc['out'] or {}).get('names', [])):
                out.count('objcmd:download:existing-file-met' + (':skip-existing' if x['skip_existing'] else ':overwrite'))
            if x['cmd'] == 'upload' and x['skip_existing'] and any(t.startswith('exists ') and 'put ' + t[7:] not in oc['trace'] for t in oc['trace']):
                out.count('objcmd:upload:existing-object-met')
        replay = {'kind': 'objcmd', 'case': c}
        if not is_probe:
            bad, notes = objcmd.oracle(c, o)
            for nt in notes:
                out.count('objcmd:' + nt)
            for sig, what in bad:
                out.violation(sig, f'object commands on the {c["backend"]} backend: {what}', dict(replay, observed=o['cmds'][-1] if o['cmds'] else None))
        else:
            label = [lb for lb, pc in probes if pc is c][0]
            last = o['cmds'][-1]
            observations[label] = {'error': last['error'], 'out': last['out'], 'store': o['state'][:4]}
            if 'victim_exists' in last:
                observations[label]['local_file_outside_the_cache_still_exists'] = last['victim_exists']
            out.count('objcmd:probe:' + label)
        if m is not None and not c.get('no_tie'):
            diffs = objcmd.compare(c, o, m)
            if diffs:
                out.disagreement('objcmd: model and implementation differ: ' + diffs[0][0], dict(replay, differences=[[a, b] for a, b in diffs[:4]]))
            else:
                out.traces_validated += 1
        if nontrivial and len(samples) < 2:
            samples.append({'backend': c['backend'], 'concurrent': c['concurrent'], 'cmds': [dict(x, tree=sorted(x['tree'])) if x['cmd'] == 'upload' else x for x in c['cmds']][:4]})
    # the observed interleavings of the gathered upload tasks, replayed as schedules of the model's scheduler (`upload_interleaving_irrelevant`)
    if ctx.drv is not None:
        sreqs = [(c, x) for c, o in live if c.get('shape') != 'probe' for x in objcmd.schedule_requests(c, o)]
        for (c, (i, req, want)), got in zip(sreqs, ctx.drv.ask_many([x[1] for _, x in sreqs])):
            out.evaluations += 1
            interleaved = any(a.split(' ', 1)[1] != b.split(' ', 1)[1] and a.startswith('exists') and b.startswith('exists') for a, b in zip(want['calls'], want['calls'][1:]))
            out.count('objcmd:schedule:' + ('interleaved' if interleaved else 'task-after-task'))
            if got != want:
                out.disagreement(f'objcmd: observed order of the upload tasks\' backend calls (command #{i}) is not a complete schedule of the model with the same result',
                                 {'kind': 'objcmd', 'case': c, 'command': i, 'model': got, 'impl': want})
            else:
                out.traces_validated += 1
    # the naming rule of upload_objects on pure paths (pathlib / os.path.commonpath) against `objectName`
    if ctx.drv is not None:
        pairs = [objcmd.gen_name_pair(r) for _ in range(max(60, n))]
        for (cwd, f), mr in zip(pairs, ctx.drv.ask_many([{'op': 'store.cmd.name', 'cwd': cwd, 'file': f} for cwd, f in pairs])):
            out.evaluations += 1
            real = objcmd.real_name(cwd, f)
            if mr.get('name') != real:
                out.disagreement('objcmd: object name derived by the model differs from pathlib', {'kind': 'objcmd-name', 'cwd': cwd, 'file': f, 'model': mr, 'impl': real})
            else:
                out.traces_validated += 1
            out.count('objcmd:name:' + ('under-cwd' if f.startswith(cwd + '/') or not cwd else 'outside-cwd'))
    out.extra['objcmd_samples'] = samples
    out.extra['objcmd_observations_outside_the_theorems'] = observations


# ------------------------------------------------------------------------------------------------ overlapping calls on one local backend object
def overlap_consts():
    stem = gen_nat('localTempStemLen', 240)
    return {'stem_len': stem if 8 <= stem <= 250 else 240, 'stream_chunk': gen_nat('streamChunk', 128000), 'suffix': gen_flag('localListExcludeSuffix', '.tmp') or '.tmp'}


def overlap_replay_of(case, res):
    return {'kind': 'overlap', 'adapter': 'local', 'case': case, 'schedule': res['releases'],
            'returns': [short({k: ('<%d bytes>' % len(v) if isinstance(v, bytes) else v) for k, v in (x or {}).items()}, 200) for x in res['rets']],
            'note': 'parts = the calls (data = `len` times the byte `fill`); schedule = which call was released at each step (a release lets the call run to its next read of '
                    'the input stream / write to the sink, or to its return); initial = objects uploaded one after the other before the calls start'}


def overlap_oracle(case, res):
    """None if the run is linearisable against the plain map and leaves no temporary, else (sig, what)"""
    head = (f'one Local object, {len(case["parts"])} calls in flight together (name class {case["class"]!r}, schedule {case["schedule_class"]!r}, '
            f'{len(res["releases"])} releases): ')
    if res['hung']:
        stuck = [ov.label_of(i, p) for i, p in enumerate(case['parts']) if res['rets'][i] is None or res['rets'][i] == {'error': 'abandoned'}]
        return 'local:overlap:call-does-not-return', head + 'these calls neither return nor reach their next read / write: ' + '; '.join(stuck)[:400]
    if ov.linearise(res['initial'], res['events']) is None:
        kind, text = ov.explain(res['initial'], res['events'])
        return 'local:overlap:' + kind, head + text
    if res['left_temps']:
        return 'local:overlap:temp-left-behind', head + f'after all calls returned the temporaries {res["left_temps"][:3]} are still in the repository directory'
    return None


def check_overlap(ctx, case, consts, origin):
    out = ctx.out
    res = ov.run_case(case, ctx.newdir(), suffix=consts['suffix'], stem_len=consts['stem_len'])
    if res['hung']:
        # a call that reaches neither a gate nor its return within ov.WAIT seconds: on a busy machine that can be the machine — once more, with patience
        out.count('overlap:no-progress-within-%ds:case-run-again' % ov.WAIT)
        saved, ov.WAIT = ov.WAIT, 120.0
        try:
            res = ov.run_case(case, ctx.newdir(), suffix=consts['suffix'], stem_len=consts['stem_len'])
        finally:
            ov.WAIT = saved
    st = ov.overlap_stats(case, res, consts['stem_len'])
    shown = dict(case, names=[ov.short_name(n) for n in case['names']], initial={ov.short_name(k): v for k, v in case['initial'].items()},
                 parts=[dict(p, name=ov.short_name(p['name'])) if 'name' in p else p for p in case['parts']], plan=case['plan'][:40], kind='overlap')
    out.case(shown, st['pairs'] >= 1 and len(res['releases']) >= 6)
    out.count('overlap:' + origin)
    out.count('overlap:name-class:' + case['class'])
    out.count('overlap:schedule:' + case['schedule_class'])
    out.count('overlap:root:' + case['root_spelling'])
    out.count('overlap:releases', len(res['releases']))
    out.count('overlap:directory-snapshots', len(res['snaps']))
    for p in case['parts']:
        out.count('overlap:call:' + p['op'])
        if p['op'] == 'upload_stream':
            n, c = p['data']['len'], p['chunk']
            out.count('overlap:stream:' + ('empty' if n == 0 else '1-piece' if n <= c else '2-pieces' if n <= 2 * c else '3+-pieces') + (':chunk>=4096' if c >= 4096 else ':chunk<4096'))
        if 'name' in p and len(os.path.basename(p['name'])) >= consts['stem_len']:
            out.count('overlap:call-on-a-base-name-of-at-least-%d-characters' % consts['stem_len'])
    out.count('overlap:uploads-in-flight-together(pairs)', st['pairs'])
    out.count('overlap:uploads-in-flight-together:to-ONE-name(pairs)', st['same-name'])
    out.count('overlap:uploads-in-flight-together:different-names-agreeing-on-the-first-%d-characters(pairs)' % consts['stem_len'], st['same-stem'])
    out.count('overlap:reader-in-flight-while-an-upload-of-its-name-returned', st['reader-over-rename'])
    if any(w['retried'] for w in res['writers'].values()):
        out.count('overlap:upload-retried-by-the-backend')
    replay = overlap_replay_of(case, res)
    bad = overlap_oracle(case, res)
    if bad is not None:
        out.violation(bad[0], bad[1], replay)
        return False
    # ---- tie: the same schedule on the Lean model, with the temporaries the calls were seen to use
    if ctx.drv is None:
        return True
    req = ov.model_request(case, res, consts['suffix'], consts['stem_len'])
    if req is None:
        out.count('overlap:tie-skipped:an-upload-was-retried')
        return True
    seen = [(i, w) for i, w in sorted(res['writers'].items()) if w['tmp'] is not None and not w.get('shared_seen')]
    treqs = []
    for i, w in seen:
        name = case['parts'][i]['name']
        base, tb = os.path.basename(name), os.path.basename(w['tmp'])
        stem = base[:consts['stem_len']]
        rnd = tb[len(stem) + 1:len(tb) - len(consts['suffix'])] if tb.startswith(stem + '_') and tb.endswith(consts['suffix']) else None
        treqs.append((i, w, rnd, {'op': 'lconc.tempname', 'dir_slash': name[:len(name) - len(base)], 'base': base, 'rnd': rnd or ''}))
    replies = ctx.drv.ask_many([req] + [t[3] for t in treqs])
    m, agreed = replies[0], True
    for (i, w, rnd, _), tm in zip(treqs, replies[1:]):
        out.count('overlap:temporary-seen')
        if rnd is None or tm.get('tmp') != w['tmp'] or not tm.get('is_tmp') or not tm.get('fits'):
            agreed = False
            out.disagreement('local, overlapping calls: the temporary a call was seen to use is not what the model\'s naming rule gives',
                             dict(replay, call=i, seen=w['tmp'], model=tm))
    if 'error' in m:
        out.disagreement('driver error on lconc.run', dict(replay, reply=m))
        return True
    if not m['private']:
        # two calls were seen to use ONE temporary: outside `concurrent_uploads_linearizable` (the path-level model is not what the code does then)
        out.count('overlap:tie-skipped:calls-seen-to-share-a-temporary(outside-the-theorem)')
        return True
    diffs = []
    if not (m['hypotheses'] and m['linearised']):
        diffs.append(('the model\'s run does not satisfy the theorem', {'hypotheses': m['hypotheses'], 'linearised': m['linearised']}))
    for t, s in enumerate(res['snaps']):
        k = s['model_events']
        if k >= len(m['states']):
            diffs.append(('release #%d: the model has no configuration %d' % (t, k), None))
            break
        real = sorted([n, ov.rle(d)] for n, d in s['files'].items())
        if m['states'][k] != real:
            diffs.append(('release #%d: readable files differ' % t, {'model': short(m['states'][k], 400), 'impl': short(real, 400)}))
            break
        if m['temps'][k] != len(s['temps']):
            diffs.append(('release #%d: number of temporaries in the directory differs' % t, {'model': m['temps'][k], 'impl': s['temps']}))
            break
    if res['snaps'] and res['snaps'][-1]['model_events'] != len(m['states']) - 1:
        diffs.append(('the calls made fewer / more file-system steps than their plans have', {'events': res['snaps'][-1]['model_events'], 'model': len(m['states']) - 1}))
    if sorted(m['returned']) != list(range(len(req['calls']))):
        diffs.append(('not every upload has returned in the model', m['returned']))
    if diffs:
        agreed = False
        out.disagreement('local, overlapping calls: model and implementation differ: ' + diffs[0][0], dict(replay, differences=[[a, b] for a, b in diffs[:3]]))
    if agreed:
        out.traces_validated += 1
    return True


def overlap_probes(ctx):
    """Outside the theorems of the overlap section (they count CHARACTERS, for ASCII names): the backend cuts the temporary's name after `Gen.localTempStemLen`
    characters while the file system limits a name to NAME_MAX BYTES.  Recorded as an observation (no oracle, nothing reported)."""
    from replicat.backends.local import Local
    out = ctx.out
    consts = overlap_consts()
    obs = {}
    for label, n in (('non-ascii-base-name-of-%d-bytes' % (2 * (consts['stem_len'] // 2)), 'é' * (consts['stem_len'] // 2)), ('non-ascii-base-name-of-254-bytes', 'é' * 127), ('ascii-base-name-of-255-bytes', 'a' * 255)):
        case = localfs.LocalCase(ctx.newdir())
        try:
            b = Local(case.enter('abs'))
            rets = run_local(b, [{'op': 'upload', 'name': n, 'data': '01'}, {'op': 'exists', 'name': n}])
        finally:
            case.remove()
        out.evaluations += 1
        out.count('overlap:probe:' + label)
        obs['local: upload then exists of a ' + label] = rets
    out.extra['overlap_observations_outside_the_theorems'] = obs


def overlap_stream(ctx, r, n):
    """generated cases of overlapping calls on one local backend object (see the module docstring and `harness/impl/c13_overlap.py`)"""
    consts = overlap_consts()
    try:
        for _ in range(n):
            check_overlap(ctx, ov.gen_case(r, consts['stem_len'], consts['stream_chunk']), consts, 'generated')
    finally:
        ov.drop_pool()


def overlap_sweep(ctx, r, reps):
    """Seed-independent part: every name class × every pairing of upload kinds under the schedule of `shared_temp_witness` (a writer has written and
    not yet renamed when the next starts and writes; the first renames; the observers look; the rest), and every name class one-after-the-other."""
    consts = overlap_consts()
    try:
        for _ in range(reps):
            for cls, _w in ov.NAME_CLASSES:
                for kinds in (['upload_stream', 'upload_stream'], ['upload_stream', 'upload'], ['upload', 'upload_stream'], ['upload_stream', 'upload_stream', 'upload_stream']):
                    check_overlap(ctx, ov.gen_case(r, consts['stem_len'], consts['stream_chunk'], cls=cls, sched='witness', kinds=kinds), consts, 'sweep:witness-schedule')
                check_overlap(ctx, ov.gen_case(r, consts['stem_len'], consts['stream_chunk'], cls=cls, sched='one-after-the-other'), consts, 'sweep:one-after-the-other')
    finally:
        ov.drop_pool()


# ------------------------------------------------------------------------------------------------ entry points
def run(out, drv, info):
    _patch_sleeps()
    _share_default_tls_context()
    _cheap_backoff_log()
    quick = out.tier == 'quick'
    ctx = Ctx(out, drv)
    out.rule = ('history = random operation sequence (upload, upload_stream, delete, exists, download, download_stream, list) over a generated name universe in which no name is '
                'a directory prefix of another (segments from printable ASCII, tricky literals and non-ASCII), run on ONE long-lived object of each of the three real adapters '
                '(page size 1/2/3/1000, B2 token expiry by use count and by age; the repository location spelled per adapter — local: 18 spellings of the path, B2: generated account, '
                'bucket by name or by id, master / restricted key, our bucket listed first / middle / last among decoys, S3: bucket-name classes, endpoint host shapes, http / https, regions — '
                'and for a third of the histories under a second spelling too) under a generated clock schedule (same day / across midnight, month end, '
                'leap day, year end at a chosen operation / inside one call / hours and days apart / client clock off and jittering; the fake S3 checks x-amz-date against its own '
                'clock) and on the Lean models (S3: with the clock readings); non-trivial = ≥ 6 operations, ≥ 2 distinct uploaded names, ≥ 1 listing and ≥ 1 delete; distinct = hash of '
                '(universe, operations, page size, spelling)'
                + '; object-level commands: scenario = initial objects + 2…6 commands of a real Repository (memory backend sync / coroutine, real local backend) run in a worker '
                'process from a scratch working directory: generated file trees, path arguments (directories, files, repeats, overlaps, relative / absolute / dotted spellings, outside the cwd, '
                'missing), prefixes, regular expressions, skip_existing, rate limits (chunk sizes 1…1000 and the default), pre-existing files, confirmation answers, cache directory; '
                'non-trivial = ≥ 2 command kinds, a skip_existing flag and at least one transfer or deletion'
                + '; overlapping calls: case = initial objects + 2…4 uploads (upload_stream with a gated input stream of 0…3 pieces, chunk sizes 1…65536 and the default; upload) and 0…3 '
                'exists / download / download_stream (gated sink) / list_files / delete calls of ONE Local object, run on a thread pool under a schedule that releases one call at a time '
                'to its next read / write (name classes: same name, long siblings agreeing on the first Gen.localTempStemLen characters, long names differing inside that stem, short '
                'siblings, equal base names in two directories, mixed; schedules: the Lean witness\'s, random, one after the other); non-trivial = at least two uploads in flight '
                'together and ≥ 6 releases')
    out.assumptions = ['the fake S3 / B2 services (harness/impl/fake_s3.py, fake_b2.py) follow the published protocols; server-side atomicity of PUT / upload is assumed',
                       'the operating system resolves every spelling of the repository location to the same directory; no symbolic links inside the repository',
                       'B2 location: the connection string is the id or the name of our bucket and of no other bucket of the account (bucket names may look like ids — Lean witness '
                       '`b2_ambiguous_location_witness`, probe); the other buckets of the account are empty; S3-compatible `--host` is written the way httpx sends the Host header '
                       '(lower case, no default port — otherwise the signed host differs from the sent one: recorded as an observation, `location_observations_outside_the_theorems`)',
                       'httpx, pathlib, os.path, xml.etree behave as modelled (validated by the differential runs only)',
                       'object names: non-empty segments, none equal to "." or ".."; local: no name ends in ".tmp" and no name is a directory prefix of another; B2: none of ? # % + \\ in names',
                       'B2 download of a name that is not live is excluded (unbounded re-authentication recursion, D9 / property C12)',
                       'the adapter\'s and the S3 service\'s clocks agree to within the service\'s 15-minute window (outside it every request is refused: compared with the model, no oracle); '
                       'the adapter reads the time through the datetime / time names of its module (otherwise the history runs on the machine clock and is counted as not intercepted)',
                       'object-level commands (upload_objects / download_objects / list_objects / delete_objects): the gather over files / objects is modelled in list order '
                       '(the theorems show the result does not depend on it for distinct names); files to upload lie under the working directory (names of files outside it can collide — '
                       'Lean witness, probe); object names are canonical relative paths, none a directory prefix of another, also with respect to files already in the target / cache '
                       'directory; the local trees do not change during a command; no existing empty directories or symbolic links on the local side; the rate limiter and progress '
                       'wrappers are transparent (C20); the regular expression is handed to the model as its extension on the names of the scenario',
                       'overlapping calls on one local backend object: pre-emption at the reads of the input streams / the writes to the sinks the caller hands over and at call '
                       'boundaries only (exists / download / list_files / delete / upload run in one release); POSIX rename replaces the directory entry atomically and leaves an '
                       'open file of the replaced object readable; all calls of one process (threads of a pool, as the Repository runs the backend) — several processes sharing a '
                       'repository directory are not run; ASCII names of at most NAME_MAX = 255 characters per segment']
    try:
        r = rng_for(out.seed, 'C13')
        main_histories(ctx, r, 220 if quick else 3000, 4 if quick else 40)
        clock_sweep(ctx, rng_for(out.seed, 'C13-clock-sweep'), 2 if quick else 20)
        clock_skew_ties(ctx, rng_for(out.seed, 'C13-clock-skew'), 24 if quick else 400)
        location_sweep(ctx, rng_for(out.seed, 'C13-location-sweep'), 3 if quick else 30)
        location_probes(ctx, rng_for(out.seed, 'C13-location-probes'))
        frontier_probes(ctx, rng_for(out.seed, 'C13-probes'), 3 if quick else 12)
        atomic_upload_observations(ctx, rng_for(out.seed, 'C13-atomic'), 60 if quick else 1500)
        loop_ties(ctx, rng_for(out.seed, 'C13-loops'), 150 if quick else 2500)
        pathlib_ties(ctx, rng_for(out.seed, 'C13-pathlib'), 400 if quick else 6000)
        objcmd_stream(ctx, rng_for(out.seed, 'C13-objcmd'), 300 if quick else 6000)
        overlap_sweep(ctx, rng_for(out.seed, 'C13-overlap-sweep'), 1 if quick else 6)
        overlap_stream(ctx, rng_for(out.seed, 'C13-overlap'), 170 if quick else 2500)
        overlap_probes(ctx)
        sigs = {}
        for v in out.violations:
            sigs[v['sig']] = sigs.get(v['sig'], 0) + 1
        out.extra['oracle_findings_by_sig'] = sigs
    finally:
        shutil.rmtree(WORK / str(os.getpid()), ignore_errors=True)


def replay(path, drv):
    _patch_sleeps()
    _cheap_backoff_log()
    d = json.load(open(path))
    rp = d.get('replay', d)
    kind = rp.get('kind')
    scratch = WORK / str(os.getpid()) / 'c13-replay'
    try:
        if kind in ('history', 'probe'):
            adapter = rp['adapter']
            rc = 0
            runs = [('history', rp['ops'], rp)] + ([('minimised history', rp['minimised']['ops'], rp)] if 'minimised' in rp else [])
            for key in ('b2_location', 's3_location'):       # a finding about two spellings of one location: the history under the second one as well
                if key + '_b' in rp:
                    runs.append(('history under the second spelling of the location', rp['ops'], dict(rp, **{key: rp[key + '_b']})))
            for title, ops, rp in runs:
                if adapter == 's3':
                    if rp.get('s3_location') is not None:
                        lc = rp['s3_location']
                        print(f'replay: S3 location {lc["scheme"]}://{lc["host"]}, bucket {lc["bucket"]!r}, region {lc["region"]}')
                    rets, _ = real_s3(ops, rp.get('page_size', rp.get('ps', 2)), rp.get('s3_variant', 's3c'), rp.get('clock'), location=rp.get('s3_location'))
                elif adapter == 'b2':
                    if rp.get('b2_location') is not None:
                        lc = rp['b2_location']
                        print(f'replay: B2 location -r b2:{locs.b2_ident(lc)} (the bucket\'s {lc["by"]}; bucket {lc["bucket_name"]!r}, id {lc["bucket_id"]}, '
                              f'{"restricted" if lc["restricted"] else "master"} key, {len(lc["before"])} bucket(s) listed before and {len(lc["after"])} after it)')
                    rets, _ = real_b2(ops, rp.get('page_size', rp.get('ps', 2)), rp.get('b2_token_uses'), clock=rp.get('clock'), location=rp.get('b2_location'),
                                      stop_at_deviation=True)
                else:
                    rets, _ = real_local(ops, rp['root_spelling'], scratch)
                m = {}
                exp = [dict_step(m, op) for op in ops]
                got = [strip_req(x) for x in rets]
                i = first_diff(exp, got)
                if i is None:
                    print(f'replay ({title}, {len(ops)} operations): every return value equals the map')
                else:
                    print(f'replay ({title}, {len(ops)} operations): operation #{i} {short(ops[i])}\n  observed {short(got[i])}\n  expected {short(exp[i])}')
                    rc = 1
            return rc
        if kind == 'objcmd':
            import multiprocessing as mp
            from ..impl import objcmd
            with mp.get_context('fork').Pool(1) as pool:
                o = pool.apply(objcmd.run_case_safe, (rp['case'],))
            if 'crash' in o:
                print('replay: scenario crashed:', o['crash'])
                return 2
            bad, _ = objcmd.oracle(rp['case'], o)
            for sig, what in bad:
                print('replay:', sig, '-', what)
            rc = 1 if bad else 0
            if drv is not None:
                diffs = objcmd.compare(rp['case'], o, drv.ask(objcmd.model_request(rp['case'], o)))
                for a, b in diffs:
                    print('replay: model differs from implementation:', a, short(b))
            if not bad:
                print('replay: every command did what the theorems of the object-level commands state')
            return rc
        if kind == 's3loop':
            pages = [(p[0], [tuple(e) for e in p[1]]) for p in rp['pages']]
            real = real_s3_loop(pages, 12)
            expect = {'names': [x for _, el in pages for tag, x in el if tag == 'Key'], 'requests': len(pages)}
            print('replay: observed', real, 'expected', expect)
            return 1 if real != expect else 0
        if kind == 'b2loop':
            pages = [tuple(p) for p in rp['pages']]
            real = real_b2_loop(pages, 12)
            expect = {'names': [f for _, fs, _ in pages for f in fs], 'requests': len(pages)}
            print('replay: observed', real, 'expected', expect)
            return 1 if real != expect else 0
        if kind == 'overlap':
            consts = overlap_consts()
            rc = 0
            for title, schedule in (('the recorded schedule', rp['schedule']),):
                res = ov.run_case(rp['case'], scratch, suffix=consts['suffix'], schedule=schedule, stem_len=consts['stem_len'])
                bad = overlap_oracle(rp['case'], res)
                for i, p in enumerate(rp['case']['parts']):
                    print('replay:', ov.label_of(i, p))
                print(f'replay ({title}, {len(res["releases"])} releases: {res["releases"]}):', (bad[0] + ' — ' + bad[1]) if bad else
                      'linearisable: some order of the calls explains every return value and every state of the directory')
                rc = 1 if bad else rc
            ov.drop_pool()
            return rc
        if kind == 'atomic':
            old, seen, _ = observe_upload(scratch, rp['root_spelling'], rp['prior'], rp['name'], bytes.fromhex(rp['data']), rp.get('stream', False), rp.get('chunk', 1000))
            bad = atomic_oracle(old, seen, rp['name'])
            print('replay:', bad or 'the object reads as the old one until the rename')
            return 1 if bad else 0
    finally:
        shutil.rmtree(WORK / str(os.getpid()), ignore_errors=True)
    print('replay kind not supported:', kind)
    return 2
