"""C13 — all backends behave as the same simple object store.

Tie (correspondence): the REAL adapters `replicat.backends.local.Local`, `s3c.S3Compatible` / `s3.S3`, `b2.B2` are driven through
random histories of upload / upload_stream / delete / exists / download / download_stream / list_files — the local one on a
scratch directory under every spelling of the repository location, the S3 and B2 ones against the in-process fake services of
`harness/impl/fake_s3.py` / `fake_b2.py` (httpx.MockTransport; page sizes 1, 2, 1000; SigV4 verified; B2 token expiry) — and the
compiled Lean models (`store.history` for `spec`, `s3`, `b2`, `local`) run the same history.  Compared, per operation: the
return value (canonical form), per listing the number of list requests the service saw, and at the end the state of the
service / directory tree (files AND directories, B2 version-stack depths).  Also: the two listing loops on hand-made page
sequences (`store.s3loop`, `store.b2loop`; conformant and non-conformant, any element order), and the pathlib / os.path model
(`store.pathlib`).

Direct oracle: the property's own statement — every return value of every real adapter equals what a plain Python dict gives.
Main histories stay inside the region the theorems cover (see `*_ok` below, mirrored from the hypotheses in
Properties/C13.lean); *frontier probes* exercise each excluded input class on the real code and report what they find with a
stable `sig` (these are the forced hypotheses of the `_partial` theorems).
"""
import asyncio
import io
import json
import os
import re
import shutil
import sys
import time

from ..common import LEAN, WORK, REPO, rng_for
from ..impl import fake_b2, fake_s3, localfs

# ------------------------------------------------------------------------------------------------ names
ASCII = ''.join(chr(c) for c in range(0x20, 0x7F) if chr(c) != '/')
NONASCII = 'éüßλж中文😀ñ '
TRICKY = ['...', '.a', 'a.', '..b', 'a b', ' a', 'a ', "q'u", 'd"q', 'amp&', 'l<g>', 'b\\s', 'q?x', 'h#x', 'p%41', 'p%', 'pl+us', '~t', 's*', 'e=q', 'c:l', 's;m',
          'a@t', 'tmp', 'x.tmp2', '.tmpx', 'é', '中文', '😀', 'ß', '-d', '$', '{}', '[', '`', '|', '^', ',', '!', 'Key', '&amp;', ']]>', '%2F', 'a%2Fb']


def segs(n):
    return n.split('/')


def valid_name(n):
    """segments non-empty, none is '.' or '..' (Lean: `ValidName`)"""
    return n != '' and all(s not in ('', '.', '..') for s in segs(n))


def s3_ok(n):
    return valid_name(n)


def b2_ok(n):
    return valid_name(n) and not any(c in '?#%+\\' for c in n)


def local_ok(n):
    return valid_name(n) and not n.endswith('.tmp')


def normal_prefix(p):
    """directory part of the prefix is a normal relative path (Lean: `NormalPrefix`)"""
    ss = segs(p)
    return all(s not in ('', '.', '..') for s in ss[:-1])


def gen_segment(r):
    k = r.random()
    if k < 0.25:
        return r.choice(TRICKY)
    if k < 0.55:
        return ''.join(r.choice('abcdef0123456789') for _ in range(r.randint(1, 4)))
    n = r.randint(1, 6)
    s = ''.join(r.choice(ASCII + NONASCII) if r.random() < 0.6 else r.choice('abx') for _ in range(n))
    return s


def gen_universe(r, alphabet_ok):
    """a name universe in which no name is a directory prefix of another; names share directories and stems"""
    def seg():
        for _ in range(50):
            s = gen_segment(r)
            if s not in ('.', '..') and alphabet_ok(s):
                return s
        return 'z'
    dirs = [[]]
    for _ in range(r.randint(1, 4)):
        base = r.choice(dirs)
        if len(base) < 3:
            dirs.append(base + [seg()])
    stems = [seg() for _ in range(r.randint(1, 3))]
    names = set()
    for _ in range(r.randint(3, 11)):
        d = r.choice(dirs)
        leaf = r.choice(stems) + (seg() if r.random() < 0.6 else '')
        if r.random() < 0.3:
            leaf = seg()
        names.add('/'.join(d + [leaf]))
    # siblings that only share leading characters with a directory name (dir `ab` next to `abc/…`, `ab.idx`): a prefix that names
    # the directory exactly, without a trailing slash, must list them too
    for d in dirs:
        if d and r.random() < 0.5:
            for suffix in r.sample(['c', '.idx', '0', '-old', 'b/' + r.choice(stems)], r.randint(1, 2)):
                cand = '/'.join(d[:-1] + [d[-1] + suffix])
                if alphabet_ok(cand.replace('/', '')):
                    names.add(cand if r.random() < 0.5 or '/' in suffix else cand + '/' + r.choice(stems))
    names = sorted(names)
    # prefix-free: drop every name that is a proper directory prefix of another, or equals a directory in use
    out = [n for n in names if not any(m != n and m.startswith(n + '/') for m in names)]
    return out


def gen_prefixes(r, universe):
    ps = ['']
    for n in universe:
        k = r.randint(0, len(n))
        ps.append(n[:k])
        i = n.rfind('/')
        if i >= 0:
            ps.append(n[:i + 1])
            ps.append(n[:i])
        ps.append(n)
        ps.append(n + 'x')
    ps.append('nosuchdir/')
    ps.append('nosuch')
    return [p for p in ps if normal_prefix(p)]


def gen_payload(r, chunk):
    n = r.choice([0, 1, chunk - 1, chunk, chunk + 1, 2 * chunk, 2 * chunk + 1, 3 * chunk - 1, r.randint(0, 3 * chunk)])
    n = max(0, n)
    return r.randbytes(n)


def gen_history(r, universe, prefixes, n_ops, big):
    ops = []
    live = set()
    for i in range(n_ops):
        k = r.random()
        if universe and i < min(5, n_ops // 3) and not big:
            k = k * 0.36      # histories start with uploads so that listings have something to page through
        if universe and k < 0.24:
            n = r.choice(universe)
            ops.append({'op': 'upload', 'name': n, 'data': gen_payload(r, r.choice([1, 5, 40])).hex()})
            live.add(n)
        elif universe and k < 0.36:
            n = r.choice(universe)
            c = r.choice([1, 7, 1000]) if not big else 128000
            ops.append({'op': 'upload_stream', 'name': n, 'data': gen_payload(r, c).hex(), 'chunk': c})
            live.add(n)
        elif universe and k < 0.48:
            n = r.choice(sorted(live)) if live and r.random() < 0.7 else r.choice(universe)
            ops.append({'op': 'delete', 'name': n})
            live.discard(n)
        elif universe and k < 0.60:
            ops.append({'op': 'exists', 'name': r.choice(universe)})
        elif universe and k < 0.70:
            n = r.choice(sorted(live)) if live and r.random() < 0.8 else r.choice(universe)
            ops.append({'op': 'download', 'name': n})
        elif universe and k < 0.78:
            n = r.choice(sorted(live)) if live and r.random() < 0.8 else r.choice(universe)
            c = r.choice([1, 7, 1000]) if not big else 128000
            sink = r.choice([b'', b'junk', r.randbytes(r.randint(0, 3 * min(c, 3000)))])
            ops.append({'op': 'download_stream', 'name': n, 'chunk': c, 'sink': sink.hex()})
        else:
            dirs = [p for p in prefixes if p.endswith('/')] or ['']
            k2 = r.random()
            ops.append({'op': 'list', 'prefix': '' if k2 < 0.3 else r.choice(dirs) if k2 < 0.55 else r.choice(prefixes)})
    return ops


# ------------------------------------------------------------------------------------------------ the dict model (direct oracle)
def dict_step(m, op):
    o = op['op']
    if o == 'upload' or o == 'upload_stream':
        m[op['name']] = op['data']
        return {'unit': True}
    if o == 'delete':
        m.pop(op['name'], None)
        return {'unit': True}
    if o == 'exists':
        return {'bool': op['name'] in m}
    if o in ('download', 'download_stream'):
        return {'bytes': m[op['name']]} if op['name'] in m else {'error': 'notFound'}
    if o == 'list':
        return {'names': sorted(n for n in m if n.startswith(op['prefix']))}
    raise ValueError(o)


# ------------------------------------------------------------------------------------------------ real adapters
def _patch_sleeps():
    import backoff
    backoff._sync.time.sleep = lambda s: None

    async def _nosleep(s):
        return None
    backoff._async.asyncio.sleep = _nosleep


class Watchdog(BaseException):
    pass


def classify(e):
    import httpx
    if isinstance(e, Watchdog):
        return 'watchdog'
    if isinstance(e, FileNotFoundError):
        return 'notFound'
    if isinstance(e, OSError):
        return 'osError'
    if isinstance(e, httpx.HTTPStatusError):
        c = e.response.status_code
        return 'notFound' if c == 404 else 'forbidden' if c == 403 else 'http:%d' % c
    return 'other:' + type(e).__name__


_loop = None


def loop():
    global _loop
    if _loop is None:
        _loop = asyncio.new_event_loop()
    return _loop


def run_local(backend, ops):
    rets = []
    for op in ops:
        o = op['op']
        try:
            if o == 'upload':
                backend.upload(op['name'], bytes.fromhex(op['data']))
                rets.append({'unit': True})
            elif o == 'upload_stream':
                d = bytes.fromhex(op['data'])
                backend.upload_stream(op['name'], io.BytesIO(d), len(d), chunk_size=op['chunk'])
                rets.append({'unit': True})
            elif o == 'delete':
                backend.delete(op['name'])
                rets.append({'unit': True})
            elif o == 'exists':
                rets.append({'bool': bool(backend.exists(op['name']))})
            elif o == 'download':
                rets.append({'bytes': bytes(backend.download(op['name'])).hex()})
            elif o == 'download_stream':
                s = io.BytesIO(bytes.fromhex(op['sink']))
                backend.download_stream(op['name'], s, chunk_size=op['chunk'])
                rets.append({'bytes': s.getvalue().hex()})
            elif o == 'list':
                rets.append({'names': sorted(backend.list_files(op['prefix'])), 'requests': 0})
        except Exception as e:  # noqa: BLE001
            rets.append({'error': classify(e)})
    return rets


async def _one_async(backend, op, count_list_requests):
    o = op['op']
    if o == 'upload':
        await backend.upload(op['name'], bytes.fromhex(op['data']))
        return {'unit': True}
    if o == 'upload_stream':
        d = bytes.fromhex(op['data'])
        await backend.upload_stream(op['name'], io.BytesIO(d), len(d), chunk_size=op['chunk'])
        return {'unit': True}
    if o == 'delete':
        await backend.delete(op['name'])
        return {'unit': True}
    if o == 'exists':
        return {'bool': bool(await backend.exists(op['name']))}
    if o == 'download':
        return {'bytes': bytes(await backend.download(op['name'])).hex()}
    if o == 'download_stream':
        s = io.BytesIO(bytes.fromhex(op['sink']))
        await backend.download_stream(op['name'], s, chunk_size=op['chunk'])
        return {'bytes': s.getvalue().hex()}
    if o == 'list':
        n0 = count_list_requests()
        names = [x async for x in backend.list_files(op['prefix'])]
        return {'names': sorted(names), 'requests': count_list_requests() - n0}
    raise ValueError(o)


async def run_async(backend, ops, count_list_requests, new_op=lambda: None):
    rets = []
    for op in ops:
        new_op()
        try:
            rets.append(await asyncio.wait_for(_one_async(backend, op, count_list_requests), timeout=60))
        except asyncio.TimeoutError:
            rets.append({'error': 'hang'})
        except (Exception, Watchdog, RecursionError) as e:  # noqa: BLE001
            rets.append({'error': classify(e)})
    try:
        await backend.close()
    except Exception:  # noqa: BLE001
        pass
    return rets


def make_watchdog(limit=60):
    """fault hook: more than `limit` requests to the fake within ONE adapter call = a loop that does not terminate (a listing
    over ≤ 12 pages with re-authentications stays far below).  Returns (fault, reset); reset is called before every call."""
    n = [0]

    def fault(request):
        n[0] += 1
        if n[0] > limit:
            return Watchdog('more than %d requests in one call' % limit)
        return None

    def reset():
        n[0] = 0
    return fault, reset


def real_s3(ops, ps, variant='s3c'):
    from replicat.backends.s3c import S3Compatible
    from replicat.backends.s3 import S3
    if variant == 's3':
        b = S3('bkt', key_id='AKIDEXAMPLE', access_key='wJalrXUtnFEMI/K7MDENG+bPxRfiCYEXAMPLEKEY', region='eu-west-1')
        host = 's3.eu-west-1.amazonaws.com'
    else:
        host = 'objects.fake-s3.test'
        b = S3Compatible('bkt', key_id='AKIDEXAMPLE', access_key='wJalrXUtnFEMI/K7MDENG+bPxRfiCYEXAMPLEKEY', region='eu-west-1', host=host)
    fault, reset = make_watchdog()
    f = fake_s3.FakeS3('bkt', 'AKIDEXAMPLE', 'wJalrXUtnFEMI/K7MDENG+bPxRfiCYEXAMPLEKEY', 'eu-west-1', host, page_size=ps, fault=fault)
    fake_s3.install(b, f)
    rets = loop().run_until_complete(run_async(b, ops, lambda: sum(1 for e in f.log if e['op'] == 'list'), reset))
    return rets, {'state': sorted([k, v.hex()] for k, v in f.objects.items()), 'sig_failures': f.sig_failures, 'requests': len(f.log)}


def real_b2(ops, ps, token_uses=None, restricted=False):
    from replicat.backends.b2 import B2
    b = B2('bkt', key_id='0012ab34cd56ef', application_key='K001secretsecretsecret')
    fault, reset = make_watchdog()
    f = fake_b2.FakeB2('bkt', '0012ab34cd56ef', 'K001secretsecretsecret', page_size=ps, token_uses=token_uses, restricted=restricted,
                       other_buckets=[('f00dfeed', 'other-bucket')], fault=fault)
    fake_b2.install(b, f)
    rets = loop().run_until_complete(run_async(b, ops, lambda: sum(1 for e in f.log if e['api'] == 'b2_list_file_names'), reset))
    return rets, {'state': sorted([k, v.hex()] for k, v in f.live().items()),
                  'versions': sorted([k, len(v)] for k, v in f.versions.items()), 'requests': len(f.log), 'tokens': f.n_tokens}


def real_local(ops, spelling, scratch):
    from replicat.backends.local import Local
    case = localfs.LocalCase(scratch)
    try:
        s = case.enter(spelling)
        try:
            rets = run_local(Local(s), ops)
        finally:
            case.leave()
        files, dirs = case.tree()
        return rets, {'state': sorted([k, v.hex()] for k, v in files.items()), 'dirs': dirs, 'root': s}
    finally:
        case.remove()


def gen_flag(name, default):
    """a Bool / String constant of the regenerated Generated.lean (what the current source says)"""
    try:
        t = (LEAN / 'ReplicatModel' / 'Generated.lean').read_text()
    except OSError:
        return default
    m = re.search(r'def %s : (?:Bool|String) := (true|false|"[^"]*")' % re.escape(name), t)
    if not m:
        return default
    v = m.group(1)
    return v == 'true' if v in ('true', 'false') else v.strip('"')


def root_made_absolute():
    """does Local.__init__ make the repository path absolute (a possible fix of D6)?  Then `self.path` is cwd/<spelling>."""
    return gen_flag('localRootMadeAbsolute', False)


def model_root(spelling):
    """the connection string the model sees: same spelling, with a fixed stand-in for the scratch directory"""
    b = '/w/case'
    s = {'abs': b + '/repo', 'rel': 'repo', 'rel-trailing-slash': 'repo/', 'rel-double-slash': 'repo//', 'dot-rel': './repo',
         'updown': 'x/../repo', 'abs-updown': b + '/x/../repo', 'abs-double-lead': '//' + b.lstrip('/') + '/repo',
         'dot': '.', 'empty': '', 'dot-slash': './'}[spelling]
    if root_made_absolute() and not s.startswith('/'):
        cwd = b + '/repo' if spelling in localfs.DOT_SPELLINGS else b
        return cwd + '/' + s
    return s


# ------------------------------------------------------------------------------------------------ comparison helpers
def strip_req(r):
    return {k: v for k, v in r.items() if k != 'requests'}


def short(x, n=300):
    s = json.dumps(x, ensure_ascii=False)
    return s if len(s) <= n else s[:n] + '…'


def first_diff(a, b):
    for i, (x, y) in enumerate(zip(a, b)):
        if x != y:
            return i
    return None if len(a) == len(b) else min(len(a), len(b))


class Ctx:
    def __init__(self, out, drv):
        self.out, self.drv = out, drv
        self.scratch = WORK / str(os.getpid()) / 'c13'
        self.n = 0

    def newdir(self):
        self.n += 1
        return self.scratch / ('case%05d' % self.n)


def ask_history(drv, adapter, ops, **kw):
    if drv is None:
        return None
    req = {'op': 'store.history', 'adapter': adapter, 'ops': ops}
    req.update(kw)
    return drv.ask(req)


def check_adapter(ctx, label, adapter, ops, real_rets, real_info, model, replay, compare_requests=True):
    """oracle (real vs dict) and tie (real vs Lean adapter model) for one adapter on its sub-history"""
    out = ctx.out
    # ---- direct oracle
    m = {}
    exp = [dict_step(m, op) for op in ops]
    got = [strip_req(r) for r in real_rets]
    i = first_diff(exp, got)
    ok = True
    if i is not None:
        ok = False
        out.violation(f'{adapter}:{ops[i]["op"]}:differs-from-map',
                      f'{label}: operation #{i} {short(ops[i], 160)} returned {short(got[i], 200)}; a plain map returns {short(exp[i], 200)}',
                      dict(replay, adapter=adapter, ops=ops, failing_index=i, expected=exp[i], observed=got[i]))
    exp_state = sorted([k, v] for k, v in m.items())
    if ok and real_info['state'] != exp_state:
        ok = False
        out.violation(f'{adapter}:final-state:differs-from-map', f'{label}: objects held by the service / directory differ from the map after the history',
                      dict(replay, adapter=adapter, ops=ops, expected_state=exp_state[:20], observed_state=real_info['state'][:20]))
    # ---- tie
    if model is not None:
        if 'error' in model:
            out.disagreement(f'driver error on {adapter} history', dict(replay, adapter=adapter, ops=ops, reply=model))
            return ok
        mr = model['rets']
        cmp_real = real_rets if compare_requests else got
        cmp_model = mr if compare_requests else [strip_req(r) for r in mr]
        j = first_diff(cmp_model, cmp_real)
        agreed = True
        if j is not None:
            agreed = False
            out.disagreement(f'{adapter}: model and implementation differ at operation #{j}',
                             dict(replay, adapter=adapter, ops=ops, index=j, op=ops[j] if j < len(ops) else None,
                                  model=cmp_model[j] if j < len(cmp_model) else None, impl=cmp_real[j] if j < len(cmp_real) else None))
        if model['state'] != real_info['state']:
            agreed = False
            out.disagreement(f'{adapter}: final state differs between model and implementation',
                             dict(replay, adapter=adapter, ops=ops, model=model['state'][:20], impl=real_info['state'][:20]))
        if adapter == 'local' and sorted(model.get('dirs', [])) != real_info['dirs']:
            agreed = False
            out.disagreement('local: directories on disk differ from the model', dict(replay, ops=ops, model=model.get('dirs'), impl=real_info['dirs']))
        if adapter == 'b2' and sorted(model.get('versions', [])) != real_info['versions']:
            agreed = False
            out.disagreement('b2: version stacks differ from the model', dict(replay, ops=ops, model=model.get('versions'), impl=real_info['versions']))
        if agreed:
            out.traces_validated += 1
    return ok


# ------------------------------------------------------------------------------------------------ main histories
def quote_via_plus():
    return gen_flag('s3QueryQuoteVia', 'quote_plus') == 'quote_plus'


def main_histories(ctx, r, n_hist, n_big):
    out = ctx.out
    space_breaks_s3_list = quote_via_plus()
    for h in range(n_hist):
        big = h < n_big
        universe = gen_universe(r, lambda s: True)
        prefixes = gen_prefixes(r, universe)
        n_ops = r.randint(4, 10) if big else r.randint(6, 26)
        ops = gen_history(r, universe, prefixes, n_ops, big)
        ps = r.choice([1, 1, 2, 2, 3, 1000])
        spelling = r.choice([s for s in localfs.SPELLINGS if s not in localfs.DOT_SPELLINGS]) if r.random() < 0.8 else r.choice(localfs.DOT_SPELLINGS)
        token_uses = r.choice([None, None, 3, 7, 20])
        s3_variant = r.choice(['s3c', 's3c', 's3'])
        case = {'kind': 'history', 'universe': universe, 'n_ops': len(ops), 'page_size': ps, 'root_spelling': spelling, 'b2_token_uses': token_uses,
                's3_variant': s3_variant, 'ops': [dict(o, data='<%d bytes>' % (len(o['data']) // 2)) if 'data' in o else o for o in ops][:30]}
        replay = {'kind': 'history', 'page_size': ps, 'root_spelling': spelling, 'b2_token_uses': token_uses, 's3_variant': s3_variant}
        # per adapter: the sub-history inside the region its theorems cover
        def sub(name_ok, prefix_ok):
            return [o for o in ops if (name_ok(o['name']) if 'name' in o else prefix_ok(o['prefix']))]
        dot_root = spelling in localfs.DOT_SPELLINGS and not root_made_absolute()
        ops_s3 = sub(s3_ok, lambda p: not (space_breaks_s3_list and ' ' in p))
        ops_b2 = sub(b2_ok, lambda p: True)
        # B2: downloading a name that is not live never returns (D9, property C12: unbounded re-authentication recursion) — keep those out
        live, keep = set(), []
        for o in ops_b2:
            if o['op'] in ('upload', 'upload_stream'):
                live.add(o['name'])
            if o['op'] == 'delete':
                live.discard(o['name'])
            if o['op'] in ('download', 'download_stream') and o['name'] not in live:
                out.count('b2:download-of-missing-name-skipped(D9)')
                continue
            keep.append(o)
        ops_b2 = keep
        ops_local = sub(local_ok, lambda p: not (dot_root and '/' in p))
        n_live = len({o['name'] for o in ops if o['op'] in ('upload', 'upload_stream')})
        lists = [o for o in ops if o['op'] == 'list']
        nontrivial = len(ops) >= 6 and n_live >= 2 and len(lists) >= 1 and any(o['op'] == 'delete' for o in ops)
        out.case(case, nontrivial)
        out.count('page_size:%d' % ps)
        out.count('root:' + spelling)
        out.count('objects:' + ('0-1' if n_live <= 1 else '2-3' if n_live <= 3 else '4-6' if n_live <= 6 else '7+'))
        out.count('b2_token_uses:%s' % token_uses)
        for o in ops:
            out.count('op:' + o['op'])
            if 'data' in o:
                n = len(o['data']) // 2
                c = o.get('chunk')
                out.count('payload:' + ('empty' if n == 0 else '<chunk' if c and n < c else '=chunk' if c and n == c else '>chunk' if c else 'plain'))
        # spec model vs dict (sanity of the executable specification)
        spec = ask_history(ctx.drv, 'spec', ops)
        if spec is not None:
            m = {}
            exp = [dict_step(m, op) for op in ops]
            if 'error' in spec or [strip_req(x) for x in spec['rets']] != exp or spec['state'] != sorted([k, v] for k, v in m.items()):
                out.disagreement('Lean specification (MapStore) differs from the Python dict model', dict(replay, ops=ops, reply=short(spec, 2000)))
        # S3
        rets, info = real_s3(ops_s3, ps, s3_variant)
        if info['sig_failures']:
            out.count('s3:signature-rejected', len(info['sig_failures']))
        out.count('s3:requests', info['requests'])
        for x in rets:
            if 'requests' in x:
                out.count('s3:list-pages:' + ('1' if x['requests'] == 1 else '2' if x['requests'] == 2 else '3' if x['requests'] == 3 else '4+'))
        check_adapter(ctx, 'S3', 's3', ops_s3, rets, info, ask_history(ctx.drv, 's3', ops_s3, ps=ps), replay)
        # B2
        rets, info = real_b2(ops_b2, ps, token_uses, restricted=r.random() < 0.3)
        out.count('b2:requests', info['requests'])
        out.count('b2:authorizations', info['tokens'])
        for x in rets:
            if 'requests' in x:
                out.count('b2:list-pages:' + ('1' if x['requests'] == 1 else '2' if x['requests'] == 2 else '3' if x['requests'] == 3 else '4+'))
        # with expiring tokens a list request may be repeated after re-authentication: compare page counts only without expiry
        check_adapter(ctx, 'B2', 'b2', ops_b2, rets, info, ask_history(ctx.drv, 'b2', ops_b2, ps=ps), replay, compare_requests=token_uses is None)
        # local
        rets, info = real_local(ops_local, spelling, ctx.newdir())
        ok = check_adapter(ctx, 'local (%s)' % spelling, 'local', ops_local, rets, info,
                           ask_history(ctx.drv, 'local', ops_local, root=model_root(spelling)), dict(replay, root=info['root']))
        if ok and any(n.endswith('.tmp') for n, _ in info['state']):
            out.violation('local:temp-left-behind', 'a temporary file is left in the repository directory after the history', dict(replay, adapter='local', ops=ops_local))
        # root spelling independence, directly: the same local sub-history under a second spelling returns the same values
        if h % 3 == 0:
            pool = localfs.DOT_SPELLINGS if dot_root else [s for s in localfs.SPELLINGS if s not in localfs.DOT_SPELLINGS]
            sp2 = r.choice([s for s in pool if s != spelling])
            rets2, info2 = real_local(ops_local, sp2, ctx.newdir())
            out.evaluations += 1
            no_tmp = lambda st: [e for e in st if not e[0].endswith('.tmp')]
            if [strip_req(x) for x in rets2] != [strip_req(x) for x in rets] or no_tmp(info2['state']) != no_tmp(info['state']):
                i = first_diff([strip_req(x) for x in rets], [strip_req(x) for x in rets2])
                out.violation('local:root-spelling-dependence', f'the same history returns different values under root spellings {spelling!r} and {sp2!r} (operation #{i})',
                              dict(replay, adapter='local', ops=ops_local, spelling_b=sp2, index=i))


# ------------------------------------------------------------------------------------------------ frontier probes
def probe(ctx, adapter, label, sig, ops, what, run, model_kw, compare_model=True):
    """run a short history that leaves the proved region; report a deviation from the map with the given sig"""
    out = ctx.out
    rets, info = run(ops)
    m = {}
    exp = [dict_step(m, op) for op in ops]
    got = [strip_req(x) for x in rets]
    i = first_diff(exp, got)
    out.evaluations += 1
    out.count('probe:' + label)
    if i is not None:
        out.violation(sig, f'{what}: operation #{i} {short(ops[i], 160)} returned {short(got[i], 160)}; a plain map returns {short(exp[i], 160)}',
                      {'kind': 'probe', 'label': label, 'adapter': adapter, 'ops': ops, 'failing_index': i, 'expected': exp[i], 'observed': got[i], **model_kw})
    if ctx.drv is not None and compare_model:
        model = ask_history(ctx.drv, adapter, ops, **{k: v for k, v in model_kw.items() if k in ('ps', 'root')})
        mr = [strip_req(x) for x in model.get('rets', [])]
        if 'error' in model:
            out.disagreement('driver error on probe ' + label, {'ops': ops, 'reply': model})
        elif any(x.get('error') == 'unmodelled' for x in mr):
            out.count('probe-unmodelled:' + label)
        elif mr != got:
            j = first_diff(mr, got)
            out.disagreement(f'probe {label}: the model does not predict what the implementation does at operation #{j}',
                             {'kind': 'probe', 'label': label, 'adapter': adapter, 'ops': ops, 'model': mr[j] if j is not None and j < len(mr) else None,
                              'impl': got[j] if j is not None and j < len(got) else None, **model_kw})
        else:
            out.traces_validated += 1
    return i


def frontier_probes(ctx, r, reps):
    up = lambda n, d=b'x': {'op': 'upload', 'name': n, 'data': d.hex()}
    for k in range(reps):
        a, b, c = (''.join(r.choice('abcdefgh') for _ in range(r.randint(2, 4))) for _ in range(3))
        # D6: repository spelled '.', '' or './' and a prefix with a directory part
        sp = localfs.DOT_SPELLINGS[k % len(localfs.DOT_SPELLINGS)]
        ops = [up(f'{a}/{b}/{c}'), up('top'), {'op': 'list', 'prefix': ''}, {'op': 'list', 'prefix': a[:1]}, {'op': 'list', 'prefix': f'{a}/'}]
        probe(ctx, 'local', 'local-root-dot-list-dir-prefix', 'local:list:root-dot-loses-leading-chars',
              ops, f'local backend with repository location {localfs.LocalCase("/x").spelling(sp)[1]!r}',
              lambda o, sp=sp: real_local(o, sp, ctx.newdir()), {'root': model_root(sp), 'root_spelling': sp})
        # D7: names ending in '.tmp'
        sp = r.choice([s for s in localfs.SPELLINGS if s not in localfs.DOT_SPELLINGS])
        ops = [up(f'{a}/{b}.tmp'), up(f'{a}/{c}'), {'op': 'exists', 'name': f'{a}/{b}.tmp'}, {'op': 'list', 'prefix': f'{a}/'}]
        probe(ctx, 'local', 'local-name-ending-.tmp', 'local:list:hides-names-ending-.tmp', ops, 'local backend, object name ending in .tmp',
              lambda o, sp=sp: real_local(o, sp, ctx.newdir()), {'root': model_root(sp), 'root_spelling': sp})
        # prefixes whose directory part is not a normal relative path
        for pfx in (f'{a}//', f'./{a}/', f'{a}/./'):
            ops = [up(f'{a}/{b}'), {'op': 'list', 'prefix': pfx}]
            probe(ctx, 'local', 'local-prefix-not-normal', 'local:list:prefix-not-normalised', ops, 'local backend, prefix with an empty or "." directory segment',
                  lambda o, sp=sp: real_local(o, sp, ctx.newdir()), {'root': model_root(sp), 'root_spelling': sp})
        # D8: names with '.' / '..' segments
        for dn in (f'{a}/./{b}', f'{a}/../{b}'):
            ops = [up(dn), {'op': 'exists', 'name': dn}, {'op': 'list', 'prefix': ''}]
            probe(ctx, 's3', 's3-name-dot-segment', 's3:name-dot-segment:rejected', ops, 'S3 backend, object name with a dot segment',
                  lambda o: real_s3(o, 2), {'ps': 2})
            probe(ctx, 'b2', 'b2-name-dot-segment', 'b2:name-dot-segment:wrong-object', ops, 'B2 backend, object name with a dot segment',
                  lambda o: real_b2(o, 2), {'ps': 2})
            probe(ctx, 'local', 'local-name-dot-segment', 'local:name-dot-segment:aliased', ops, 'local backend, object name with a dot segment',
                  lambda o, sp=sp: real_local(o, sp, ctx.newdir()), {'root': model_root(sp), 'root_spelling': sp})
        # D8: B2 puts the raw name into the download URL
        for ch in '?#%+':
            n = f'{a}{ch}41{b}'
            ops = [up(n), {'op': 'list', 'prefix': a}, {'op': 'exists', 'name': n}]
            probe(ctx, 'b2', 'b2-name-url-metachar', 'b2:name-url-metachar:wrong-object', ops, f'B2 backend, object name containing {ch!r}',
                  lambda o: real_b2(o, 2), {'ps': 2})
        # D10 seen from C13: a list prefix with a space is signed as '+'
        ops = [up(f'{a} {b}'), {'op': 'exists', 'name': f'{a} {b}'}, {'op': 'list', 'prefix': f'{a} '}]
        probe(ctx, 's3', 's3-list-prefix-space', 's3:query-space-signed-as-plus', ops, 'S3 backend, list prefix containing a space (service verifies SigV4)',
              lambda o: real_s3(o, 2), {'ps': 2}, compare_model=False)


# ------------------------------------------------------------------------------------------------ atomic replacement, observed at the rename
def observe_upload(scratch, spelling, prior, name, data, stream, chunk):
    """run `prior` uploads, then one upload of `name` with a spy on pathlib.Path.replace; returns (old map, seen, tree afterwards)"""
    import pathlib
    from replicat.backends.local import Local
    case = localfs.LocalCase(scratch)
    seen = {}
    try:
        s = case.enter(spelling)
        b = Local(s)
        old = {}
        for o in prior:
            b.upload(o['name'], bytes.fromhex(o['data']))
            old[o['name']] = o['data']
        orig = pathlib.Path.replace

        def spy(self, target, _orig=orig):
            pathlib.Path.replace = _orig          # observe with the unpatched method
            try:
                seen['tree'] = case.tree()[0]
                seen['exists'] = b.exists(name)
                seen['listed'] = sorted(b.list_files(''))
                seen['old'] = b.download(name).hex() if seen['exists'] else None
                seen['temp'] = os.path.basename(str(self))
            finally:
                pathlib.Path.replace = spy
            return _orig(self, target)
        pathlib.Path.replace = spy
        try:
            if stream:
                b.upload_stream(name, io.BytesIO(data), len(data), chunk_size=chunk)
            else:
                b.upload(name, data)
        finally:
            pathlib.Path.replace = orig
        return old, seen, case.tree()[0]
    finally:
        case.remove()


def atomic_oracle(old, seen, name):
    """None if fine, else (sig, what)"""
    if 'tree' not in seen:
        return 'local:upload:no-rename', 'the upload did not go through a rename of a temporary file'
    if seen['exists'] != (name in old) or seen['old'] != old.get(name) or seen['listed'] != sorted(old):
        return ('local:upload:intermediate-state-visible',
                f'right before the rename the object {name!r} reads exists={seen["exists"]}, listing={seen["listed"]}; before the upload it was '
                f'exists={name in old}, listing={sorted(old)}')
    return None


def atomic_upload_observations(ctx, r, n):
    """Every local upload goes through a temporary file and a rename.  The directory tree is observed right before the rename
    (spy on pathlib.Path.replace) and right after the call; both must be what the model's `uploadState` says (k = 3, 4), and
    through the adapter's own exists / download / list_files the object must read as the OLD one until the rename."""
    out = ctx.out
    for _ in range(n):
        universe = [u for u in gen_universe(r, lambda s: True) if local_ok(u)]
        if not universe:
            continue
        prior = [{'op': 'upload', 'name': r.choice(universe), 'data': r.randbytes(r.randint(0, 9)).hex()} for _ in range(r.randint(0, 4))]
        name = r.choice(universe)
        stream = r.random() < 0.4
        chunk = r.choice([1, 1000])
        data = r.randbytes(r.choice([0, 1, 7, 2000]))
        spelling = r.choice([s for s in localfs.SPELLINGS if s not in localfs.DOT_SPELLINGS])
        old, seen, after = observe_upload(ctx.newdir(), spelling, prior, name, data, stream, chunk)
        out.evaluations += 1
        out.count('atomic-upload:' + ('overwrite' if name in old else 'new') + (':stream' if stream else ''))
        replay = {'kind': 'atomic', 'prior': prior, 'name': name, 'data': data.hex(), 'root_spelling': spelling, 'stream': stream, 'chunk': chunk}
        bad = atomic_oracle(old, seen, name)
        if bad is not None:
            out.violation(bad[0], bad[1], dict(replay, observed={k: v for k, v in seen.items() if k != 'tree'}))
            continue
        if ctx.drv is not None:
            leaf = name.rsplit('/', 1)[-1][:240]
            rnd = seen['temp'][len(leaf) + 1:-4] if seen['temp'].startswith(leaf + '_') and seen['temp'].endswith('.tmp') else None
            m = ctx.drv.ask({'op': 'store.upload_states', 'root': model_root(spelling), 'ops': prior, 'name': name, 'data': data.hex(), 'rnd': rnd or ''})
            before = sorted([k, v.hex()] for k, v in seen['tree'].items())
            final = sorted([k, v.hex()] for k, v in after.items())
            if rnd is None or 'error' in m or m['states'][3] != before or m['states'][4] != final:
                out.disagreement('local upload: the directory tree at the rename / after the call differs from the model\'s upload states',
                                 dict(replay, temp=seen['temp'], model=short(m, 1500), before=before[:10], after=final[:10]))
            else:
                out.traces_validated += 1


# ------------------------------------------------------------------------------------------------ listing loops on hand-made pages
def xml_page(elems):
    from xml.sax.saxutils import escape
    body = []
    for tag, text in elems:
        if tag == 'Key':
            body.append('<Contents><Key>%s</Key><Size>1</Size></Contents>' % escape(text))
        else:
            body.append('<%s>%s</%s>' % (tag, escape(text), tag))
    return ('<?xml version="1.0" encoding="UTF-8"?><ListBucketResult xmlns="http://s3.amazonaws.com/doc/2006-03-01/">' + ''.join(body) + '</ListBucketResult>').encode()


def page_events(elems):
    """(tag, text) in the order XMLPullParser reports element ends"""
    ev = []
    for tag, text in elems:
        if tag == 'Key':
            ev += [['Key', text], ['Size', '1'], ['Contents', '']]
        else:
            ev.append([tag, text])
    return ev + [['ListBucketResult', '']]


def gen_s3_pages(r):
    keys = ['k%02d%s' % (i, r.choice(['', 'é', '&<', ' x'])) for i in range(r.randint(0, 7))]
    style = r.choice(['conformant', 'conformant', 'conformant', 'no-token', 'odd-text', 'stale-token', 'cycle'])
    cuts = sorted(r.sample(range(len(keys) + 1), min(len(keys) + 1, r.randint(0, 3))))
    parts, prev = [], 0
    for c in cuts + [len(keys)]:
        parts.append(keys[prev:c])
        prev = c
    pages = []
    tok = None
    for i, part in enumerate(parts):
        last = i == len(parts) - 1
        nxt = None if last else 'tok+%d/=' % (i + 1)
        el = [('Key', k) for k in part]
        tr = ('IsTruncated', 'false' if last else 'true')
        if style == 'odd-text' and last:
            tr = ('IsTruncated', r.choice(['False', 'FALSE', ' false', '0', 'false ']))
        extra = [('Name', 'bkt'), ('Prefix', ''), ('KeyCount', str(len(part))), ('MaxKeys', '1000')]
        el = el + [tr] + r.sample(extra, r.randint(0, len(extra)))
        if nxt is not None and not (style == 'no-token' and i == 0):
            el.append(('NextContinuationToken', nxt if not (style == 'cycle' and i == len(parts) - 2) else 'tok+1/='))
        if last and style == 'stale-token':
            el.append(('NextContinuationToken', 'tok+1/='))
        r.shuffle(el)
        pages.append((tok, el))
        tok = nxt
    return style, pages


def real_s3_loop(pages, limit):
    import httpx
    from replicat.backends.s3c import S3Compatible
    table = {t: xml_page(el) for t, el in pages}
    n = [0]

    def handler(request):
        n[0] += 1
        if n[0] > limit:
            raise Watchdog()
        q = dict(fake_s3.FakeS3.parse_query(request.url.raw_path.partition(b'?')[2].decode()))
        t = q.get('continuation-token')
        body = table.get(t, xml_page([]))
        return httpx.Response(200, content=body)
    b = S3Compatible('bkt', key_id='k', access_key='s', region='r', host='h.test')
    b._client = httpx.AsyncClient(transport=httpx.MockTransport(handler), timeout=None, event_hooks=b._client.event_hooks)

    async def go():
        try:
            return {'names': [x async for x in b.list_files('')], 'requests': n[0]}
        except Watchdog:
            return {'fuel': True}
        finally:
            await b.close()
    return loop().run_until_complete(go())


def gen_b2_pages(r):
    names = ['n%02d%s' % (i, r.choice(['', 'é', ' x'])) for i in range(r.randint(0, 7))]
    style = r.choice(['conformant', 'conformant', 'conformant', 'cycle', 'empty-pages'])
    cuts = sorted(r.sample(range(len(names) + 1), min(len(names) + 1, r.randint(0, 3))))
    if style == 'empty-pages':
        cuts = sorted(cuts + cuts)
    parts, prev = [], 0
    for c in cuts + [len(names)]:
        parts.append(names[prev:c])
        prev = c
    pages, start = [], None
    for i, part in enumerate(parts):
        last = i == len(parts) - 1
        nxt = None if last else 'start-%d' % (i + 1)
        if style == 'cycle' and last and len(parts) > 1:
            nxt = 'start-1'
        pages.append((start, part, nxt))
        start = nxt
    return style, pages


def real_b2_loop(pages, limit):
    import httpx
    from replicat.backends.b2 import B2
    table = {s: (files, nxt) for s, files, nxt in pages}
    n = [0]

    def handler(request):
        url = str(request.url)
        if url.endswith('b2_authorize_account'):
            return httpx.Response(200, json={'accountId': 'a', 'authorizationToken': 't', 'apiUrl': 'https://api.test', 'downloadUrl': 'https://dl.test',
                                             'allowed': {'bucketId': 'bid', 'bucketName': 'bkt'}})
        if url.endswith('b2_list_file_names'):
            n[0] += 1
            if n[0] > limit:
                raise Watchdog()
            p = json.loads(request.content)
            files, nxt = table.get(p.get('startFileName'), ([], None))
            return httpx.Response(200, json={'files': [{'fileName': f, 'action': 'upload'} for f in files], 'nextFileName': nxt})
        return httpx.Response(404, json={'code': 'not_found'})
    b = B2('bkt', key_id='k', application_key='s')
    b._client = httpx.AsyncClient(transport=httpx.MockTransport(handler), timeout=None, event_hooks=b._client.event_hooks)

    async def go():
        try:
            return {'names': [x async for x in b.list_files('')], 'requests': n[0]}
        except Watchdog:
            return {'fuel': True}
        finally:
            await b.close()
    return loop().run_until_complete(go())


def loop_ties(ctx, r, n):
    out = ctx.out
    fuel = 12
    for _ in range(n):
        style, pages = gen_s3_pages(r)
        real = real_s3_loop(pages, fuel)
        out.evaluations += 1
        out.count('s3loop:' + style)
        all_keys = [t for _, el in pages for tag, t in el if tag == 'Key']
        if style == 'conformant' and real != {'names': all_keys, 'requests': len(pages)}:
            out.violation('s3:list:paging-incomplete', f'conformant page sequence {short(pages, 300)}: the adapter returned {short(real)}; the service holds {all_keys}',
                          {'kind': 's3loop', 'pages': pages, 'observed': real})
        if ctx.drv is not None:
            m = ctx.drv.ask({'op': 'store.s3loop', 'fuel': fuel, 'pages': [[t, page_events(el)] for t, el in pages]})
            if m != real:
                out.disagreement('S3 listing loop: model and implementation differ on a hand-made page sequence', {'kind': 's3loop', 'style': style, 'pages': pages, 'model': m, 'impl': real})
            else:
                out.traces_validated += 1
        style, pages = gen_b2_pages(r)
        real = real_b2_loop(pages, fuel)
        out.evaluations += 1
        out.count('b2loop:' + style)
        all_names = [f for _, fs, _ in pages for f in fs]
        if style in ('conformant', 'empty-pages') and real != {'names': all_names, 'requests': len(pages)}:
            out.violation('b2:list:paging-incomplete', f'conformant page sequence {short(pages, 300)}: the adapter returned {short(real)}',
                          {'kind': 'b2loop', 'pages': pages, 'observed': real})
        if ctx.drv is not None:
            m = ctx.drv.ask({'op': 'store.b2loop', 'fuel': fuel, 'pages': [[s, fs, nx] for s, fs, nx in pages]})
            if m != real:
                out.disagreement('B2 listing loop: model and implementation differ on a hand-made page sequence', {'kind': 'b2loop', 'style': style, 'pages': pages, 'model': m, 'impl': real})
            else:
                out.traces_validated += 1


# ------------------------------------------------------------------------------------------------ pathlib / os.path model
def pathlib_ties(ctx, r, n):
    from pathlib import PurePosixPath
    out = ctx.out
    if ctx.drv is None:
        return
    cases = [('', ''), ('.', 'data'), ('', 'data/'), ('/', 'a'), ('//', 'a'), ('///', 'a'), ('//x', ''), ('x/..', 'a/b'), ('x/', '/abs'), ('./', './a//b/')]
    while len(cases) < n:
        cases.append((''.join(r.choice('//..abé') for _ in range(r.randint(0, 7))), ''.join(r.choice('//..abé') for _ in range(r.randint(0, 7)))))
    replies = ctx.drv.ask_many([{'op': 'store.pathlib', 'root': a, 'rel': b} for a, b in cases])
    for (a, b), m in zip(cases, replies):
        p = PurePosixPath(a)
        real = {'str': str(p), 'joined': str(p / b), 'split': list(os.path.split(b)), 'parts': [x for x in p.parts if x != p.anchor]}
        out.evaluations += 1
        if m != real:
            out.disagreement('pathlib / os.path model differs from Python', {'kind': 'pathlib', 'root': a, 'rel': b, 'model': m, 'impl': real})
        else:
            out.traces_validated += 1
    out.count('pathlib-cases', len(cases))


# ------------------------------------------------------------------------------------------------ entry points
def run(out, drv, info):
    _patch_sleeps()
    quick = out.tier == 'quick'
    ctx = Ctx(out, drv)
    out.rule = ('history = random operation sequence (upload, upload_stream, delete, exists, download, download_stream, list) over a generated name universe in which no name is '
                'a directory prefix of another (segments from printable ASCII, tricky literals and non-ASCII), run on the three real adapters (page size 1/2/3/1000, every '
                'root spelling, B2 token expiry) and on the Lean models; non-trivial = ≥ 6 operations, ≥ 2 distinct uploaded names, ≥ 1 listing and ≥ 1 delete; distinct = hash of '
                '(universe, operations, page size, spelling)')
    out.assumptions = ['the fake S3 / B2 services (harness/impl/fake_s3.py, fake_b2.py) follow the published protocols; server-side atomicity of PUT / upload is assumed',
                       'the operating system resolves every spelling of the repository location to the same directory; no symbolic links inside the repository',
                       'httpx, pathlib, os.path, xml.etree behave as modelled (validated by the differential runs only)',
                       'object names: non-empty segments, none equal to "." or ".."; local: no name ends in ".tmp" and no name is a directory prefix of another; B2: none of ? # % + \\ in names',
                       'B2 download of a name that is not live is excluded (unbounded re-authentication recursion, D9 / property C12)']
    try:
        r = rng_for(out.seed, 'C13')
        main_histories(ctx, r, 220 if quick else 3000, 4 if quick else 40)
        frontier_probes(ctx, rng_for(out.seed, 'C13-probes'), 3 if quick else 12)
        atomic_upload_observations(ctx, rng_for(out.seed, 'C13-atomic'), 60 if quick else 1500)
        loop_ties(ctx, rng_for(out.seed, 'C13-loops'), 150 if quick else 2500)
        pathlib_ties(ctx, rng_for(out.seed, 'C13-pathlib'), 400 if quick else 6000)
        sigs = {}
        for v in out.violations:
            sigs[v['sig']] = sigs.get(v['sig'], 0) + 1
        out.extra['oracle_findings_by_sig'] = sigs
    finally:
        shutil.rmtree(WORK / str(os.getpid()), ignore_errors=True)


def replay(path, drv):
    _patch_sleeps()
    d = json.load(open(path))
    rp = d.get('replay', d)
    kind = rp.get('kind')
    scratch = WORK / str(os.getpid()) / 'c13-replay'
    try:
        if kind in ('history', 'probe'):
            ops, adapter = rp['ops'], rp['adapter']
            if adapter == 's3':
                rets, _ = real_s3(ops, rp.get('page_size', rp.get('ps', 2)), rp.get('s3_variant', 's3c'))
            elif adapter == 'b2':
                rets, _ = real_b2(ops, rp.get('page_size', rp.get('ps', 2)), rp.get('b2_token_uses'))
            else:
                rets, _ = real_local(ops, rp['root_spelling'], scratch)
            m = {}
            exp = [dict_step(m, op) for op in ops]
            got = [strip_req(x) for x in rets]
            i = first_diff(exp, got)
            if i is None:
                print('replay: every return value equals the map')
                return 0
            print(f'replay: operation #{i} {short(ops[i])}\n  observed {short(got[i])}\n  expected {short(exp[i])}')
            return 1
        if kind == 's3loop':
            pages = [(p[0], [tuple(e) for e in p[1]]) for p in rp['pages']]
            real = real_s3_loop(pages, 12)
            expect = {'names': [x for _, el in pages for tag, x in el if tag == 'Key'], 'requests': len(pages)}
            print('replay: observed', real, 'expected', expect)
            return 1 if real != expect else 0
        if kind == 'b2loop':
            pages = [tuple(p) for p in rp['pages']]
            real = real_b2_loop(pages, 12)
            expect = {'names': [f for _, fs, _ in pages for f in fs], 'requests': len(pages)}
            print('replay: observed', real, 'expected', expect)
            return 1 if real != expect else 0
        if kind == 'atomic':
            old, seen, _ = observe_upload(scratch, rp['root_spelling'], rp['prior'], rp['name'], bytes.fromhex(rp['data']), rp.get('stream', False), rp.get('chunk', 1000))
            bad = atomic_oracle(old, seen, rp['name'])
            print('replay:', bad or 'the object reads as the old one until the rename')
            return 1 if bad else 0
    finally:
        shutil.rmtree(WORK / str(os.getpid()), ignore_errors=True)
    print('replay kind not supported:', kind)
    return 2
