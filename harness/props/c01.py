"""C01 — backup round trip is the identity on file trees.

Tie: the REAL Repository (memory backend, sync or coroutine flavour, real adapters, chunker rebuilt from source) snapshots a
generated tree through generated path arguments and restores it into a pre-populated target.  Compared with the Lean model:
  * `layout.flatten`   — `_flatten_resolve_paths` (what each argument expands to → the streamed file list, each path once)
  * `layout.records`   — stream layout (sort by (size, path), padding), chunk→file attribution for the chunk lengths the real
                         chunker produced, under a random completion order: per-file references (incl. zero-length ones),
                         tiling, sizes, which files have a record
  * `restore.apply`    — the restore plan + `_write_file_part` + final length on the real chunk contents and the real
                         pre-existing target content, under a random write order
Direct oracle: restored tree == expected tree (bytes, mtime_ns, set of paths; untouched bystanders), computed by an
independent walk of the arguments.

Second case family (`run_content_case`, recipes from `impl/c01_content.py`): CONTENT CLASSES × WHAT ALREADY EXISTS AT THE TARGET —
files made of long runs of one byte (zeros, 0xFF, …), sparse-looking and periodic files whose run / part lengths lie just below,
at and above every integer constant of replicat/repository.py (and the platform's block sizes), chunked so that parts of exactly
those lengths reach `_write_file_part`, restored over targets that already hold DIFFERENT bytes in those ranges (all-ones,
inverted, … equally long / longer / shorter), at every concurrency.  Same tie (`layout.records`, `restore.apply`) and the same
oracle; the proof side is `C01.write_part_unconditional` over the extracted operation list of `_write_file_part`.
"""
import contextlib
import dataclasses
import json
import multiprocessing as mp
import os
import stat
from pathlib import Path

from ..common import rng_for, digest
from ..impl import runner as R
from ..impl import c01_content as CC

PARAMS = [(8, 32), (16, 64), (5, 12), (32, 128), (13, 50), (4, 4), (1, 10), (64, 256)]
# incl. names that are not in Unicode normal form C (decomposed accents, singleton-decomposable characters) and a pair differing only by normalisation
NAMES = ['cafe\u0301.txt', 'caf\u00e9.txt', '10\u212b.dat', 'a', 'a.bak', 'b.bin', 'b.bin.old', 'ünï', 'dir with space', '-dash', 'x.tmp', 'new\nline', 'z' * 40, '日本', b'\xff\xfe'.decode('utf-8', 'surrogateescape'), 'c', 'd', 'e0', 'e1']


def gen_config(r):
    enc = r.random() < 0.6
    cipher = None
    if enc:
        cipher = r.choice([None, {'name': 'aes_gcm', 'key_bits': 128}, {'name': 'aes_gcm', 'key_bits': 192}, {'name': 'aes_gcm', 'key_bits': 256},
                           {'name': 'chacha20_poly1305'}])
    hashing = r.choice([None, {'name': 'blake2b', 'length': r.choice([16, 32, 48, 64])}, {'name': 'sha2', 'bits': r.choice([224, 256, 384, 512])},
                        {'name': 'sha3', 'bits': r.choice([224, 256, 512])}])
    mn, mx = r.choice(PARAMS)
    return {'encrypted': enc, 'cipher': cipher, 'hashing': hashing, 'chunking': {'name': 'gclmulchunker', 'min_length': mn, 'max_length': mx},
            'concurrent': r.choice([1, 1, 2, 3, 5, 8]), 'async_backend': r.random() < 0.35}


def gen_size(r, mn, mx):
    base = r.choice([0, 0, 1, 3, 4, 5, mn - 1, mn, mn + 1, mx - 1, mx, mx + 1, 2 * mx - 1, 2 * mx, 2 * mx + 1, mx + mn, mx + mn + 9, 3 * mx + 2, 7 * mx + 5])
    return max(0, base + r.choice([0, 0, 0, 1, 2, 3, -1]))


def gen_tree(r, cfg, only_empty=False):
    mn, mx = cfg['chunking']['min_length'], cfg['chunking']['max_length']
    n = r.choice([0, 1, 1, 2, 3, 4, 6, 9])
    files = {}
    pool = [r.randbytes(6 * mx + 40), bytes(6 * mx + 40), (r.randbytes(r.choice([1, 4, 7])) * (6 * mx + 40))[:6 * mx + 40]]
    dirs = ['', '', 'sub', 'sub/deep', 'other', 'sub-old', 'sub-old']
    names = list(NAMES)
    r.shuffle(names)
    for k in range(n):
        d = r.choice(dirs)
        rel = (d + '/' if d else '') + names[k % len(names)] + (str(k) if k >= len(names) else '')
        size = 0 if only_empty else gen_size(r, mn, mx)
        style = r.random()
        if style < 0.5:
            data = r.randbytes(size)
        elif style < 0.8:
            src = r.choice(pool)
            off = r.choice([0, 0, 4, 1, mx])
            data = src[off:off + size]
        else:
            data = bytes(size)
        files[rel] = (data, 10 ** 18 + r.randrange(0, 10 ** 15))
        if r.random() < 0.1:      # boundary time stamps: the epoch itself, below one second, exactly one second, 2038, beyond 32 bits
            files[rel] = (data, r.choice([0, 0, 1, 999_999_999, 10 ** 9, (2 ** 31 - 1) * 10 ** 9, 2 ** 31 * 10 ** 9 + 5, 2 ** 32 * 10 ** 9 + 1]))
    return files


def expected_records(args):
    """Independent walk: which paths must be recorded (path string → (bytes, mtime_ns)); mirrors the documented behaviour:
    top-level arguments are resolved; inside a directory symlinks are followed and files are recorded under the path by which
    they were reached."""
    out = {}
    for a in args:
        root = os.path.realpath(a)
        if os.path.isdir(root):
            for d, dirs, fs in os.walk(root, followlinks=True):
                for f in fs:
                    p = os.path.join(d, f)
                    if os.path.isfile(p):
                        out.setdefault(p, None)
        elif os.path.isfile(root):
            out.setdefault(root, None)
    for p in out:
        with open(p, 'rb') as fh:
            out[p] = (fh.read(), os.stat(p).st_mtime_ns)
    return out


class _PastFailed(Exception):
    pass


class RecChunker:
    def __init__(self, inner):
        self.inner = inner
        self.alignment = inner.alignment
        self.chunks = []
        self.pieces = []

    def __call__(self, it, *, params=None):
        def tap():
            for p in it:
                self.pieces.append(len(p))
                yield p
        for c in self.inner(tap(), params=params):
            self.chunks.append(bytes(c))
            yield c

    def __getattr__(self, n):
        return getattr(self.inner, n)


def cps(s):
    return [ord(ch) for ch in s]


def run_case(arg):
    seed, idx, tier = arg
    from .. import common
    common.use_rebuilt_chunker()
    r = rng_for(seed, 'C01', idx)
    R.PERSISTENT_LOOP = None
    cfg = gen_config(r)
    only_empty = r.random() < 0.06
    res = {'idx': idx, 'cfg': {k: v for k, v in cfg.items()}, 'violations': [], 'model': [], 'notes': {}}
    with R.Scratch(f'c01_{idx}') as sc:
        src, tgt = sc.dir('src'), sc.dir('tgt')
        tree = gen_tree(r, cfg, only_empty)
        R.write_tree(src, tree)
        rels = sorted(tree)
        # symlinks inside the tree (file links), and a top-level link to a directory
        links = 0
        if rels and r.random() < 0.35:
            t = r.choice(rels)
            ln = src / ('lnk_%d' % idx)
            os.symlink(src / t, ln)
            links += 1
        toplink = None
        if (src / 'sub').is_dir() and r.random() < 0.3:
            toplink = sc.root / 'toplink'
            os.symlink(src / 'sub', toplink)
        # path arguments: repeats / overlaps / single files / links
        args = [src]
        for _ in range(r.choice([0, 0, 1, 2, 3])):
            k = r.random()
            if k < 0.3:
                args.append(src)
            elif k < 0.6 and rels:
                args.append(src / r.choice(rels))
            elif k < 0.8 and (src / 'sub').is_dir():
                args.append(src / 'sub')
            elif toplink is not None:
                args.append(toplink)
        if r.random() < 0.2 and rels:
            args = [src / x for x in r.sample(rels, min(len(rels), r.choice([1, 2, 3])))]
            if r.random() < 0.5 and args:
                args.append(args[0])
        # sibling arguments whose names share a prefix (photos / photos-2021, notes.txt / notes.txt.bak)
        if r.random() < 0.3:
            sib = [src / x for x in ('sub', 'sub-old') if (src / x).is_dir()]
            sib += [src / x for x in rels if any(y != x and y.startswith(x) and os.path.dirname(y) == os.path.dirname(x) for y in rels)]
            sib += [src / y for y in rels if any(y != x and y.startswith(x) and os.path.dirname(y) == os.path.dirname(x) for x in rels)]
            if len(sib) >= 2:
                args = sib if r.random() < 0.6 else args + sib
        r.shuffle(args)
        exp = expected_records([str(a) for a in args])
        backend = R.AsyncMemBackend() if cfg['async_backend'] else R.MemBackend()
        settings = R.settings_for(cfg['encrypted'], cfg['cipher'], cfg['hashing'], cfg['chunking'])
        repo, key = R.init_repo(backend, settings, concurrent=cfg['concurrent'])
        rec = RecChunker(repo.props.chunker)
        repo.props = dataclasses.replace(repo.props, chunker=rec)
        # ---- flatten correspondence
        from replicat.utils.fs import flatten_paths
        flat_impl = [str(p) for p in repo._flatten_resolve_paths([Path(a) for a in args])]
        ids = {}
        expanded = []
        for a in args:
            lst = [str(p) for p in flatten_paths([Path(a).resolve(strict=True)])]
            expanded.append([ids.setdefault(p, len(ids)) for p in lst])
        res['model'].append(({'op': 'layout.flatten', 'expanded': expanded}, {'files': [ids[p] for p in flat_impl]}, 'flatten'))
        # ---- the client's past: the object that takes the snapshot may be a long-lived one that already ran other commands
        # (snapshot of the same / an overlapping tree, then delete of it or clean, or a restore) — none of which may matter
        past = []
        if r.random() < 0.3:
            import asyncio
            R.PERSISTENT_LOOP = asyncio.new_event_loop()
            res['_loop'] = True
            with R.quiet(), contextlib.suppress(_PastFailed):
                for _ in range(r.choice([1, 1, 2])):
                    kind = r.choice(['snapshot+delete', 'snapshot+delete', 'snapshot+foreign-delete+clean', 'snapshot+restore'])
                    past.append(kind)
                    sub = args if r.random() < 0.6 or not rels else [src / r.choice(rels)]
                    s0 = R.snapshot(repo, sub, note='past')
                    if kind == 'snapshot+delete':
                        R.run(repo.delete_snapshots([s0.name], confirm=False))
                    elif kind == 'snapshot+foreign-delete+clean':
                        other = R.unlock(backend, key=key, concurrent=cfg['concurrent'])      # another process removes it
                        R.run(other.delete_snapshots([s0.name], confirm=False))
                        R.run(repo.clean())
                    else:
                        try:
                            R.restore(repo, sc.dir('past_tgt'), snapshot_regex='^' + s0.name + '$')
                        except Exception as e:  # noqa: BLE001
                            res['violations'].append(('restore:raises', f'restore of the snapshot just taken by a long-lived Repository object (earlier commands: {past}) raises '
                                                      f'{type(e).__name__}: {str(e)[:120]}', {}))
                            raise _PastFailed()
                        R.run(repo.delete_snapshots([s0.name], confirm=False))
            rec.chunks, rec.pieces = [], []
        # ---- snapshot
        snap = R.snapshot(repo, args, note='n')
        sfiles = {f['path']: f for f in snap.data['files']}
        if len(sfiles) != len(snap.data['files']):
            res['violations'].append(('snapshot:duplicate-record', 'a path occurs twice in the snapshot file list', {}))
        if set(sfiles) != set(exp):
            res['violations'].append(('snapshot:recorded-paths' + (':only-empty-files' if exp and all(not v[0] for v in exp.values()) else ''),
                                      f'recorded paths differ from the files reached through the arguments: missing {sorted(set(exp) - set(sfiles))[:3]}, extra {sorted(set(sfiles) - set(exp))[:3]}',
                                      {}))
        # layout / records correspondence (on what was streamed)
        sizes = {p: os.stat(p).st_size for p in flat_impl}
        lens = [len(c) for c in rec.chunks]
        order = list(range(len(lens)))
        r.shuffle(order)
        req = {'op': 'layout.records', 'align': rec.alignment or 0, 'files': [{'size': sizes[p], 'path': cps(p)} for p in flat_impl], 'lens': lens, 'order': order}
        impl_obs = {}
        for k, p in enumerate(flat_impl):
            f = sfiles.get(p)
            impl_obs[k] = None if f is None else sorted([[c['counter'], c['range'][0], c['range'][1]] for c in f['chunks']])
        res['model'].append((req, {'per_file': impl_obs, 'stream_length': sum(lens)}, 'records'))
        # ---- restore into a pre-populated target
        pre = {}
        for p, (data, mt) in exp.items():
            k = r.random()
            rel = p[1:]
            # the METADATA of what is already there is an axis of its own: written just now, carrying exactly the recorded mtime (a copy made
            # with `cp -p` / `rsync -t`, an earlier restore edited in place by a tool that preserves timestamps), one tick off, the epoch
            pmt = r.choice([None, None, mt, mt, mt, mt + 1, 1])
            if k < 0.4:
                continue
            elif k < 0.52:
                pre[rel] = (data[:len(data) // 2], pmt)
            elif k < 0.68:
                pre[rel] = (data + r.randbytes(r.choice([1, 7, 200])), pmt)
            elif k < 0.84:
                pre[rel] = (bytes(b ^ 0x5A for b in data), pmt)
            else:
                # same length, a few bytes different (an earlier restored copy damaged in place)
                dmg = bytearray(data)
                for _ in range(min(len(dmg), r.choice([1, 3, 64]))):
                    dmg[r.randrange(len(dmg))] ^= r.randrange(1, 256)
                pre[rel] = (bytes(dmg), pmt)
        bystanders = {'unrelated/keep.me': (b'keep', 10 ** 18 + 1), 'top.txt': (b'', 10 ** 18 + 2)}
        R.write_tree(tgt, pre)
        R.write_tree(tgt, bystanders)
        repo2 = repo if (past and r.random() < 0.5) else R.unlock(backend, key=key, concurrent=cfg['concurrent'])
        try:
            out = R.restore(repo2, tgt)
        except Exception as e:  # noqa: BLE001
            out = None
            res['violations'].append(('restore:raises', f'restore of the snapshot just taken (client past: {past or "none"}; restoring through {"the same" if repo2 is repo else "a fresh"} '
                                      f'Repository object) raises {type(e).__name__}: {str(e)[:120]}', {}))
        if res.pop('_loop', False):
            try:
                R.PERSISTENT_LOOP.close()
            except Exception:  # noqa: BLE001
                pass
            R.PERSISTENT_LOOP = None
        if out is None:
            res['nontrivial'] = False
            res['summary'] = {'files': len(exp), 'args': len(args), 'restore': 'raised', 'past': past, 'params': [cfg['chunking']['min_length'], cfg['chunking']['max_length']]}
            res['dist'] = ['restore-raised']
            return res
        got = R.read_tree(tgt)
        want = {os.fsencode(k): v for k, v in bystanders.items()}
        for p, (data, mt) in exp.items():
            want[os.fsencode(p[1:])] = (data, mt)
        if set(got) != set(want):
            res['violations'].append(('restore:path-set', f'restored path set differs: missing {sorted(set(want) - set(got))[:3]} extra {sorted(set(got) - set(want))[:3]}', {}))
        for k in sorted(set(got) & set(want)):
            if got[k][0] != want[k][0]:
                old = pre.get(os.fsdecode(k))
                cls = 'absent' if old is None else ('longer' if len(old[0]) > len(want[k][0]) else 'shorter-or-equal')
                res['violations'].append((f'restore:content:pre-existing-{cls}', f'{k!r}: {len(got[k][0])} bytes restored, {len(want[k][0])} expected', {'path': os.fsdecode(k)}))
            elif got[k][1] != want[k][1]:
                res['violations'].append(('restore:mtime', f'{k!r}: mtime_ns {got[k][1]} != recorded {want[k][1]}', {'path': os.fsdecode(k)}))
        if sorted(out.files) != sorted(sfiles):
            res['violations'].append(('restore:return-value', 'restore reports a different file list than the snapshot holds', {}))
        # restore.apply correspondence for up to 4 files
        chunk_hex = [c.hex() for c in rec.chunks]
        for p in r.sample(sorted(sfiles), min(4, len(sfiles))):
            f = sfiles[p]
            refs = [[c['counter'], c['range'][0], c['range'][1]] for c in f['chunks']]
            worder = list(range(len(refs)))
            r.shuffle(worder)
            old = pre.get(p[1:])
            actual = got.get(os.fsencode(p[1:]))
            res['model'].append(({'op': 'restore.apply', 'chunks': chunk_hex, 'refs': refs, 'old': None if old is None else old[0].hex(), 'order': worder},
                                 {'result': None if actual is None else actual[0].hex()}, 'restore'))
        nonempty = [p for p in exp if exp[p][0]]
        res['nontrivial'] = len(exp) >= 2 and len(nonempty) >= 1 and (len(lens) >= 2)
        res['summary'] = {'files': len(exp), 'args': len(args), 'chunks': len(lens), 'sizes': sorted(len(v[0]) for v in exp.values())[:12],
                          'params': [cfg['chunking']['min_length'], cfg['chunking']['max_length']], 'encrypted': cfg['encrypted'],
                          'concurrent': cfg['concurrent'], 'async': cfg['async_backend'], 'prepopulated': len(pre), 'links': links + (1 if toplink else 0),
                          'pieces': len(rec.pieces)}
        res['dist'] = ['enc' if cfg['encrypted'] else 'plain', 'conc:%d' % cfg['concurrent'], 'async' if cfg['async_backend'] else 'sync',
                       'files:' + ('0' if not exp else '1' if len(exp) == 1 else '2-4' if len(exp) <= 4 else '>4'),
                       'dup-args' if len(set(map(str, args))) < len(args) or len(args) > 1 else 'single-arg',
                       'only-empty' if exp and not nonempty else ('has-empty' if len(nonempty) < len(exp) else 'no-empty'),
                       'pre:longer' if any(len(v[0]) > len(exp['/' + k][0]) for k, v in pre.items()) else 'pre:other',
                       'max%4=' + str(cfg['chunking']['max_length'] % 4)] + ['client-past:' + k for k in past] + (['client-past:none'] if not past else [])
    return res


TIE_CAP = 400_000       # bytes of chunk content per `restore.apply` request of a content case (hex doubles it)


def run_content_case(arg):
    seed, slot, tier = arg
    from .. import common
    common.use_rebuilt_chunker()
    consts, _ = CC.thresholds(common.REPO, tier)
    r = rng_for(seed, 'C01-content', slot)
    case = CC.gen_case(r, slot, consts)
    return execute_content(case, seed, slot, tier)


def execute_content(case, seed, slot, tier):
    """Runs one recipe of `c01_content.gen_case` on the real Repository: snapshot of the generated files, restore over the
    generated pre-existing targets, direct oracle + the model requests."""
    r = rng_for(seed, 'C01-content-orders', slot)
    R.PERSISTENT_LOOP = None
    res = {'idx': slot, 'violations': [], 'model': [], 'family': 'content'}
    c = case['constant']
    with R.Scratch(f'c01c_{slot}') as sc:
        src, tgt = sc.dir('src'), sc.dir('tgt')
        tree = {}
        for k, f in enumerate(case['files']):
            tree[f['name']] = (CC.make_file([tuple(x) for x in f['segs']]), 10 ** 18 + 1000 * slot + k)
        R.write_tree(src, tree)
        backend = R.AsyncMemBackend() if case['async_backend'] else R.MemBackend()
        settings = R.settings_for(case['encrypted'], None, None, case['chunking'])
        repo, key = R.init_repo(backend, settings, concurrent=case['concurrent'])
        rec = RecChunker(repo.props.chunker)
        repo.props = dataclasses.replace(repo.props, chunker=rec)
        snap = R.snapshot(repo, [src], note='c')
        sfiles = {f['path']: f for f in snap.data['files']}
        exp = {str(src / name): v for name, v in tree.items()}
        if set(sfiles) != set(exp) or len(sfiles) != len(snap.data['files']):
            res['violations'].append(('snapshot:recorded-paths', f'recorded paths differ from the files of the tree: missing {sorted(set(exp) - set(sfiles))[:3]}, '
                                      f'extra {sorted(set(sfiles) - set(exp))[:3]}', {}))
        # records correspondence on the streamed order (size, path)
        flat = sorted(exp, key=lambda p: (len(exp[p][0]), p))
        lens = [len(ch) for ch in rec.chunks]
        order = list(range(len(lens)))
        r.shuffle(order)
        impl_obs = {}
        for k, p in enumerate(flat):
            f = sfiles.get(p)
            impl_obs[k] = None if f is None else sorted([[x['counter'], x['range'][0], x['range'][1]] for x in f['chunks']])
        res['model'].append(({'op': 'layout.records', 'align': rec.alignment or 0, 'files': [{'size': len(exp[p][0]), 'path': cps(p)} for p in flat],
                              'lens': lens, 'order': order}, {'per_file': impl_obs, 'stream_length': sum(lens)}, 'records'))
        # ---- the pre-existing target
        pre = {}
        for fi, f in enumerate(case['files']):
            p = str(src / f['name'])
            old = CC.make_pre(None if f['pre'] is None else tuple(f['pre']), tree[f['name']][0])
            if old is not None:
                # every other pre-existing target carries exactly the recorded mtime (a timestamp-preserving copy of other content)
                pre[p[1:]] = (old, tree[f['name']][1] if fi % 2 == 0 else None)
        bystanders = {'unrelated/keep.me': (b'keep', 10 ** 18 + 1)}
        R.write_tree(tgt, pre)
        R.write_tree(tgt, bystanders)
        repo2 = R.unlock(backend, key=key, concurrent=case['concurrent'])
        part_lens = sorted({x['range'][1] - x['range'][0] for f in sfiles.values() for x in f['chunks']})
        res['summary'] = {'family': 'content', 'constant': c, 'layout': case['layout'], 'params': [case['chunking']['min_length'], case['chunking']['max_length']],
                          'concurrent': case['concurrent'], 'async': case['async_backend'], 'encrypted': case['encrypted'],
                          'files': [[f['shape'], f['style'], f['run'], f['pre_label'], len(tree[f['name']][0])] for f in case['files']],
                          'chunks': len(lens), 'part_lengths': part_lens[:8]}
        try:
            out = R.restore(repo2, tgt)
        except Exception as e:  # noqa: BLE001
            res['violations'].append(('restore:raises', f'restore of the snapshot just taken raises {type(e).__name__}: {str(e)[:120]}', {'recipe': case}))
            res['nontrivial'] = False
            res['dist'] = ['content:restore-raised']
            return res
        got = R.read_tree(tgt)
        want = {os.fsencode(k): v for k, v in bystanders.items()}
        for p, v in exp.items():
            want[os.fsencode(p[1:])] = v
        if set(got) != set(want):
            res['violations'].append(('restore:path-set', f'restored path set differs: missing {sorted(set(want) - set(got))[:3]} extra {sorted(set(got) - set(want))[:3]}',
                                      {'recipe': case}))
        by_name = {os.fsencode(str(src / f['name'])[1:]): f for f in case['files']}
        for k in sorted(set(got) & set(want)):
            if got[k][0] != want[k][0]:
                f = by_name.get(k)
                old = pre.get(os.fsdecode(k))
                cls = 'absent' if old is None else ('longer' if len(old[0]) > len(want[k][0]) else 'shorter-or-equal')
                diff = CC.describe_difference(got[k][0], want[k][0], None if old is None else old[0])
                what = (f'{k!r}: restored content differs from the source at offset {diff["first_offset"]} for {diff["differing_run"]} byte(s) '
                        f'(expected {diff["expected_at"]}…, restored {diff["restored_at"]}…'
                        f'{", which are the bytes the target held before" if diff["wrong_bytes_are_the_old_content"] else ""}); '
                        f'{diff["restored_length"]} bytes restored, {diff["expected_length"]} expected; ')
                if f is not None:
                    what += (f'file = {f["shape"]} with a {f["style"]} run of length class {f["run"]!r} of the constant {c} ({", ".join(case["where"][:2])}); '
                             f'target before = {f["pre_label"]}; chunking {case["chunking"]["min_length"]}/{case["chunking"]["max_length"]} ({case["layout"]}), '
                             f'concurrency {case["concurrent"]}, {"async" if case["async_backend"] else "sync"} backend')
                res['violations'].append((f'restore:content:pre-existing-{cls}', what, {'path': os.fsdecode(k), 'difference': diff, 'recipe': case}))
            elif got[k][1] != want[k][1]:
                res['violations'].append(('restore:mtime', f'{k!r}: mtime_ns {got[k][1]} != recorded {want[k][1]}', {'path': os.fsdecode(k), 'recipe': case}))
        if sorted(out.files) != sorted(sfiles):
            res['violations'].append(('restore:return-value', 'restore reports a different file list than the snapshot holds', {'recipe': case}))
        # ---- restore.apply correspondence (only the chunks the file references, counters renumbered in order)
        tied = 0
        for p in sorted(sfiles):
            f = sfiles[p]
            counters = sorted({x['counter'] for x in f['chunks']})
            if sum(len(rec.chunks[cn - 1]) for cn in counters if 0 < cn <= len(rec.chunks)) > TIE_CAP or any(not 0 < cn <= len(rec.chunks) for cn in counters):
                continue
            renum = {cn: i + 1 for i, cn in enumerate(counters)}
            refs = [[renum[x['counter']], x['range'][0], x['range'][1]] for x in f['chunks']]
            worder = list(range(len(refs)))
            r.shuffle(worder)
            old = pre.get(p[1:])
            actual = got.get(os.fsencode(p[1:]))
            res['model'].append(({'op': 'restore.apply', 'chunks': [rec.chunks[cn - 1].hex() for cn in counters], 'refs': refs,
                                  'old': None if old is None else old[0].hex(), 'order': worder},
                                 {'result': None if actual is None else actual[0].hex()}, 'restore'))
            tied += 1
        # ---- distribution
        at_or_above = any(pl >= c for pl in part_lens)
        res['nontrivial'] = bool(pre) and bool(lens)
        dist = ['content:cases', 'content:core:' + case['files'][0]['style'] + ':conc=%d' % case['concurrent'], f'content:constant={c}', 'content:conc:%d' % case['concurrent'], 'content:' + ('async' if case['async_backend'] else 'sync'),
                'content:layout:' + case['layout'], 'content:part>=constant' if at_or_above else 'content:parts<constant',
                'content:tied-files:%s' % ('all' if tied == len(sfiles) else 'some' if tied else 'none')]
        for f in case['files']:
            dist += ['content:run:' + f['style'], 'content:run-length:' + f['run'], 'content:shape:' + f['shape'], 'content:pre:' + f['pre_label']]
        # the case class itself: parts that are one repeated byte, by length relative to the constant, inside / outside old bytes that differ
        dist += _overlap_counters(case, tree, pre, sfiles, src, c)
        res['dist'] = dist
    return res


def _overlap_counters(case, tree, pre, sfiles, src, c):
    """counts the parts (as handed to `_write_file_part`) that are one repeated byte, by length relative to the constant and by
    whether the old target content differs somewhere inside the part's range"""
    out = []
    for f in case['files']:
        p = str(src / f['name'])
        data = tree[f['name']][0]
        old = pre.get(p[1:])
        pos = 0
        for x in sorted(sfiles.get(p, {}).get('chunks', []), key=lambda y: y['counter']):
            n = x['range'][1] - x['range'][0]
            part = data[pos:pos + n]
            if n and part == part[:1] * n:
                rel = 'below' if n < c else 'at' if n == c else 'above'
                inside = old is not None and old[0][pos:pos + n] not in (b'', part[:len(old[0][pos:pos + n])])
                out.append(f'content:uniform-part:{"zero" if part[0] == 0 else "nonzero"}:{rel}-constant:{"over-different-old-bytes" if inside else "fresh-or-equal"}')
            pos += n
    return out


def compare_model(kind, req, impl, m):
    """→ list of disagreement strings"""
    bad = []
    if 'error' in m:
        return [f'driver error: {m["error"]}']
    if kind == 'flatten':
        if m['files'] != impl['files']:
            bad.append(f'flatten: model {m["files"]} impl {impl["files"]}')
    elif kind == 'records':
        by_input = {f['input_index']: f for f in m['files']}
        for k, obs in impl['per_file'].items():
            mf = by_input[int(k)]
            if obs is None:
                if mf['has_record']:
                    bad.append(f'file #{k}: model has a record, implementation has none')
                continue
            if not mf['has_record']:
                bad.append(f'file #{k}: implementation has a record, model has none')
            elif mf['refs'] != obs:
                bad.append(f'file #{k}: refs differ: model {mf["refs"][:6]} impl {obs[:6]}')
        if m['stream_length'] != impl['stream_length']:
            bad.append(f'stream length: model {m["stream_length"]} impl (sum of chunk lengths) {impl["stream_length"]}')
    elif kind == 'restore':
        if m.get('result') != impl['result']:
            bad.append(f'restore.apply: model {str(m.get("result"))[:40]} impl {str(impl["result"])[:40]}')
    return bad


def run(out, drv, info):
    quick = out.tier == 'quick'
    n = 160 if quick else 3000
    out.rule = ('case = repository configuration (encrypted?, cipher, hash, (min,max) incl. max%4≠0, concurrency 1–8, sync/async backend) × tree (0–9 files; '
                'sizes around 0, alignment residues, min, max, 2·max, max+min; random/zero/periodic/shared content; non-ASCII, non-UTF-8, newline, leading-dash, *.tmp names; '
                'symlinks) × path arguments (repeats, overlaps, single files, top-level symlink) × pre-populated target (absent/shorter/longer/different + bystanders); '
                'non-trivial = ≥ 2 files, ≥ 1 non-empty, ≥ 2 chunks; distinct = hash of the case summary')
    out.assumptions = ['files do not change while the snapshot runs', 'CPython, pathlib/os (utime resolution = file system), json, cryptography, hashlib',
                       'the chunker is an arbitrary lossless cutter in the theorems (C10 proves the real one lossless); hash/cipher do not occur in the C01 model']
    args = [(out.seed, i, out.tier) for i in range(n)]
    # content classes × pre-existing targets: every (constant, concurrency, backend flavour) slot, `rounds` times
    from .. import common
    consts, skipped = CC.thresholds(common.REPO, out.tier)
    rounds = 2 if quick else 12
    per_round = 3 * len(CC.CONCURRENCY) * len(consts)
    cargs = [(out.seed, i, out.tier) for i in range(rounds * per_round)
             if consts[i % len(consts)]['value'] <= CC.BIG or i // per_round < 2]         # constants of MiB size: two rounds (memory / time)
    out.extra['content_constants'] = {'explored': [[x['value'], x['where'][:2]] for x in consts], 'skipped': skipped, 'cases': len(cargs)}
    out.rule += ('; content family: case = (integer constant c of replicat/repository.py or platform block size) × concurrency × backend flavour (enumerated) × 1–4 files '
                 'made of runs (zeros / 0xFF / one byte / periodic / sparse) of length just below / at / just above / 2× / 3–5× c between random data × chunk layout '
                 '(whole tree one chunk, min=c, max=c, min=c±1) × target before restore (absent / identical / all-ones / all-zeros / inverted / random; equal, longer, shorter); '
                 'non-trivial = some file restored over a pre-existing one')
    with mp.get_context('fork').Pool(min(16, os.cpu_count() or 4)) as pool:
        results = pool.map(run_case, args, chunksize=4)
        results += pool.map(run_content_case, cargs, chunksize=2)
    reqs, meta = [], []
    for res in results:
        out.case(res['summary'], res.get('nontrivial', False))
        for d in res.get('dist', []):
            out.count(d)
        for sig, what, rp in res['violations']:
            out.violation(sig, what, dict(rp, kind='content' if res.get('family') == 'content' else 'case', seed=out.seed, idx=res['idx'], tier=out.tier,
                                          summary=res['summary']))
        for req, impl, kind in res['model']:
            reqs.append(req)
            meta.append((('content:%d' % res['idx']) if res.get('family') == 'content' else res['idx'], impl, kind))
    if drv is not None:
        replies = drv.ask_many(reqs)
        for req, (idx, impl, kind), m in zip(reqs, meta, replies):
            bad = compare_model(kind, req, impl, m)
            if bad:
                content = isinstance(idx, str)
                out.disagreement(f'{kind}: ' + '; '.join(bad[:3]), {'kind': 'content' if content else 'case', 'seed': out.seed, 'idx': int(idx.split(':')[1]) if content else idx,
                                                                      'tier': out.tier, 'request_digest': digest(req)})
            else:
                out.traces_validated += 1
    # path arguments → recorded files on real directory trees (harness/impl/c01_pathwalk.py, model ReplicatModel/PathWalk.lean)
    from ..impl import c01_pathwalk
    c01_pathwalk.run_stream(out, drv, info)
    # one multi-piece case (file larger than the 16 MiB read piece) in the thorough tier
    if not quick:
        big = big_file_case(out.seed)
        out.case(big['summary'], True)
        for sig, what, rp in big['violations']:
            out.violation(sig, what, rp)


def big_file_case(seed):
    from .. import common
    common.use_rebuilt_chunker()
    r = rng_for(seed, 'C01-big')
    res = {'violations': []}
    with R.Scratch('c01_big') as sc:
        src, tgt = sc.dir('src'), sc.dir('tgt')
        size = 16_777_216 * 2 + 12345
        blk = r.randbytes(1 << 20)
        data = (blk * 34)[:size]
        R.write_tree(src, {'big.bin': (data, 10 ** 18 + 5), 'small': (b'abc', 10 ** 18 + 6)})
        be = R.MemBackend()
        repo, key = R.init_repo(be, R.settings_for(False, chunking={'name': 'gclmulchunker', 'min_length': 500_000, 'max_length': 2_000_000}), concurrent=4)
        R.snapshot(repo, [src])
        R.restore(R.unlock(be, concurrent=4), tgt)
        got = R.read_tree(tgt)
        k = os.fsencode(str(src)[1:] + '/big.bin')
        if got.get(k, (None,))[0] != data:
            res['violations'].append(('restore:content:multi-piece', 'file larger than the read piece is not restored byte-identically', {'kind': 'big'}))
        res['summary'] = {'files': 2, 'sizes': [3, size], 'multi_piece': True}
    return res


def replay(path, drv):
    d = json.load(open(path))
    rp = d.get('replay', d)
    if rp.get('kind') == 'case':
        res = run_case((rp['seed'], rp['idx'], rp.get('tier', 'quick')))
        print('summary', res['summary'])
        for v in res['violations']:
            print('violation', v[0], v[1])
        bad = 0
        if drv is not None:
            for req, impl, kind in res['model']:
                b = compare_model(kind, req, impl, drv.ask(req))
                if b:
                    bad += 1
                    print('disagreement', kind, b[:2])
        return 1 if (res['violations'] or bad) else 0
    if rp.get('kind') == 'content':
        # the stored recipe is re-run as it is (independent of the generator); without one the slot is regenerated
        if rp.get('recipe'):
            res = execute_content(rp['recipe'], rp.get('seed', 0), rp.get('idx', 0), rp.get('tier', 'quick'))
        else:
            res = run_content_case((rp['seed'], rp['idx'], rp.get('tier', 'quick')))
        print('summary', res.get('summary'))
        for v in res['violations']:
            print('violation', v[0], v[1])
        bad = 0
        if drv is not None:
            for req, impl, kind in res['model']:
                b = compare_model(kind, req, impl, drv.ask(req))
                if b:
                    bad += 1
                    print('disagreement', kind, b[:2])
        return 1 if (res['violations'] or bad) else 0
    if rp.get('kind') == 'pathwalk':
        from ..impl import c01_pathwalk
        return c01_pathwalk.replay_case(rp, drv)
    if rp.get('kind') == 'big':
        res = big_file_case(d.get('seed', 0))
        return 1 if res['violations'] else 0
    print('replay kind not supported')
    return 2
