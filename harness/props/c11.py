"""C11 — chunk boundaries are content-defined and re-synchronise after edits.

Tie: the real Python adapter `replicat.utils.adapters.gclmulchunker.__call__` on the C++ rebuilt from
/repo/src/adapters.cpp, `RepositoryProps.chunkify`, and (for the padded stream) the real `Repository.snapshot`
with its nested `_stream_files`, are run on generated
  * pairs (P1 + X, P2 + X) with congruent prefix lengths, each stream in its own random segmentation,
  * local edits U + M + X -> U + M' + X (insert / delete / overwrite / replace, |M| = |M'| mod alignment) at every position
    class relative to the existing boundaries of the unedited stream,
  * pairs of snapshots that contain one equal file at different stream offsets,
  * pairs of keys on one stream,
  * INPUT BLOCKS OF EVERY SIZE CLASS (`harness/impl/c11_blocks.py`): the block sizes are derived from the integer constants the
    extractor finds in adapters.py / repository.py / adapters.cpp (`Gen.sizeConstants`) — blocks just below / at / just above /
    a tail above / twice / several times each constant, as the last / first / middle / every block, whole streams as ONE block,
    last blocks beyond every constant; multi-MiB streams on the natively rebuilt chunker (direct oracle only: split
    independence, shared suffix, local edit, and the same edit through two real snapshots of a large file); constants below
    4096 also through the Lean tie,
  * LOW-ENTROPY CONTENT (`harness/impl/c11_lowent.py`): streams with a run of identical data (one byte / a repeated unit whose
    length divides the forced chunk length) of every length class around one scan window, max+min and 2·max, followed by
    ordinary data; keys: the adapter's default and random ones; small parameters (Lean tie), medium ones and the adapter's
    defaults (natively) — each stream re-chunked from its own boundaries and used as a shared suffix that starts inside the run,
and compared with the compiled Lean model (`chunk.sync`, `chunk.all`, `chunk.pad_stream`) after mapping both to the
observable the theorems speak about (chunk lengths, first common boundary as an offset of the shared suffix, the chunk
lists after it, the greedy chunking of the rest, file start offsets).

Direct oracle = C11's own statement on the implementation's output:
  universal   suffix:  from the first boundary two streams have in common all chunks are identical up to the tail zone
              restart: re-chunking a stream from any of its own boundaries reproduces the chunks after it up to the tail zone
                       (the cuts after a boundary are a function of the content after it, not of the chunks before it)
              prefix:  all chunks that start >= ceil4(max) before an edit are identical
              align :  boundaries outside the tail zone are multiples of the alignment; files start at multiples of it
  statistical (high-entropy data, min <= max/16 only; labelled as such):
              a first common boundary exists within D = 16·max after the end of the differing part;
              distinct random keys cut random data >= 64·max differently.
"""
import asyncio
import contextlib
import io
import json
import multiprocessing
import os
import shutil
import time
from pathlib import Path

from ..common import REPO, WORK, Driver, digest, rng_for, use_rebuilt_chunker
from ..impl import c11_blocks as BL
from ..impl import c11_lowent as LE

# D = D_FACTOR · max.  Measured on the rebuilt chunker (2·10^5 random pairs, (min,max) in {(2,32),(4,64),(16,256)}): the first common
# boundary outside the tail zone lies beyond k·max after the shared data begins with frequency ≈ 4e-2, 4e-4, 1e-5 for k = 1, 2, 3
# (ratio ≤ 1/25 per step, largest observed 3.4·max).  Extrapolating with the conservative ratio 1/20: 20^-16 ≈ 1.5e-21 < 1e-15.
D_FACTOR = 16
KEY_DATA_FACTOR = 64
RESTART_SIG = 'c11:cuts-after-boundary-depend-on-history'
DEFAULT_KEY = b'\xff' * 16     # what the adapter uses for params=None / b'' (the model takes the key as a parameter)


def model_key_hex(key):
    return (key or DEFAULT_KEY).hex()


def ceil4(n):
    return (n + 3) // 4 * 4


def valid(mn, mx):
    return 1 <= mn <= mx and ceil4(mn) <= mx


def bounds(lens):
    out = [0]
    for x in lens:
        out.append(out[-1] + x)
    return out


def impl_chunks(mn, mx, key, pieces):
    """The real adapter (Python loop) on the chunker rebuilt from /repo/src/adapters.cpp."""
    from replicat.utils import adapters
    ch = adapters.gclmulchunker(min_length=mn, max_length=mx)
    return [bytes(c) for c in ch(iter(pieces), params=key)]


def impl_alignment():
    from replicat.utils import adapters
    return adapters.gclmulchunker.alignment


# ------------------------------------------------------------------------------------------------ generators
def gen_key(r):
    while True:
        k = r.randbytes(16)
        if k[:8] != bytes(8):
            return k


STAT_PARAMS = [(32, 1), (32, 2), (48, 3), (64, 4), (64, 1), (96, 6), (128, 8), (50, 3), (67, 4), (130, 8), (256, 16)]
STAT_WEIGHTS = [5, 5, 4, 5, 3, 2, 2, 2, 2, 1, 1]


def gen_params(r, statistical):
    if statistical:
        mx, mn = r.choices(STAT_PARAMS, STAT_WEIGHTS)[0]
        return mn, mx
    kind = r.random()
    if kind < 0.5:
        mx = 4 * r.choice([2, 3, 4, 6, 8, 16, 32])
        mn = r.randint(1, mx)
    elif kind < 0.8:
        mx = r.choice([5, 6, 7, 9, 10, 11, 13, 18, 27, 33, 66, 127])
        mn = r.randint(1, max(1, mx // 4 * 4))
    else:  # extreme ratios: min == max (all cuts forced) and min = 1
        mx = 4 * r.choice([1, 2, 4, 8, 16])
        mn = r.choice([1, mx])
    if not valid(mn, mx):
        mn = mx // 4 * 4 or 1
        if not valid(mn, mx):
            mn, mx = 4, 8
    return mn, mx


DATA_STYLES = ['random', 'zeros', 'periodic', 'text', 'sparse']


def gen_data(r, n, style):
    if n <= 0:
        return b''
    if style == 'random':
        return r.randbytes(n)
    if style == 'zeros':
        return bytes(n)
    if style == 'periodic':
        blk = r.randbytes(r.choice([1, 3, 4, 8, 12, 16, 64]))
        return (blk * (n // len(blk) + 1))[:n]
    if style == 'text':
        alpha = b'ab \n'
        return bytes(r.choice(alpha) for _ in range(n))
    # sparse: random with long zero runs
    out = bytearray()
    while len(out) < n:
        out += r.randbytes(r.randint(1, 200)) if r.random() < 0.5 else bytes(r.randint(1, 400))
    return bytes(out[:n])


def segment(r, s):
    style = r.choice(['single', 'equal', 'bytes', 'empties', 'random', 'random', 'random'])
    if not s:
        return [s] if r.random() < 0.5 else [b'', b'']
    if style == 'single':
        ps = [s]
    elif style == 'equal':
        k = r.choice([1, 3, 4, 7, 16, 64, 1000])
        ps = [s[i:i + k] for i in range(0, len(s), k)]
    elif style == 'bytes' and len(s) <= 1500:
        ps = [s[i:i + 1] for i in range(len(s))]
    else:
        ps, i = [], 0
        while i < len(s):
            k = r.choice([0, 1, 2, 3, 4, 5, 8, 13, 64, 200, 1000]) if style != 'empties' else r.choice([0, 0, 1, 4, 9, 300])
            ps.append(s[i:i + k])
            i += k
    if style == 'empties' or r.random() < 0.15:
        ps = [b''] * r.randint(0, 2) + ps + [b''] * r.randint(0, 2)
    return ps or [b'']


def gen_pair(r, statistical):
    """(P1 + X, P2 + X): prefix lengths congruent modulo the alignment."""
    mn, mx = gen_params(r, statistical)
    style = 'random' if statistical else r.choice(DATA_STYLES)
    if statistical:
        nx = r.randint(D_FACTOR + 4, D_FACTOR + 10) * mx + r.randint(0, 7)
    else:
        nx = r.choice([0, 1, mx, 2 * mx - 1, 2 * mx, 2 * mx + 4, 3 * mx + 2, 5 * mx, 9 * mx + 3, r.randint(10, 24) * mx])
    X = gen_data(r, nx, style)
    cls = r.choice(['0-vs-k', 'small', 'around-max', 'multi-max', 'same-len-different-bytes', 'congruent-not-multiple', 'nested'])
    a = 4 * r.randint(1, max(1, mx // 2))
    if cls == '0-vs-k':
        l1, l2 = 0, a
    elif cls == 'small':
        l1, l2 = 4 * r.randint(0, 3), 4 * r.randint(0, 3)
    elif cls == 'around-max':
        l1, l2 = ceil4(mx) + 4 * r.randint(-2, 2), 4 * r.randint(0, 2)
    elif cls == 'multi-max':
        l1, l2 = 4 * r.randint(0, mx), 4 * r.randint(0, mx)
    elif cls == 'same-len-different-bytes':
        l1 = l2 = r.randint(1, 3 * mx)
    elif cls == 'congruent-not-multiple':
        l1 = r.randint(1, 2 * mx)
        l2 = l1 % 4 + 4 * r.randint(0, mx // 2)
    else:
        l1, l2 = a, a + 4 * r.randint(1, mx)
    pstyle = 'random' if statistical else r.choice(['random', style])
    P1, P2 = gen_data(r, max(l1, 0), pstyle), gen_data(r, max(l2, 0), pstyle)
    if cls == 'nested' and r.random() < 0.5:
        P2 = gen_data(r, len(P2) - len(P1), pstyle) + P1      # P1 is a suffix of P2: the shared suffix is longer than X
    return {'kind': 'pair', 'cls': cls, 'style': style, 'statistical': statistical, 'min': mn, 'max': mx, 'key': gen_key(r),
            'a': segment(r, P1 + X), 'b': segment(r, P2 + X), 'pa': len(P1), 'pb': len(P2), 'u': 0}


POS_CLASSES = ['start', 'first-chunk', 'at-boundary', 'boundary+4', 'boundary-4', 'boundary+1', 'mid-chunk', 'mid-unaligned',
               'tail-zone', 'end']
EDIT_KINDS = ['insert', 'delete', 'overwrite', 'replace', 'flip-byte']


def gen_edit(r, statistical, pos_cls=None, ekind=None):
    """U + M + X  ->  U + M' + X with |M| = |M'| modulo the alignment; position class relative to the real boundaries of the
    unedited stream."""
    mn, mx = gen_params(r, statistical)
    style = 'random' if statistical else r.choice(DATA_STYLES)
    key = gen_key(r)
    pos_cls = pos_cls or r.choice(POS_CLASSES)
    ekind = ekind or r.choice(EDIT_KINDS)
    head = r.randint(3, 8) * mx
    n = head + (r.randint(D_FACTOR + 8, D_FACTOR + 12) * mx if statistical else r.randint(0, 12) * mx) + r.randint(0, 7)
    S = gen_data(r, n, style)
    bs = bounds([len(c) for c in impl_chunks(mn, mx, key, [S])])
    inner = [b for b in bs[1:-1] if b + 2 * mx <= n] or bs[:1]
    if statistical:   # keep the edit in the head so that enough shared suffix remains
        inner = [b for b in inner if b <= head] or inner[:1]
    b0 = r.choice(inner)
    nxt = min([b for b in bs if b > b0] or [n])
    pos = {'start': 0, 'first-chunk': min(4 * r.randint(0, max(0, bs[1] // 4 if len(bs) > 1 else 0)), n),
           'at-boundary': b0, 'boundary+4': min(b0 + 4, n), 'boundary-4': max(b0 - 4, 0), 'boundary+1': min(b0 + 1, n),
           'mid-chunk': (b0 + nxt) // 2 // 4 * 4, 'mid-unaligned': min((b0 + nxt) // 2 // 4 * 4 + r.randint(1, 3), n),
           'tail-zone': max(0, n - r.randint(1, 2 * mx)), 'end': n}[pos_cls]
    if statistical and pos_cls in ('tail-zone', 'end'):
        pos = b0
    klen = r.choice([4, 4, 8, 12, ceil4(mx), 4 * r.randint(1, mx), 4 * r.randint(1, 3)])
    if ekind == 'insert':
        m, m2 = 0, klen
    elif ekind == 'delete':
        m, m2 = klen, 0
    elif ekind == 'overwrite':
        m = m2 = r.choice([1, 2, 3, 4, 5, mx, 2 * mx + 1, klen])
    elif ekind == 'flip-byte':
        m = m2 = 1
    else:
        m = r.randint(1, 2 * mx)
        m2 = m % 4 + 4 * r.randint(0, mx // 2)
        if m2 == 0 and m == 0:
            m2 = 4
    m = min(m, n - pos)
    if ekind in ('overwrite', 'flip-byte'):
        m2 = m
    elif (m2 - m) % 4:
        m2 = m % 4 + 4 * (m2 // 4)
    M = S[pos:pos + m]
    if ekind == 'flip-byte' and m == 1:
        M2 = bytes([M[0] ^ (1 << r.randint(0, 7))])
    else:
        M2 = gen_data(r, m2, 'random' if statistical else r.choice(['random', style]))
        if M2 == M and m2:
            M2 = bytes([M2[0] ^ 1]) + M2[1:]
    U, X = S[:pos], S[pos + m:]
    return {'kind': 'edit', 'cls': pos_cls + '/' + ekind, 'style': style, 'statistical': statistical, 'min': mn, 'max': mx, 'key': key,
            'a': segment(r, U + M + X), 'b': segment(r, U + M2 + X), 'pa': len(U) + len(M), 'pb': len(U) + len(M2), 'u': len(U)}


def gen_misaligned(r):
    """prefix lengths NOT congruent modulo the alignment: nothing is claimed by C11; used for the tie only (the model theorem
    `misaligned_never_sync` says: no common boundary outside the tail zones)."""
    c = gen_pair(r, False)
    c['kind'] = 'misaligned'
    A, B = b''.join(c['a']), b''.join(c['b'])
    X = A[c['pa']:]
    l2 = c['pa'] + r.choice([1, 2, 3, 5, 6, 7])
    P2 = gen_data(r, l2, 'random')
    c['b'], c['pb'] = segment(r, P2 + X), l2
    return c


# ------------------------------------------------------------------------------------------------ observables / oracles
def table(chunks):
    out, off = [], 0
    for c in chunks:
        out.append((off, len(c)))
        off += len(c)
    return out


def first_common(ba, pa, bb, pb):
    """first boundary common to both streams as an offset of the shared suffix (all boundaries count, also 0 and the end) —
    the same definition as `Sync.firstCommon` in the model"""
    sb = {b - pb for b in bb if b >= pb}
    for a in ba:
        if a >= pa and a - pa in sb:
            return a - pa
    return None


def observe(case, ca, cb):
    la, lb = [len(c) for c in ca], [len(c) for c in cb]
    ba, bb = bounds(la), bounds(lb)
    pa, pb = case['pa'], case['pb']
    o = first_common(ba, pa, bb, pb)
    obs = {'lensA': la, 'lensB': lb, 'common': o, 'afterA': [], 'afterB': []}
    if o is not None:
        obs['afterA'] = [l for s, l in table(ca) if s >= pa + o]
        obs['afterB'] = [l for s, l in table(cb) if s >= pb + o]
    return obs


def oracle(case, ca, cb, align):
    """C11's statement on the implementation's output.  Returns [(sig, what)]."""
    A, B = b''.join(case['a']), b''.join(case['b'])
    if b''.join(ca) != A or b''.join(cb) != B:
        return [('c11:not-lossless', 'the chunks do not concatenate to the stream (C10), C11 cannot be evaluated')]
    return oracle_tables(case, table(ca), table(cb), len(A), len(B), align)


def oracle_tables(case, ta, tb, nA, nB, align):
    """the same on (offset, length) tables of two loss-free chunkings of streams of nA / nB bytes (no stream bytes needed)"""
    mn, mx, pa, pb, u = case['min'], case['max'], case['pa'], case['pb'], case['u']
    bad = []
    nx = nA - pa
    assert nx == nB - pb
    # --- alignment of boundaries outside the tail zone
    for name, t, total in (('A', ta, nA), ('B', tb, nB)):
        for s, l in t:
            if s + 2 * mx <= total and (s + l) % align:
                bad.append(('c11:unaligned-boundary', f'stream {name}: boundary {s + l} outside the tail zone is not a multiple of the alignment {align}'))
                break
    if case['kind'] == 'misaligned':
        return bad
    # --- suffix: identical from the first common boundary, up to the tail zone
    ra = [(s - pa, l) for s, l in ta if s >= pa]
    rb = [(s - pb, l) for s, l in tb if s >= pb]
    sa, sb = {s for s, _ in ra} | {nx}, {s for s, _ in rb} | {nx}
    commons = sorted(sa & sb)
    o = commons[0]
    za = [(s, l) for s, l in ra if s >= o and s + 2 * mx <= nx]
    zb = [(s, l) for s, l in rb if s >= o and s + 2 * mx <= nx]
    if za != zb:
        k = next((i for i, (x, y) in enumerate(zip(za, zb)) if x != y), min(len(za), len(zb)))
        if str(case.get('cls', '')).startswith('lowent-restart') and pb == 0 and o == 0:
            # the second stream IS the first one from its own boundary pa on (C11.rechunk_from_boundary)
            bad.append((RESTART_SIG, f'{pa} is a boundary of the chunking of the stream; re-chunking the stream from there gives chunk #{k} after it '
                        f'(offset, length) = {zb[k] if k < len(zb) else None} instead of {za[k] if k < len(za) else None} — outside the tail zone: '
                        'the cuts after a boundary depend on the chunks before it'))
        else:
            bad.append(('c11:suffix-desync', f'both streams have a boundary at offset {o} of the shared suffix, but chunk #{k} after it differs: '
                        f'{za[k] if k < len(za) else None} vs {zb[k] if k < len(zb) else None} (offset, length) — outside the tail zone'))
    # --- prefix: chunks that start >= ceil4(max) before the edit are identical (outside both tail zones)
    if u:
        lim = min(nA, nB)
        qa = [(s, l) for s, l in ta if s + ceil4(mx) <= u and s + 2 * mx <= lim]
        qb = [(s, l) for s, l in tb if s + ceil4(mx) <= u and s + 2 * mx <= lim]
        if qa != qb:
            bad.append(('c11:prefix-unstable', f'chunks that start at least ceil4(max) before the edit at {u} differ: {qa[-3:]} vs {qb[-3:]}'))
    # --- statistical: re-synchronisation within D = D_FACTOR·max
    if case['statistical'] and mn * 16 <= mx and nx >= (D_FACTOR + 2) * mx:
        nt = [c for c in commons if c + 2 * mx <= nx]
        if not nt or nt[0] > D_FACTOR * mx:
            bad.append(('c11:resync-distance-exceeded(statistical)',
                        f'high-entropy data, (min,max)=({mn},{mx}): first common boundary outside the tail zone '
                        f'{"does not exist" if not nt else "at offset %d" % nt[0]} > D = {D_FACTOR}·max = {D_FACTOR * mx} after the differing part'))
    return bad


def nontrivial(case, obs):
    mx = case['max']
    nx = sum(obs['lensA']) - case['pa']
    o = obs['common']
    if o is None or b''.join(case['a']) == b''.join(case['b']):
        return False
    inside = 0
    off = o
    for l in obs['afterA']:
        if off + 2 * mx <= nx:
            inside += 1
        off += l
    return inside >= 3 and len(obs['lensA']) != 0 and (case['pa'] != case['pb'] or case['u'] or case['pa'])


def small(case, obs=None):
    d = {k: case[k] for k in ('kind', 'cls', 'style', 'statistical', 'min', 'max', 'pa', 'pb', 'u')}
    d['key'] = case['key'].hex()
    d['a_pieces'] = [len(p) for p in case['a']][:30]
    d['b_pieces'] = [len(p) for p in case['b']][:30]
    d['a_digest'] = digest([p.hex() for p in case['a']])
    d['b_digest'] = digest([p.hex() for p in case['b']])
    if obs:
        d['first_common_boundary'] = obs['common']
        d['chunks_after_it'] = obs['afterA'][:12]
    return d


def full(case):
    d = {k: case[k] for k in ('kind', 'cls', 'style', 'statistical', 'min', 'max', 'pa', 'pb', 'u')}
    d['key'] = case['key'].hex()
    d['a'] = [p.hex() for p in case['a']]
    d['b'] = [p.hex() for p in case['b']]
    return d


def unfull(d):
    c = dict(d)
    c['key'] = bytes.fromhex(d['key'])
    c['a'] = [bytes.fromhex(x) for x in d['a']]
    c['b'] = [bytes.fromhex(x) for x in d['b']]
    return c


# ------------------------------------------------------------------------------------------------ one batch (worker process)
class Res:
    def __init__(self):
        self.cases = []          # (small dict, nontrivial)
        self.counts = {}
        self.violations = []
        self.disagreements = []
        self.validated = 0
        self.extra_evals = 0
        self.dist = []           # resync distances / max, statistical cases

    def count(self, k, n=1):
        self.counts[k] = self.counts.get(k, 0) + n


def check_cases(cases, drv, res, align):
    impl = []
    for c in cases:
        try:
            impl.append((impl_chunks(c['min'], c['max'], c['key'], c['a']), impl_chunks(c['min'], c['max'], c['key'], c['b'])))
        except Exception as e:  # noqa: BLE001
            impl.append(e)
    model = None
    if drv is not None:
        # one request at a time: replies are large (several chunk-length lists), pipelining could fill both pipes
        model = [drv.ask({'op': 'chunk.sync', 'min': c['min'], 'max': c['max'], 'key': model_key_hex(c['key']),
                          'a': [p.hex() for p in c['a']], 'b': [p.hex() for p in c['b']], 'pa': c['pa'], 'pb': c['pb']}) for c in cases]
    for i, (c, im) in enumerate(zip(cases, impl)):
        if isinstance(im, Exception):
            res.cases.append((small(c), False))
            res.disagreements.append({'what': 'implementation raised on a generated case', 'replay': {'case': full(c), 'error': repr(im)}})
            continue
        ca, cb = im
        obs = observe(c, ca, cb)
        res.cases.append((small(c, obs), nontrivial(c, obs)))
        mx = c['max']
        nx = sum(obs['lensA']) - c['pa']
        res.count('kind:' + c['kind'] + (':statistical' if c['statistical'] else ''))
        res.count('class:' + c['cls'])
        res.count('data:' + c['style'])
        res.count('params:' + ('max%4=0' if mx % 4 == 0 else 'max%4!=0') + (':min<=max/16' if c['min'] * 16 <= mx else ':min>max/16'))
        res.count('pieces:' + ('1' if len(c['a']) == 1 and len(c['b']) == 1 else '2-8' if max(len(c['a']), len(c['b'])) <= 8 else '>8'))
        o = obs['common']
        res.count('first_common:' + ('none' if o is None else 'at-0' if o == 0 else 'tail-zone-or-end' if o + 2 * mx > nx else
                                     '<=1max' if o <= mx else '<=2max' if o <= 2 * mx else '<=4max' if o <= 4 * mx else '>4max'))
        if c['statistical'] and o is not None:
            res.dist.append(round(o / mx, 3))
        for sig, what in oracle(c, ca, cb, align):
            res.violations.append({'sig': sig, 'what': what, 'replay': {'kind': 'pair', 'case': full(c), 'observed': obs}})
        if model is not None:
            m = model[i]
            if 'error' in m:
                res.disagreements.append({'what': 'driver error', 'replay': {'case': full(c), 'reply': m}})
                continue
            if m['lensA'] is None or m['lensB'] is None:
                res.disagreements.append({'what': 'model predicts an out-of-bounds window load for valid parameters', 'replay': {'case': full(c), 'reply': m}})
                continue
            same = all(m[k] == obs[k] for k in ('lensA', 'lensB', 'common', 'afterA', 'afterB'))
            if not same:
                res.disagreements.append({'what': 'C11 observable differs between model and implementation',
                                          'replay': {'case': full(c), 'model': {k: m[k] for k in ('lensA', 'lensB', 'common', 'afterA', 'afterB')}, 'impl': obs}})
                continue
            # instance of `suffix_sync` on the implementation: after the common boundary both results start with the greedy
            # chunking of the rest of the shared suffix, which covers everything up to the tail zone
            if o is not None and c['kind'] != 'misaligned':
                g = m['greedyX']
                if g is None or obs['afterA'][:len(g)] != g or obs['afterB'][:len(g)] != g or not (nx - o < sum(g) + 2 * mx):
                    res.disagreements.append({'what': 'implementation chunks after a common boundary do not start with the model\'s greedy chunking of the shared suffix',
                                              'replay': {'case': full(c), 'greedyX': g, 'impl': obs}})
                    continue
            if c['kind'] == 'misaligned' and o is not None and o + 2 * mx <= nx:
                res.disagreements.append({'what': 'misaligned prefixes share a boundary outside the tail zone (contradicts misaligned_never_sync)',
                                          'replay': {'case': full(c), 'impl': obs}})
                continue
            res.validated += 1


def batch(args):
    seed, tier, wid, n_pairs, n_edits, n_mis = args
    use_rebuilt_chunker()
    r = rng_for(seed, 'C11', tier, wid)
    res = Res()
    drv = None
    try:
        try:
            drv = Driver()
        except Exception:  # noqa: BLE001
            drv = None
        align = impl_alignment()
        cases = []
        if wid == 0:   # every (position class × edit kind) at least once per run
            for pc in POS_CLASSES:
                for ek in EDIT_KINDS:
                    cases.append(gen_edit(r, False, pc, ek))
            for pc in POS_CLASSES[:8]:
                for ek in EDIT_KINDS[:4]:
                    cases.append(gen_edit(r, True, pc, ek))
        for k in range(n_pairs):
            cases.append(gen_pair(r, k % 2 == 0))
        for k in range(n_edits):
            cases.append(gen_edit(r, k % 2 == 0))
        for k in range(n_mis):
            cases.append(gen_misaligned(r))
        for i in range(0, len(cases), 100):
            check_cases(cases[i:i + 100], drv, res, align)
    finally:
        if drv is not None:
            res.counts['__driver_requests'] = drv.count
            drv.close()
    return res.__dict__


# ------------------------------------------------------------------------------------------------ keys
def keys_part(out, drv, r, n):
    from replicat.repository import RepositoryProps
    from replicat.utils import adapters
    reqs, meta = [], []
    same_low = 0
    for k in range(n):
        mx, mn = r.choices(STAT_PARAMS, STAT_WEIGHTS)[0]
        S = r.randbytes(KEY_DATA_FACTOR * mx + r.randint(0, 40))
        k1, k2 = gen_key(r), gen_key(r)
        ps = segment(r, S)
        c1, c2 = impl_chunks(mn, mx, k1, ps), impl_chunks(mn, mx, k2, [S])
        b1, b2 = bounds([len(c) for c in c1]), bounds([len(c) for c in c2])
        case = {'kind': 'keys', 'min': mn, 'max': mx, 'key1': k1.hex(), 'key2': k2.hex(), 'data_digest': digest(S.hex()), 'n': len(S)}
        out.case(case, len(c1) >= 3)
        out.count('kind:keys:statistical')
        inner1 = [b for b in b1 if 0 < b and b + 2 * mx <= len(S)]
        inner2 = [b for b in b2 if 0 < b and b + 2 * mx <= len(S)]
        if inner1 == inner2:
            out.violation('c11:keys-same-boundaries(statistical)',
                          f'two distinct random keys cut {len(S)} random bytes (= {KEY_DATA_FACTOR}·max) identically outside the tail zone',
                          {'kind': 'keys', 'min': mn, 'max': mx, 'key1': k1.hex(), 'key2': k2.hex(), 'data': S.hex()})
        share = len(set(inner1) & set(inner2)) / max(1, len(inner1))
        out.count('keys:shared_boundary_fraction:' + ('<5%' if share < 0.05 else '<25%' if share < 0.25 else '>=25%'))
        # the same through the repository layer: RepositoryProps.chunkify passes private['chunker_params'] to the adapter
        chunker = adapters.gclmulchunker(min_length=mn, max_length=mx)
        pr1 = RepositoryProps(chunker=chunker, hasher=None, cipher=object(), private={'chunker_params': k1})
        pr2 = RepositoryProps(chunker=chunker, hasher=None, cipher=object(), private={'chunker_params': k2})
        r1, r2 = [len(c) for c in pr1.chunkify(iter(ps))], [len(c) for c in pr2.chunkify(iter([S]))]
        out.evaluations += 1
        if r1 != [len(c) for c in c1] or r2 != [len(c) for c in c2]:
            out.violation('c11:repository-ignores-chunker-key',
                          'RepositoryProps.chunkify of an encrypted repository does not cut like the adapter with that repository\'s chunker_params '
                          '(different keys no longer lead to different boundaries)',
                          {'kind': 'keys', 'min': mn, 'max': mx, 'key1': k1.hex(), 'key2': k2.hex(), 'data': S.hex(), 'via': 'RepositoryProps.chunkify',
                           'adapter': [[len(c) for c in c1][:20], [len(c) for c in c2][:20]], 'repository': [r1[:20], r2[:20]]})
        reqs.append({'op': 'chunk.all', 'min': mn, 'max': mx, 'key': k1.hex(), 'pieces': [p.hex() for p in ps]})
        reqs.append({'op': 'chunk.all', 'min': mn, 'max': mx, 'key': k2.hex(), 'pieces': [S.hex()]})
        meta.append((case, [len(c) for c in c1], [len(c) for c in c2]))
        # observation (not claimed by anybody): keys that differ only in the low byte of the mask half k1
        k3 = k1[:8] + bytes([k1[8] ^ 1]) + k1[9:]
        if k < 8:
            c3 = impl_chunks(mn, mx, k3, [S])
            same_low += [len(c) for c in c3] == [len(c) for c in c1]
    if drv is not None:
        rep = [drv.ask(q) for q in reqs]
        for i, (case, l1, l2) in enumerate(meta):
            m1, m2 = rep[2 * i], rep[2 * i + 1]
            if m1.get('chunks') == l1 and m2.get('chunks') == l2:
                out.traces_validated += 1
            else:
                out.disagreement('chunk lengths under two keys differ between model and implementation', {'case': case, 'model': [m1, m2], 'impl': [l1, l2]})
    out.extra['observation_keys_differing_only_in_lowest_bit_of_k1_cut_identically'] = f'{same_low} of {min(n, 8)} (informational: the clause "different keys ⇒ different boundaries" is not universal)'


# ------------------------------------------------------------------------------------------------ corpus (ties the Lean witnesses)
def corpus_part(out, drv):
    S = bytes(range(1, 29))
    K1, K2 = bytes([1] + [0] * 15), bytes([3] + [0] * 15)
    exp = {'keys_differ_witness': ([(4, 12, K1, [S]), (4, 12, K2, [S])], [[8, 12, 8], [4, 8, 12, 4]]),
           'resync_not_universal_witness': ([(8, 16, b'\x07' * 16, [bytes(64)]), (8, 16, b'\x07' * 16, [bytes(68)])],
                                            [[8, 8, 8, 8, 8, 16, 8], [8, 8, 8, 8, 8, 16, 12]])}
    for name, (runs, want) in exp.items():
        got = [[len(c) for c in impl_chunks(mn, mx, key, ps)] for mn, mx, key, ps in runs]
        out.evaluations += 1
        out.count('corpus:' + name)
        if got != want:
            out.disagreement(f'the implementation does not reproduce the Lean witness {name}', {'witness': name, 'lean': want, 'impl': got})
        else:
            out.traces_validated += 1
    # zero data never re-synchronises after a 4-byte shift when ceil4(min) > 4 (real key: window 0 hashes to the constant k1)
    mn, mx = 8, 16
    a = bounds([len(c) for c in impl_chunks(mn, mx, b'\xff' * 16, [bytes(400)])])
    b = bounds([len(c) for c in impl_chunks(mn, mx, b'\xff' * 16, [bytes(404)])])
    common = [x for x in a if x + 4 in b and x + 2 * mx <= 400]
    out.extra['zero_data_shift4_common_boundaries_outside_tail'] = len(common)


# ------------------------------------------------------------------------------------------------ the padded snapshot stream
def _install_recorder():
    from replicat.repository import RepositoryProps
    if getattr(RepositoryProps.chunkify, '_c11_rec', None) is not None:
        return RepositoryProps.chunkify._c11_rec
    rec = []
    orig = RepositoryProps.chunkify

    def chunkify(self, it):
        entry = {'pieces': [], 'chunks': []}
        rec.append(entry)

        def pieces():
            for p in it:
                entry['pieces'].append(bytes(p))
                yield p
        for c in orig(self, pieces()):
            entry['chunks'].append(bytes(c))
            yield c
    chunkify._c11_rec = rec
    chunkify._c11_orig = orig
    RepositoryProps.chunkify = chunkify
    return rec


def _uninstall_recorder():
    from replicat.repository import RepositoryProps
    orig = getattr(RepositoryProps.chunkify, '_c11_orig', None)
    if orig is not None:
        RepositoryProps.chunkify = orig


def real_snapshot(scratch, mn, mx, files, tag):
    """files: [(name, bytes)].  Runs the real Repository.snapshot on a fresh unencrypted local repository.
    Returns (recorded pieces, recorded chunks, snapshot data)."""
    from replicat.backends import local
    from replicat.repository import Repository
    rec = _install_recorder()
    root = scratch / tag
    src = root / 'src'
    src.mkdir(parents=True)
    for name, data in files:
        (src / name).write_bytes(data)

    async def go():
        repo = Repository(local.Client(root / 'repo'), concurrent=2, cache_directory=None)
        await repo.init(settings={'encryption': None, 'chunking': {'min_length': mn, 'max_length': mx}})
        return await repo.snapshot(paths=[src])
    n0 = len(rec)
    with contextlib.redirect_stdout(io.StringIO()), contextlib.redirect_stderr(io.StringIO()):
        result = asyncio.run(go())
    entry = rec[n0]
    shutil.rmtree(root, ignore_errors=True)
    return entry['pieces'], entry['chunks'], result.data, str(src)


def file_starts_from_snapshot(data, chunks, src):
    """stream_start of every non-empty file, from the snapshot's own chunk references (the code's view)."""
    starts = bounds([len(c) for c in chunks])
    out = {}
    for f in data['files']:
        refs = sorted(f['chunks'], key=lambda x: x['counter'])
        if not refs:
            continue
        first = refs[0]
        name = os.path.relpath(f['path'], src)
        out[name] = (starts[first['counter'] - 1] + first['range'][0], sum(x['range'][1] - x['range'][0] for x in refs))
    return out


def snapshot_oracle(mn, mx, align, F, filesets, runs):
    """runs: per snapshot (stream bytes, chunks, starts dict).  F: name of the shared file per snapshot and its content."""
    bad = []
    locs = []
    for (files, fname), (stream, chunks, starts) in zip(filesets, runs):
        content = dict(files)
        for name, (st, ln) in starts.items():
            if ln and stream[st:st + ln] != content[name]:
                bad.append(('c11:snapshot-file-misplaced', f'file {name!r}: the stream at its recorded start {st} does not hold its content'))
            if ln and st % align:
                bad.append(('c11:file-start-unaligned', f'file {name!r} (length {ln}) starts at stream offset {st}, not a multiple of the alignment {align}: '
                            'equal files in different snapshots see different candidate offsets and cannot deduplicate'))
        locs.append(starts.get(fname, (None, 0))[0])
    if bad or any(x is None for x in locs) or len(runs) < 2:
        return bad, None
    # the shared file F inside both streams: P1 + F + Q1, P2 + F + Q2
    (s1, c1, _), (s2, c2, _) = runs
    p1, p2 = locs
    n = len(F)
    t1 = [(s - p1, l) for s, l in table(c1) if p1 <= s <= p1 + n]
    t2 = [(s - p2, l) for s, l in table(c2) if p2 <= s <= p2 + n]
    commons = sorted({s for s, _ in t1} & {s for s, _ in t2})
    info = {'offsets': [p1, p2], 'first_common': commons[0] if commons else None}
    if commons:
        o = commons[0]
        lim1, lim2 = len(s1) - p1, len(s2) - p2
        z1 = [(s, l) for s, l in t1 if s >= o and s + ceil4(mx) <= n and s + 2 * mx <= min(lim1, lim2)]
        z2 = [(s, l) for s, l in t2 if s >= o and s + ceil4(mx) <= n and s + 2 * mx <= min(lim1, lim2)]
        if z1 != z2:
            bad.append(('c11:shared-file-desync', f'equal file at stream offsets {p1} / {p2}: both chunkings have a boundary at offset {o} of the file '
                        f'but later chunks inside the file differ: {z1[:4]} vs {z2[:4]}'))
        info['identical_chunks_inside_file'] = len(z1)
    return bad, info


def snapshot_part(out, drv, r, n, scratch):
    align = impl_alignment()
    for k in range(n):
        statistical = k % 2 == 0
        mx, mn = r.choices(STAT_PARAMS[:7], STAT_WEIGHTS[:7])[0]
        nF = (D_FACTOR + 6) * mx + r.randint(0, 9) if statistical else r.randint(3, 12) * mx + r.randint(0, 9)
        F = r.randbytes(nF)
        filesets = []
        for side in range(2):
            files = []
            for j in range(r.randint(0 if side else 1, 4)):   # smaller files sort before F: sizes with every residue mod 4, also empty
                files.append((f's{side}{j}', r.randbytes(r.choice([0, 1, 2, 3, 5, 6, 7, 9, 13, mx + 1, mx + 2, r.randint(0, 3 * mx)]))))
            for j in range(r.randint(0, 2)):                   # bigger files sort after F
                files.append((f'z{side}{j}', r.randbytes(nF + r.randint(1, 3 * mx))))
            fname = r.choice(['F', 'shared.bin', 'a-copy'])
            files.append((fname, F))
            filesets.append((files, fname))
        runs, model_ok = [], True
        for side, (files, fname) in enumerate(filesets):
            pieces, chunks, data, src = real_snapshot(scratch, mn, mx, files, f'snap{k}_{side}')
            starts = file_starts_from_snapshot(data, chunks, src)
            stream = b''.join(pieces)
            runs.append((stream, chunks, starts))
            # model: _stream_files on the files in the code's order (size, path)
            order = sorted(files, key=lambda x: (len(x[1]), os.path.join(src, x[0])))
            if drv is not None:
                m = drv.ask({'op': 'chunk.pad_stream', 'files': [d.hex() for _, d in order]})
                mstream = b''.join(bytes.fromhex(x) for x in m.get('pieces', []))
                mstarts = {nm: st for (nm, d), st in zip(order, m.get('starts', [])) if d}
                istarts = {nm: st for nm, (st, ln) in starts.items() if ln}
                if mstream != stream or mstarts != istarts or [bytes.fromhex(x) for x in m.get('pieces', [])] != pieces:
                    model_ok = False
                    out.disagreement('padded snapshot stream differs between model (padPieces/fileStarts) and Repository.snapshot._stream_files',
                                     {'kind': 'snapshot', 'min': mn, 'max': mx, 'files': [(nm, d.hex()) for nm, d in order],
                                      'model_starts': mstarts, 'impl_starts': istarts, 'model_len': len(mstream), 'impl_len': len(stream)})
                ma = drv.ask({'op': 'chunk.all', 'min': mn, 'max': mx, 'key': 'ff' * 16, 'pieces': [p.hex() for p in pieces]})
                if ma.get('chunks') != [len(c) for c in chunks]:
                    model_ok = False
                    out.disagreement('chunks of the snapshot stream differ between model and Repository.snapshot', {'kind': 'snapshot', 'min': mn, 'max': mx,
                                     'files': [(nm, d.hex()) for nm, d in order], 'model': ma, 'impl': [len(c) for c in chunks]})
        bad, info = snapshot_oracle(mn, mx, align, F, filesets, runs)
        replay = {'kind': 'snapshot', 'min': mn, 'max': mx, 'shared': F.hex(),
                  'filesets': [{'files': [(nm, d.hex()) for nm, d in fs], 'shared_name': fn} for fs, fn in filesets]}
        for sig, what in bad:
            out.violation(sig, what, replay)
        nontriv = bool(info) and info['offsets'][0] != info['offsets'][1] and info.get('identical_chunks_inside_file', 0) >= 3
        out.case({'kind': 'snapshot', 'min': mn, 'max': mx, 'statistical': statistical, 'shared_file_len': nF,
                  'file_sizes': [[len(d) for _, d in fs] for fs, _ in filesets], 'info': info}, nontriv)
        out.count('kind:snapshot' + (':statistical' if statistical else ''))
        if info:
            d = (info['offsets'][0] - info['offsets'][1])
            out.count('snapshot:offset_difference:' + ('0' if d == 0 else 'multiple-of-4' if d % 4 == 0 else 'NOT-multiple-of-4'))
            fc = info['first_common']
            if statistical and mn * 16 <= mx and info['offsets'][0] != info['offsets'][1] and not bad:
                if fc is None or fc > D_FACTOR * mx:
                    out.violation('c11:shared-file-no-resync(statistical)',
                                  f'equal high-entropy file of {nF} bytes at stream offsets {info["offsets"]}: no common boundary within D = {D_FACTOR}·max '
                                  f'of the file start (first common: {fc})', replay)
        if model_ok and drv is not None:
            out.traces_validated += 1


# ------------------------------------------------------------------------------------------------ input blocks of every size class
QUICK_BLOCK_BUDGET = 64 << 20          # bytes per generated stream
THOROUGH_BLOCK_BUDGET = 640_000_000
SNAP_BLOCK_BUDGET = 24 << 20           # size of the large file of a real snapshot
SMALL_CONST = 4096                     # constants below: sampled per run, small streams, also through the Lean tie
HUGE_CONST = 128 << 20                 # constants above (thorough tier): one job, fewer segmentations


def impl_cuts(mn, mx, key, blocks, S):
    """chunk LENGTHS of the real adapter for the stream S handed over in the given blocks; every chunk is compared with S and
    dropped at once (multi-MiB streams).  Returns (lengths, loss-free?)."""
    from replicat.utils import adapters
    ch = adapters.gclmulchunker(min_length=mn, max_length=mx)
    lens, off, ok = [], 0, True
    for c in ch(BL.iter_blocks(S, blocks), params=key):
        n = len(c)
        if ok and S[off:off + n] != c:
            ok = False
        lens.append(n)
        off += n
    return lens, ok and off == len(S)


def table_of_lens(lens):
    out, off = [], 0
    for n in lens:
        out.append((off, n))
        off += n
    return out


def const_bucket(c):
    return '<4Ki' if c < 4096 else '4Ki..1Mi' if c < (1 << 20) else '1Mi..16Mi' if c < (16 << 20) else '16Mi..128Mi' if c < (128 << 20) else '>=128Mi'


def pick_seg(r, sizes, L, nat, want=None):
    """(label, run-length encoded blocks)"""
    kind = want or r.choice(['one-block', 'one-block', 'last', 'last', 'last', 'first', 'all', 'middle', 'last-two', 'natural'])
    if kind == 'one-block':
        return 'one-block', [[L, 1]]
    if kind == 'natural':
        return 'natural', BL.fill(L, nat)
    label = r.choice(sorted(sizes))
    return f'{kind}:{label}', BL.segmentation(kind, sizes[label], L, nat)


def gen_block_family(r, cinfo, family, budget, align, thorough=False):
    """cases of one family for one size constant; [] if no stream above the constant fits the budget"""
    c = cinfo['value']
    prm = BL.params_for(r, c, budget)
    if prm is None:
        return []
    mn, mx = prm
    m, L = BL.stream_length(r, c, mx, budget)
    nat = BL.natural_size(c)
    sizes = BL.size_classes(r, c, mx, align, L)
    key = gen_key(r)
    base = {'kind': 'blocks', 'family': family, 'const': c, 'where': cinfo['where'], 'min': mn, 'max': mx, 'key': key, 'multiples': m}
    cases = []
    if family == 'split':
        style = 'random'
        if r.random() < 0.3 and L // mn <= 20000:
            style = r.choice(BL.PART_STYLES[1:])
        parts = [[r.getrandbits(48), L, style]]
        ref = BL.fill(L, nat)
        segs = [('one-block', [[L, 1]])]
        kinds = BL.SEG_KINDS[1:]
        for label in sorted(sizes):
            for kind in (kinds if thorough else [r.choice(kinds)]):
                segs.append((f'{kind}:{label}', BL.segmentation(kind, sizes[label], L, nat)))
        if 'above-by-a-tail' in sizes and not thorough:
            segs.append(('last:above-by-a-tail', BL.segmentation('last', sizes['above-by-a-tail'], L, nat)))
        seen = set()
        for label, blocks in segs:
            k = json.dumps(blocks)
            if k in seen or blocks == ref:
                continue
            seen.add(k)
            cases.append(dict(base, cls='split/' + label, style=style, statistical=False, a_parts=parts, b_parts=parts,
                              a_blocks=blocks, b_blocks=ref, a_seg=label, b_seg='natural', pa=0, pb=0, u=0))
        return cases
    reps = 3 if thorough else 2
    for _ in range(reps):
        if family == 'pair':
            X = [r.getrandbits(48), L, 'random']
            cls = r.choice(['0-vs-k', 'small', 'around-max', 'part-of-const', 'nested-lengths'])
            a4 = 4 * r.randint(1, max(1, mx // 2))
            if cls == '0-vs-k':
                l1, l2 = 0, a4
            elif cls == 'small':
                l1, l2 = 4 * r.randint(0, 3), 4 * r.randint(4, 9)
            elif cls == 'around-max':
                l1, l2 = ceil4(mx) + 4 * r.randint(-2, 2), 4 * r.randint(0, 2)
            elif cls == 'part-of-const':       # the shared data is shifted by a sizeable part of the constant
                l1, l2 = 4 * (c // r.choice([5, 8, 12]) // 4), 4 * r.randint(0, 3)
            else:
                l1, l2 = a4, a4 + 4 * r.randint(1, mx)
            if l1 == l2:
                l2 += 4
            pa_parts = ([[r.getrandbits(48), l1, 'random']] if l1 else []) + [X]
            pb_parts = ([[r.getrandbits(48), l2, 'random']] if l2 else []) + [X]
            la, lb = l1 + L, l2 + L
            sa, ba = pick_seg(r, sizes, la, nat)
            sb, bb = pick_seg(r, sizes, lb, nat, want=sa.split(':')[0] if r.random() < 0.5 else None)
            cases.append(dict(base, cls='pair/' + cls, style='random', statistical=True, a_parts=pa_parts, b_parts=pb_parts,
                              a_blocks=ba, b_blocks=bb, a_seg=sa, b_seg=sb, pa=l1, pb=l2, u=0))
        else:
            pos_cls = r.choice(['early', 'early', 'before-const', 'after-const', 'middle'])
            room = L - (D_FACTOR + 6) * mx
            u = {'early': 4 * r.randint(0, 2 * mx), 'before-const': max(0, c - 4 * r.randint(1, 2 * mx)),
                 'after-const': c + 4 * r.randint(0, mx), 'middle': 4 * r.randint(0, max(1, room // 4))}[pos_cls]
            u = max(0, min(u, room // 4 * 4))
            ek = r.choice(['insert', 'insert', 'delete', 'replace', 'overwrite'])
            klen = r.choice([4, 8, 12, ceil4(mx), 4 * r.randint(1, mx)])
            if ek == 'insert':
                m1, m2 = 0, klen
            elif ek == 'delete':
                m1, m2 = klen, 0
            elif ek == 'overwrite':
                m1 = m2 = r.choice([1, 4, 5, mx])
            else:
                m1 = r.randint(1, 2 * mx)
                m2 = m1 % 4 + 4 * r.randint(0, mx // 2)
            U = [[r.getrandbits(48), u, 'random']] if u else []
            M1 = [[r.getrandbits(48), m1, 'random']] if m1 else []
            M2 = [[r.getrandbits(48), m2, 'random']] if m2 else []
            X = [[r.getrandbits(48), L - u - m1, 'random']]
            la, lb = L, L - m1 + m2
            sa, ba = pick_seg(r, sizes, la, nat)
            sb, bb = pick_seg(r, sizes, lb, nat, want=sa.split(':')[0] if r.random() < 0.6 else None)
            cases.append(dict(base, cls=f'edit/{pos_cls}/{ek}', style='random', statistical=True, a_parts=U + M1 + X, b_parts=U + M2 + X,
                              a_blocks=ba, b_blocks=bb, a_seg=sa, b_seg=sb, pa=u + m1, pb=u + m2, u=u))
    return cases


def block_case_small(c, obs=None):
    d = {k: c[k] for k in ('kind', 'family', 'cls', 'const', 'style', 'statistical', 'min', 'max', 'pa', 'pb', 'u', 'a_seg', 'b_seg')}
    d['key'] = c['key'].hex()
    d['a'] = dict(BL.block_summary(c['a_blocks']), length=sum(n for _, n, _ in c['a_parts']))
    d['b'] = dict(BL.block_summary(c['b_blocks']), length=sum(n for _, n, _ in c['b_parts']))
    d['recipe_digest'] = digest([c['a_parts'], c['b_parts'], c['a_blocks'], c['b_blocks']])
    if obs:
        d.update(obs)
    return d


def block_case_full(c):
    d = dict(c)
    d['key'] = c['key'].hex()
    d['how_to_rebuild'] = ('stream = concatenation of parts [seed, length, style] (harness/impl/c11_blocks.py::make_part: style random = '
                           'random.Random(seed).randbytes(length)); handed to gclmulchunker(min_length=min, max_length=max)(blocks, params=key) in '
                           'blocks of the run-length encoded lengths [[length, count], ...]')
    return d


def eval_block_case(c, align, cache, lens_cache):
    """run the real adapter on both streams of a block case and evaluate C11's statement.  Returns (violations, observation)."""
    A, B = BL.build_stream(c['a_parts'], cache), BL.build_stream(c['b_parts'], cache)
    out = []
    for S, parts, blocks in ((A, c['a_parts'], c['a_blocks']), (B, c['b_parts'], c['b_blocks'])):
        k = (json.dumps(parts), json.dumps(blocks), c['min'], c['max'], c['key'])
        if k not in lens_cache:
            lens_cache[k] = impl_cuts(c['min'], c['max'], c['key'], blocks, S)
        out.append(lens_cache[k])
    (la, oka), (lb, okb) = out
    obs = {'chunks': [len(la), len(lb)]}
    if not (oka and okb):
        return [('c11:not-lossless', 'the chunks do not concatenate to the stream (C10), C11 cannot be evaluated')], obs, la, lb
    ta, tb = table_of_lens(la), table_of_lens(lb)
    bad = oracle_tables(c, ta, tb, len(A), len(B), align)
    mx = c['max']
    if c['family'] == 'split':
        # C11 for one stream in two segmentations (chunk_split_indep_pair / block_resplit_indep): name the finding after what it is
        za = [(s, n) for s, n in ta if s + 2 * mx <= len(A)]
        zb = [(s, n) for s, n in tb if s + 2 * mx <= len(B)]
        bad = [b for b in bad if b[0] != 'c11:suffix-desync']
        if za != zb:
            i = next((i for i, (x, y) in enumerate(zip(za, zb)) if x != y), min(len(za), len(zb)))
            x = za[i] if i < len(za) else None
            y = zb[i] if i < len(zb) else None
            sa = BL.block_summary(c['a_blocks'])
            bad.append(('c11:cuts-depend-on-block-sizes',
                        f'one stream of {len(A)} bytes, (min,max)=({c["min"]},{mx}): handed over as {c["a_seg"]} ({sa["blocks"]} block(s), largest {sa["largest"]}, last '
                        f'{sa["last"]}; size class derived from the constant {c["const"]} of {c["where"][:2]}) it is cut differently than in blocks of '
                        f'{c["b_blocks"][0][0]} bytes: chunk #{i} (offset, length) = {x} vs {y}, {len(A) - (x or y)[0]} bytes before the end (tail zone = last {2 * mx})'))
        obs['identical_chunks_outside_tail'] = sum(1 for x, y in zip(za, zb) if x == y)
    else:
        ba, bb = bounds(la), bounds(lb)
        o = first_common(ba, c['pa'], bb, c['pb'])
        obs['first_common_boundary'] = o
        nx = len(A) - c['pa']
        obs['chunks_after_it_outside_tail'] = 0 if o is None else sum(1 for s, n in ta if s >= c['pa'] + o and s + 2 * mx <= len(A))
        if o is not None:
            obs['resync_over_max'] = round(o / mx, 3)
    return bad, obs, la, lb


def count_block_case(res, c, exercised_max):
    fam = c['family']
    res.count('kind:blocks:' + fam + (':statistical' if c['statistical'] else ''))
    res.count('blocks:const:' + const_bucket(c['const']))
    if c['const'] >= SMALL_CONST:
        res.count(f'blocks:const={c["const"]}')
    res.count('data:' + c['style'])
    for side in ('a', 'b'):
        seg = c[side + '_seg']
        if fam == 'split' and side == 'b':
            continue
        res.count('blocks:seg:' + seg)
        sm = BL.block_summary(c[side + '_blocks'])
        if sm['blocks'] == 1:
            res.count('blocks:whole-stream-as-one-block')
        big, last = sm['largest'], sm['last']
        res.count('blocks:largest-vs-const:' + ('below' if big < c['const'] else 'at' if big == c['const'] else 'above' if big < 2 * c['const'] else '>=2x'))
        res.count('blocks:LAST-vs-const:' + ('below' if last < c['const'] else 'at' if last == c['const'] else 'above' if last < 2 * c['const'] else '>=2x'))
        if last > exercised_max:
            res.count('blocks:last-block-beyond-every-exercised-constant')
        if last >= c['const'] + 2 * c['max']:
            res.count('blocks:last-block-exceeds-const-by-more-than-the-tail-zone')


def block_job(args):
    """one pool job: all cases of the given (constant, family) list"""
    seed, tier, jid, todo, exercised_max = args
    use_rebuilt_chunker()
    r = rng_for(seed, 'C11-blocks', tier, jid)
    res = Res()
    drv = None
    scratch = WORK / str(os.getpid()) / 'c11b'
    try:
        align = impl_alignment()
        thorough = tier != 'quick'
        budget = QUICK_BLOCK_BUDGET if not thorough else THOROUGH_BLOCK_BUDGET
        for cinfo, family in todo:
            c = cinfo['value']
            if family == 'snapshot':
                snapshot_block_case(r, cinfo, align, res, scratch)
                continue
            cases = gen_block_family(r, cinfo, family, budget, align, thorough and c < HUGE_CONST)
            if c >= HUGE_CONST:
                cases = cases[:3] if family == 'split' else cases[:1]
            cache, lens_cache = {}, {}
            for case in cases:
                if family != 'split':
                    cache, lens_cache = {}, {}
                try:
                    bad, obs, la, lb = eval_block_case(case, align, cache, lens_cache)
                except Exception as e:  # noqa: BLE001
                    res.cases.append((block_case_small(case), False))
                    res.disagreements.append({'what': 'implementation raised on a generated block case', 'replay': {'case': block_case_full(case), 'error': repr(e)}})
                    continue
                nontriv = case['a_blocks'] != case['b_blocks'] or case['a_parts'] != case['b_parts']
                nontriv = nontriv and (obs.get('identical_chunks_outside_tail', 0) >= 3 or obs.get('chunks_after_it_outside_tail', 0) >= 3)
                res.cases.append((block_case_small(case, obs), bool(nontriv)))
                count_block_case(res, case, exercised_max)
                if 'resync_over_max' in obs:
                    res.dist.append(obs['resync_over_max'])
                for sig, what in bad:
                    res.violations.append({'sig': sig, 'what': what, 'replay': {'kind': 'blocks', 'case': block_case_full(case), 'observed': obs}})
                # Lean tie on small streams: the model's adapter loop on exactly these blocks
                total = sum(n for _, n, _ in case['a_parts']) + sum(n for _, n, _ in case['b_parts'])
                if c < SMALL_CONST and total <= 12000 and not bad:
                    if drv is None:
                        try:
                            drv = Driver()
                        except Exception:  # noqa: BLE001
                            drv = False
                    if drv:
                        A, B = BL.build_stream(case['a_parts'], cache), BL.build_stream(case['b_parts'], cache)
                        ok = True
                        for S, blocks, lens in ((A, case['a_blocks'], la), (B, case['b_blocks'], lb)):
                            m = drv.ask({'op': 'chunk.all', 'min': case['min'], 'max': case['max'], 'key': case['key'].hex(),
                                         'pieces': [p.hex() for p in BL.iter_blocks(S, blocks)]})
                            if m.get('chunks') != lens:
                                ok = False
                                res.disagreements.append({'what': 'chunk lengths of a stream in size-constant blocks differ between model and implementation',
                                                          'replay': {'kind': 'blocks', 'case': block_case_full(case), 'model': m, 'impl': lens}})
                                break
                        if ok:
                            res.validated += 1
                            res.count('blocks:lean-tie')
    finally:
        if drv:
            res.counts['__driver_requests'] = drv.count
            drv.close()
        _uninstall_recorder()
        shutil.rmtree(WORK / str(os.getpid()), ignore_errors=True)
    return res.__dict__


def snapshot_block_recipe(r, cinfo, align):
    c = cinfo['value']
    ok = [(mn, mx) for mn, mx in BL.PARAM_TABLE if c + BL.TAIL_FACTOR * mx <= SNAP_BLOCK_BUDGET and (c + BL.TAIL_FACTOR * mx) // mx <= 260]
    if not ok:
        return None
    mn, mx = ok[0]
    n = c + r.randint(BL.TAIL_FACTOR, BL.TAIL_FACTOR + 6) * mx + r.randint(0, 7)
    u = 4 * r.randint(0, 4 * mx // 4)
    ek = r.choice(['insert', 'insert', 'delete', 'replace'])
    klen = r.choice([4, 8, 12, 4 * r.randint(1, 64)])
    m1, m2 = {'insert': (0, klen), 'delete': (klen, 0), 'replace': (klen, klen + 4 * r.randint(1, 8))}[ek]
    small = [[f's{j}', [r.getrandbits(48), r.choice([0, 1, 2, 3, 5, 6, 7, 9, 13, mx + 1, r.randint(0, 3 * mx)]), 'random']] for j in range(r.randint(0, 3))]
    U = [[r.getrandbits(48), u, 'random']] if u else []
    M1 = [[r.getrandbits(48), m1, 'random']] if m1 else []
    M2 = [[r.getrandbits(48), m2, 'random']] if m2 else []
    X = [[r.getrandbits(48), n - u - m1, 'random']]
    return {'kind': 'blocks-snapshot', 'const': c, 'where': cinfo['where'], 'min': mn, 'max': mx, 'cls': f'snapshot-edit/{ek}', 'small_files': small,
            'big_name': 'zz-big.img', 'a_parts': U + M1 + X, 'b_parts': U + M2 + X, 'u': u, 'm1': m1, 'm2': m2}


def eval_snapshot_block(rc, align, scratch, tag):
    """two real snapshots (fresh unencrypted local repositories) of a directory whose large file differs by one aligned local edit;
    C11's statement on the two recorded chunker runs.  Returns (violations, observation)."""
    cache = {}
    small = [(nm, BL.make_part(*part)) for nm, part in rc['small_files']]
    bigs = [BL.build_stream(rc['a_parts'], cache), BL.build_stream(rc['b_parts'], cache)]
    runs = []
    for side, big in enumerate(bigs):
        pieces, chunks, data, src = real_snapshot(scratch, rc['min'], rc['max'], small + [(rc['big_name'], big)], f'{tag}_{side}')
        runs.append((pieces, chunks))
    starts = []
    for (pieces, chunks), big in zip(runs, bigs):
        total = sum(len(p) for p in pieces)
        st = total - len(big)
        tail = b''.join(pieces)[st:] if st >= 0 else None
        if tail != big:
            return [('c11:snapshot-file-misplaced', f'the largest file ({len(big)} bytes) is not the end of the snapshot stream ({total} bytes)')], {}
        starts.append(st)
    case = {'kind': 'edit', 'statistical': True, 'min': rc['min'], 'max': rc['max'], 'a': runs[0][0], 'b': runs[1][0],
            'pa': starts[0] + rc['u'] + rc['m1'], 'pb': starts[1] + rc['u'] + rc['m2'], 'u': starts[0] + rc['u'] if starts[0] == starts[1] else 0}
    bad = oracle(case, runs[0][1], runs[1][1], align)
    la, lb = [len(x) for x in runs[0][1]], [len(x) for x in runs[1][1]]
    o = first_common(bounds(la), case['pa'], bounds(lb), case['pb'])
    obs = {'file_start': starts, 'blocks_read': [[len(p) for p in ps][-4:] for ps, _ in runs], 'chunks': [len(la), len(lb)], 'first_common_boundary': o,
           'new_chunks_in_second_snapshot': len(set(runs[1][1]) - set(runs[0][1]))}
    return bad, obs


def snapshot_block_case(r, cinfo, align, res, scratch):
    rc = snapshot_block_recipe(r, cinfo, align)
    if rc is None:
        return
    scratch.mkdir(parents=True, exist_ok=True)
    try:
        bad, obs = eval_snapshot_block(rc, align, scratch, f'bs{cinfo["value"]}')
    except Exception as e:  # noqa: BLE001
        res.disagreements.append({'what': 'Repository.snapshot raised on a generated large-file case', 'replay': {'case': rc, 'error': repr(e)}})
        return
    d = {k: rc[k] for k in ('kind', 'const', 'min', 'max', 'cls', 'u', 'm1', 'm2')}
    d['file_length'] = [sum(n for _, n, _ in rc['a_parts']), sum(n for _, n, _ in rc['b_parts'])]
    d.update(obs)
    res.cases.append((d, obs.get('first_common_boundary') is not None and min(obs.get('chunks', [0])) >= 6))
    res.count('kind:blocks:snapshot-edit:statistical')
    res.count(f'blocks:snapshot:file-just-above-const={rc["const"]}')
    for sig, what in bad:
        res.violations.append({'sig': sig, 'what': f'two real snapshots of a directory whose {d["file_length"][0]}-byte file got a local edit ({rc["cls"]} at {rc["u"]}), '
                               f'file read in blocks {obs.get("blocks_read")}: ' + what, 'replay': dict(rc, observed=obs)})


def plan_block_jobs(seed, tier, consts):
    """[(constant, family)] lists, one per pool job; and what is left out in this tier"""
    thorough = tier != 'quick'
    budget = THOROUGH_BLOCK_BUDGET if thorough else QUICK_BLOCK_BUDGET
    r = rng_for(seed, 'C11-blocks-plan', tier)
    small = [c for c in consts if c['value'] < SMALL_CONST]
    big = [c for c in consts if c['value'] >= SMALL_CONST]
    fits = [c for c in big if BL.params_for(r, c['value'], budget) is not None]
    left = [c['value'] for c in big if c not in fits]
    jobs = []
    pick = small if thorough else r.sample(small, min(6, len(small)))
    step = 6
    for i in range(0, len(pick), step):
        jobs.append([(c, fam) for c in pick[i:i + step] for fam in ('split', 'pair', 'edit')])
    for c in fits:
        if c['value'] >= HUGE_CONST:
            jobs.append([(c, 'split'), (c, 'pair')])
            continue
        for rep in range(4 if thorough else 1):
            jobs += [[(c, 'split')], [(c, 'pair'), (c, 'edit')]]
    snap = [c for c in big if c['value'] >= 65536 and c['value'] + BL.TAIL_FACTOR * 1024 <= SNAP_BLOCK_BUDGET]
    snap = [c for c in snap if any(c['value'] + BL.TAIL_FACTOR * mx <= SNAP_BLOCK_BUDGET and (c['value'] + BL.TAIL_FACTOR * mx) // mx <= 260 for _, mx in BL.PARAM_TABLE)]
    if not thorough and len(snap) > 3:
        # the largest ones are the interesting ones (close to the read size of _stream_files); rotate the rest with the seed
        snap = sorted(snap, key=lambda c: c['value'])
        snap = snap[-2:] + [snap[seed % (len(snap) - 2)]]
    for c in snap:
        jobs.append([(c, 'snapshot')])
    exercised = [c['value'] for c in fits] + [c['value'] for c in pick]
    return jobs, {'exercised': sorted(set(exercised)), 'above_budget_not_exercised': left, 'snapshot_constants': [c['value'] for c in snap],
                  'budget_bytes_per_stream': budget}


# ------------------------------------------------------------------------------------------------ low-entropy content
LOWENT_PLAN = {   # tier -> [(scale, jobs, streams per job)]
    'quick': [('small', 6, 30), ('medium', 2, 15), ('adapter-defaults', 3, 3)],
    'thorough': [('small', 16, 150), ('medium', 4, 40), ('adapter-defaults', 6, 6)],
}


def adapter_defaults():
    from replicat.utils import adapters
    return adapters.gclmulchunker.MIN_LENGTH, adapters.gclmulchunker.MAX_LENGTH


def restart_compare(ta, n, i, b, lens2, K, mx):
    """chunks of a stream of n bytes ((offset, length) table ta, chunk #i starts at its boundary b) vs the chunks of the re-chunked
    window S[b : b+K] (lengths lens2): both restricted to what C11.rechunk_window_from_boundary claims (the chunk starts at least
    2·max before the end of the window and of the stream).  Returns (None | (k, original, re-chunked), chunks compared)."""
    za = []
    for s_, l in ta[i:]:
        if s_ + 2 * mx > n or s_ - b + 2 * mx > K:
            break
        za.append((s_ - b, l))
    zb, off = [], 0
    for l in lens2:
        if off + 2 * mx > K or b + off + 2 * mx > n:
            break
        zb.append((off, l))
        off += l
    if za == zb:
        return None, len(za)
    k = next((j for j, (x, y) in enumerate(zip(za, zb)) if x != y), min(len(za), len(zb)))
    return (k, za[k] if k < len(za) else None, zb[k] if k < len(zb) else None), len(za)


def lowent_restart(c, S, lens, b, K, blocks2):
    """re-chunk the window S[b : b+K] with the real adapter; -> (finding | None, compared, lens2)"""
    mx = c['max']
    T = S[b:b + K]
    lens2, ok2 = impl_cuts(c['min'], mx, bytes.fromhex(c['key']), blocks2 or [[len(T), 1]], T)
    if not ok2:
        return ('c11:not-lossless', 'the chunks of the re-chunked window do not concatenate to it (C10)'), 0, lens2
    ta = table_of_lens(lens)
    i = next((j for j, (s_, _) in enumerate(ta) if s_ == b), None)
    if i is None:
        return None, 0, lens2
    diff, ncmp = restart_compare(ta, len(S), i, b, lens2, len(T), mx)
    if diff is None:
        return None, ncmp, lens2
    k, x, y = diff
    where = LE.tag_boundary(b, c.get('runs', []), mx, len(S))
    run = next((r_ for r_ in c.get('runs', []) if r_[0] <= b < r_[1]), None)
    what = (f'stream of {len(S)} bytes = {LE.describe(c["parts"])}; (min,max)=({c["min"]},{mx}), key={c["key"] or "adapter default (params=None)"}: '
            f'{b} is a boundary of its chunking' + (f' ({run[1] - b} bytes before the end of the run of identical data)' if run else f' ({where})') +
            f'; re-chunking the stream from there (window of {len(T)} bytes) gives chunk #{k} after it (offset, length) = {y} instead of {x}, '
            f'{len(S) - b - (x or y)[0]} bytes before the end (tail zone = last {2 * mx}): the cuts after a boundary depend on the chunks before it')
    return (RESTART_SIG, what), ncmp, lens2


def lowent_pair_native(c, S, lens, align):
    """P1 + X vs P2 + X with X = S[p:] (X starts inside a run), on recipes; -> [(sig, what)], observation"""
    mn, mx, p = c['min'], c['max'], c['p']
    P2 = LE.build(c['p2_parts'])
    B = P2 + S[p:]
    lens_b, okb = impl_cuts(mn, mx, bytes.fromhex(c['key']), c.get('b_blocks') or [[len(B), 1]], B)
    if not okb:
        return [('c11:not-lossless', 'the chunks do not concatenate to the stream (C10), C11 cannot be evaluated')], {}
    case = {'kind': 'lowent', 'cls': c['cls'], 'min': mn, 'max': mx, 'pa': p, 'pb': len(P2), 'u': 0, 'statistical': False}
    bad = oracle_tables(case, table_of_lens(lens), table_of_lens(lens_b), len(S), len(B), align)
    o = first_common(bounds(lens), p, bounds(lens_b), len(P2))
    bad = [(sig, f'stream A = {LE.describe(c["parts"])}, stream B = {LE.describe(c["p2_parts"]) or "nothing"} + A[{p}:] (the shared suffix starts '
            f'inside the run of identical data), (min,max)=({mn},{mx}), key={c["key"] or "adapter default (params=None)"}: ' + what) for sig, what in bad]
    return bad, {'first_common_boundary': o, 'chunks': [len(lens), len(lens_b)],
                 'chunks_after_it_outside_tail': 0 if o is None else sum(1 for s_, _ in table_of_lens(lens) if s_ >= p + o and s_ + 2 * mx <= len(S))}


def lowent_recipe(c):
    d = dict(c)
    d['how_to_rebuild'] = ('stream S = concatenation of parts [style, x, length] (harness/impl/c11_lowent.py::make_part: fill = byte x repeated, unit = hex unit '
                           'repeated, random = random.Random(x).randbytes(length)); handed to gclmulchunker(min_length=min, max_length=max)(blocks, params=key or None) '
                           'in blocks of the run-length encoded lengths; restart: S[b : b+K] is chunked again; pair: build(p2_parts) + S[p:] is chunked')
    return d


def lowent_small_case(c, S, pieces, cls, pa, b_pieces, pb):
    return {'kind': 'lowent', 'cls': cls, 'style': 'lowent:' + c['fill'], 'statistical': False, 'min': c['min'], 'max': c['max'],
            'key': bytes.fromhex(c['key']), 'a': pieces, 'b': b_pieces, 'pa': pa, 'pb': pb, 'u': 0}


def lowent_job(args):
    """one pool job: streams with runs of identical data (harness/impl/c11_lowent.py) — re-chunked from their own boundaries, and as
    shared suffixes that start inside a run; small parameters also through the Lean tie"""
    seed, tier, jid, scale, first, count = args
    use_rebuilt_chunker()
    r = rng_for(seed, 'C11-lowent', tier, jid)
    res = Res()
    drv = None
    try:
        align = impl_alignment()
        thorough = tier != 'quick'
        dmn, dmx = adapter_defaults()
        if scale == 'small':
            try:
                drv = Driver()
            except Exception:  # noqa: BLE001
                drv = None
        combos = len(LE.RUN_CLASSES) * len(LE.FILL_CLASSES)
        tie_cases = []
        for gi in range(first, first + count):
            idx = (seed * 13 + gi * 7) % combos
            run_cls, fill_cls = LE.RUN_CLASSES[idx % len(LE.RUN_CLASSES)], LE.FILL_CLASSES[idx // len(LE.RUN_CLASSES)]
            if scale == 'small':
                mn, mx = r.choice(LE.SMALL_PARAMS) if r.random() < 0.8 else gen_params(r, False)
            elif scale == 'medium':
                mn, mx = r.choice(LE.MEDIUM_PARAMS)
            else:
                mn, mx = dmn, dmx
            forced = LE.ceil_to(mn, align)
            key = b'' if gi % 3 == 0 else gen_key(r)
            layout = None if scale != 'adapter-defaults' else r.choice(['run+data', 'run+data', 'data+run+data'])
            st = LE.gen_stream(r, mn, mx, align, run_cls, fill_cls, layout)
            S = LE.build(st['parts'])
            n = len(S)
            if scale == 'small':
                pieces = segment(r, S)
                blocks = BL.rle([len(x) for x in pieces])
                seg = 'one-block' if len(pieces) == 1 else 'random-blocks'
            else:
                seg = r.choice(['one-block', 'one-block', 'scan-window-blocks', 'natural'])
                blocks = [[n, 1]] if seg == 'one-block' else BL.fill(n, LE.ceil_to(mx, align)) if seg == 'scan-window-blocks' else \
                    BL.fill(n, 1 << 20 if mx > (1 << 20) else max(1, mx // 3))
            c = {'kind': 'lowent', 'family': 'restart', 'scale': scale, 'min': mn, 'max': mx, 'key': key.hex(), 'parts': st['parts'], 'runs': st['runs'],
                 'layout': st['layout'], 'fill': fill_cls, 'run_length_class': run_cls, 'blocks': blocks, 'seg': seg}
            try:
                lens, ok = impl_cuts(mn, mx, key, blocks, S)
            except Exception as e:  # noqa: BLE001
                res.cases.append(({k: c[k] for k in ('kind', 'family', 'scale', 'min', 'max', 'fill', 'run_length_class', 'layout')}, False))
                res.disagreements.append({'what': 'implementation raised on a generated low-entropy stream', 'replay': {'kind': 'lowent', 'case': lowent_recipe(c), 'error': repr(e)}})
                continue
            res.count('kind:lowent:restart')
            res.count('lowent:params:' + ('small(+lean-tie)' if scale == 'small' else 'medium(native)' if scale == 'medium' else f'adapter-defaults({mn},{mx})(native)'))
            res.count('lowent:fill:' + fill_cls)
            res.count('lowent:run-length:' + run_cls)
            res.count('lowent:layout:' + st['layout'])
            res.count('lowent:run-residue:' + st['residue'])
            res.count('lowent:key:' + ('adapter-default(params=None)' if not key else 'random'))
            res.count('lowent:blocks:' + seg)
            res.count('lowent:fill×key:' + fill_cls + '×' + ('default' if not key else 'random'))
            if not ok:
                res.violations.append({'sig': 'c11:not-lossless', 'what': 'the chunks do not concatenate to the stream (C10), C11 cannot be evaluated',
                                       'replay': {'kind': 'lowent', 'case': lowent_recipe(c)}})
                continue
            bs = bounds(lens)
            ta = table_of_lens(lens)
            # --- how the chunking leaves the run: is this a stream on which "same data, same cut" is wrong?
            for start, end, _, _ in st['runs']:
                inside = [(s_, l) for s_, l in ta if start <= s_ < end and end - s_ < mx and s_ + 2 * mx <= n]
                if any(s_ + l > end or l != forced for s_, l in inside):
                    res.count('lowent:run-left-by-a-cut-in-the-following-data(not the forced length)')
                elif inside:
                    res.count('lowent:run-left-by-forced-cuts-only')
            # --- restart: re-chunk from the stream's own boundaries
            limit = None if scale == 'small' or (thorough and scale == 'medium') else 40 if scale == 'medium' else (24 if thorough else 9)
            picked = LE.pick_boundaries(r, bs, st['runs'], mx, forced, n, limit)
            kfac = r.choice([3, 4, 4, 6]) if scale != 'adapter-defaults' else 3
            found, compared, sens = [], 0, 0
            for b, tag in picked:
                K = min(n - b, kfac * mx + r.randint(0, 7))
                blocks2 = None if r.random() < 0.7 else BL.fill(K, max(1, mx - r.randint(0, 3)))
                bad, ncmp, lens2 = lowent_restart(c, S, lens, b, K, blocks2)
                compared += ncmp
                res.extra_evals += 1
                res.count('lowent:restart-boundary:' + tag)
                sens += tag == 'in-run:window-reaches-following-data' and ncmp > 0
                if bad is not None:
                    found.append((b, K, blocks2, bad, lens2))
            for b, K, blocks2, (sig, what), lens2 in found[:2]:
                res.violations.append({'sig': sig, 'what': what, 'replay': {'kind': 'lowent', 'case': lowent_recipe(dict(c, b=b, K=K, blocks2=blocks2)),
                                                                            'observed': {'chunks_of_the_stream': lens[:60], 'chunks_of_the_window': lens2[:30]}}})
            small_d = {k: c[k] for k in ('kind', 'family', 'scale', 'min', 'max', 'key', 'fill', 'run_length_class', 'layout', 'seg')}
            small_d.update(length=n, runs=[[a, e] for a, e, _, _ in st['runs']], chunks=len(lens), boundaries_rechunked=len(picked),
                           of_them_inside_a_run_with_the_window_reaching_the_following_data=sens, chunks_compared=compared,
                           recipe_digest=digest([st['parts'], blocks]))
            res.cases.append((small_d, sens > 0 and compared >= 3))
            # --- pair: the shared suffix starts inside a run
            pairs = LE.gen_pairs(r, st, mn, mx, align, 2 if scale != 'adapter-defaults' else 1)
            for p, rem_cls, p2_cls, p2_parts in pairs:
                cls = f'lowent-pair/{p2_cls}'
                res.count('lowent:pair:run-left-after-the-shared-start:' + rem_cls)
                if scale == 'small':
                    P2 = LE.build(p2_parts)
                    tie_cases.append(lowent_small_case(c, S, pieces, cls, p, segment(r, P2 + S[p:]), len(P2)))
                    continue
                pc = dict(c, family='pair', cls=cls, p=p, p2_parts=p2_parts, b_blocks=None)
                bad, obs = lowent_pair_native(pc, S, lens, align)
                res.count('kind:lowent:pair(native)')
                res.count('class:' + cls)
                d = {k: pc[k] for k in ('kind', 'family', 'scale', 'cls', 'min', 'max', 'key', 'fill', 'run_length_class', 'layout', 'p')}
                d.update(obs, length=n, recipe_digest=digest([st['parts'], p, p2_parts]))
                res.cases.append((d, obs.get('chunks_after_it_outside_tail', 0) >= 3))
                for sig, what in bad:
                    res.violations.append({'sig': sig, 'what': what, 'replay': {'kind': 'lowent', 'case': lowent_recipe(pc), 'observed': obs}})
            if scale == 'small':
                # Lean tie: the model's adapter loop on exactly these blocks, and the restart at the most sensitive boundaries as a
                # pair (S, S[b:]) through `chunk.sync` (suffix_sync instance: both continue with greedy(S.drop b))
                if drv is not None:
                    m = drv.ask({'op': 'chunk.all', 'min': mn, 'max': mx, 'key': model_key_hex(key), 'pieces': [x.hex() for x in pieces]})
                    if m.get('chunks') != lens:
                        res.disagreements.append({'what': 'chunk lengths of a low-entropy stream differ between model and implementation',
                                                  'replay': {'kind': 'lowent', 'case': lowent_recipe(c), 'model': m, 'impl': lens}})
                    else:
                        res.validated += 1
                        res.count('lowent:lean-tie')
                sensitive = [b for b, tag in picked if tag == 'in-run:window-reaches-following-data']
                chosen = sensitive[-1:] + ([r.choice(sensitive)] if len(sensitive) > 1 else []) + [b for b, _, _, _, _ in found[:1]]
                for b in sorted(set(chosen)):
                    tie_cases.append(lowent_small_case(c, S, pieces, 'lowent-restart/' + LE.tag_boundary(b, st['runs'], mx, n), b, [S[b:]], 0))
        for i in range(0, len(tie_cases), 100):
            check_cases(tie_cases[i:i + 100], drv, res, align)
    finally:
        if drv is not None:
            res.counts['__driver_requests'] = drv.count
            drv.close()
    return res.__dict__


def plan_lowent_jobs(seed, tier):
    jobs, first = [], 0
    for scale, n_jobs, per in LOWENT_PLAN['quick' if tier == 'quick' else 'thorough']:
        for _ in range(n_jobs):
            jobs.append(('lowent', seed, tier, len(jobs), scale, first, per))
            first += per
    return jobs


def pool_job(args):
    if args[0] == 'blocks':
        return block_job(args[1:])
    if args[0] == 'lowent':
        return lowent_job(args[1:])
    return batch(args)


# ------------------------------------------------------------------------------------------------ entry points
def run(out, drv, info):
    quick = out.tier == 'quick'
    ncpu = min(16, os.cpu_count() or 2)
    if quick:
        workers, per = min(8, ncpu), (80, 80, 6)
    else:
        workers, per = ncpu, (1500, 1500, 60)
    out.rule = ('cases = pairs (P1+X, P2+X) with prefix lengths congruent mod alignment (classes: 0-vs-k, small, around max, multiples of max, equal length, '
                'congruent-not-multiple, nested) and edits U+M+X → U+M\'+X (insert/delete/overwrite/replace/flip-byte × position classes relative to the '
                'real boundaries: start, first chunk, at/±4/+1 a boundary, mid chunk (aligned/unaligned), tail zone, end), every stream in an independent random '
                'segmentation (single, equal, 1-byte, with empty pieces, random); data random / zeros / periodic / 4-letter text / sparse; (min,max) valid incl. '
                'max%4≠0 and min=max; + pairs of real snapshots sharing one file at different offsets; + key pairs. non-trivial = streams differ, a common '
                'boundary exists and ≥ 3 chunks follow it outside the tail zone (snapshots: different offsets and ≥ 3 identical chunks inside the file); '
                'distinct = hash of (params, key, both piece lists). Statistical clauses (labelled): only random data with min ≤ max/16. '
                '+ BLOCK SIZES: for every integer constant c ≥ 2 of adapters.py / repository.py / adapters.cpp (below 4096: 6 per run, with the Lean tie; '
                'up to the tier\'s budget per stream: all) streams of m·c + (28..36)·max bytes (m ≤ 3) handed over as one block, and with blocks of '
                'c-δ / c / c+δ / c+(3..8)·max / 2c / (3..5)·c as last / first / middle / every / last two blocks, each compared with the same stream in '
                'blocks below c (split independence), as pairs with shifted shared data and as local edits (early / just before c / after c), '
                'and as two real snapshots of a directory whose large file (just above c) got an aligned local edit. '
                '+ LOW-ENTROPY CONTENT (harness/impl/c11_lowent.py): streams with a RUN of identical data — one byte (0x00, 0xFF, others) or a repeated unit whose '
                'length divides the forced chunk length (control: does not divide) — of a length just below / at / just above one scan window, max+min, 2·max, and '
                'several max, FOLLOWED by ordinary data (layouts: run first, after data, two runs, to the end, short rest), keys: adapter default and random, '
                'parameters: small (with the Lean tie), medium, and the adapter\'s defaults on the natively rebuilt chunker. Each stream is re-chunked from its own '
                'boundaries (small: all; otherwise those inside the run near its end first) — the chunks after a boundary must not depend on what came before it — '
                'and used as a shared suffix that starts inside the run. Every (run length × fill) class is visited in rotation; sensitive = a boundary inside the '
                'run from which the scan window reaches the following data.')
    out.assumptions = ['the keyed CLMUL hash is an arbitrary function in every theorem; its executable model is validated here against the rebuilt C++',
                       f'STATISTICAL (not proved): hash values of distinct windows behave like independent uniform draws; resync bound D = {D_FACTOR}·max chosen '
                       'from a measured geometric tail (≈ 4e-2, 4e-4, 1e-5 beyond 1, 2, 3·max; conservative ratio 1/20 per max ⇒ < 1e-15 per case); '
                       f'distinct random keys differ on ≥ {KEY_DATA_FACTOR}·max random bytes',
                       'CPU PCLMULQDQ, CPython bytearray slicing, local file system of the scratch repository']
    jobs = [(out.seed, out.tier, w, *per) for w in range(workers)]
    # input blocks of every size class: sizes derived from the integer constants of the source (the same function the extractor
    # uses for Gen.sizeConstants); big streams first so that they overlap with the small-parameter batches
    consts = BL.size_constants(REPO)
    plan, plan_info = plan_block_jobs(out.seed, out.tier, consts)
    exercised_max = max(plan_info['exercised'] or [0])
    bjobs = [('blocks', out.seed, out.tier, j, todo, exercised_max) for j, todo in enumerate(plan)]
    bjobs.sort(key=lambda a: -max(c['value'] for c, _ in a[4]))
    thr, thr_notes = BL.block_thresholds(REPO / 'replicat' / 'utils' / 'adapters.py')
    out.extra['block_sizes'] = dict(plan_info, size_constants=[c['value'] for c in consts],
                                    adapter_block_thresholds=thr, adapter_block_threshold_sites=thr_notes, jobs=len(bjobs))
    for v in plan_info['above_budget_not_exercised']:
        out.count(f'blocks:const={v}:above-this-tier\'s-budget(NOT exercised)')
    ctx = multiprocessing.get_context('fork')
    ljobs = plan_lowent_jobs(out.seed, out.tier)
    # the jobs at the adapter's default parameters are the longest of them: first
    ljobs.sort(key=lambda a: {'adapter-defaults': 0, 'medium': 1, 'small': 2}[a[4]])
    out.extra['low_entropy'] = {'jobs': len(ljobs), 'streams': sum(a[6] for a in ljobs), 'run_length_classes': LE.RUN_CLASSES, 'fill_classes': LE.FILL_CLASSES,
                                'adapter_defaults': list(adapter_defaults())}
    with ctx.Pool(min(ncpu, workers + (4 if quick else 0))) as pool:
        t_pool = time.time()
        results = pool.map(pool_job, bjobs + ljobs + jobs, chunksize=1)
        out.extra['phase_s'] = {'pool(batches + block jobs)': round(time.time() - t_pool, 1)}
    dists = []
    dreq = 0
    viol = []
    for res in results:
        for case, nt in res['cases']:
            out.case(case, nt)
        for k, v in res['counts'].items():
            if k == '__driver_requests':
                dreq += v
            else:
                out.count(k, v)
        viol += res['violations']
        for d in res['disagreements']:
            out.disagreement(d['what'], d['replay'])
        out.traces_validated += res['validated']
        dists += res['dist']
    # report the simplest failing inputs first: block cases built from a constant the adapter loop itself uses, then shorter streams

    def simplicity(v):
        c = v['replay'].get('case', v['replay']) if v['replay'].get('kind', '').startswith('blocks') else None
        if c is None:
            if v['replay'].get('kind') == 'lowent':      # recipes: the shortest stream first (small parameters before the adapter's defaults)
                return (0, 1, LE.total(v['replay']['case'].get('parts', [])))
            return (0, 0, 0)
        return (1, 0 if c.get('const') in (thr or []) else 1, sum(n for _, n, _ in c.get('a_parts', [])))
    for v in sorted(viol, key=simplicity):
        out.violation(v['sig'], v['what'], v['replay'])
    if dists:
        dists.sort()
        out.extra['resync_distance_over_max(statistical cases)'] = {
            'n': len(dists), 'median': dists[len(dists) // 2], 'p99': dists[int(len(dists) * 0.99)], 'max': dists[-1], 'bound': D_FACTOR}
    out.extra['worker_driver_requests'] = dreq
    r = rng_for(out.seed, 'C11-main', out.tier)
    t_rest = time.time()
    corpus_part(out, drv)
    keys_part(out, drv, r, 24 if quick else 400)
    scratch = WORK / str(os.getpid()) / 'c11'
    try:
        scratch.mkdir(parents=True, exist_ok=True)
        snapshot_part(out, drv, r, 14 if quick else 150, scratch)
    finally:
        _uninstall_recorder()
        shutil.rmtree(WORK / str(os.getpid()), ignore_errors=True)
    if not quick:
        big_part(out, r)
    out.extra['phase_s']['corpus + keys + snapshots'] = round(time.time() - t_rest, 1)


def big_part(out, r):
    """thorough tier, implementation only: realistic sizes (the model is too slow there; the theorems do not depend on sizes)."""
    align = impl_alignment()
    for mn, mx in ((4096, 65536), (128_000, 5_120_000)):
        n = (D_FACTOR + 4) * mx
        X = r.randbytes(n)
        key = gen_key(r)
        c = {'kind': 'pair', 'cls': 'big', 'style': 'random', 'statistical': True, 'min': mn, 'max': mx, 'key': key,
             'a': [r.randbytes(4 * r.randint(1, 1000)) + X], 'b': [r.randbytes(4 * r.randint(1001, 5000)), X[:12345], X[12345:]], 'u': 0}
        c['pa'], c['pb'] = len(c['a'][0]) - n, len(c['b'][0])
        ca, cb = impl_chunks(mn, mx, key, c['a']), impl_chunks(mn, mx, key, c['b'])
        obs = observe(c, ca, cb)
        out.case({'kind': 'pair', 'cls': 'big', 'min': mn, 'max': mx, 'n': n, 'first_common_boundary': obs['common']}, True)
        out.count('kind:pair:big(impl only)')
        for sig, what in oracle(c, ca, cb, align):
            out.violation(sig, what, {'kind': 'big', 'min': mn, 'max': mx, 'note': 'stream too large to store; regenerate with the seed', 'observed_common': obs['common']})


def replay(path, drv):
    use_rebuilt_chunker()
    d = json.load(open(path))
    rp = d.get('replay', d)
    kind = rp.get('kind')
    if kind == 'pair':
        c = unfull(rp['case'])
        ca, cb = impl_chunks(c['min'], c['max'], c['key'], c['a']), impl_chunks(c['min'], c['max'], c['key'], c['b'])
        bad = oracle(c, ca, cb, impl_alignment())
        print('lens A', [len(x) for x in ca][:40], '\nlens B', [len(x) for x in cb][:40], '\noracle:', bad)
        return 1 if bad else 0
    if kind == 'blocks':
        c = dict(rp['case'])
        c['key'] = bytes.fromhex(c['key'])
        bad, obs, la, lb = eval_block_case(c, impl_alignment(), {}, {})
        print('blocks A', BL.block_summary(c['a_blocks']), 'blocks B', BL.block_summary(c['b_blocks']),
              '\nlens A', la[:20], '…', '\nlens B', lb[:20], '…', '\nobserved', obs, '\noracle:', bad)
        return 1 if bad else 0
    if kind == 'lowent':
        c = rp['case']
        S = LE.build(c['parts'])
        lens, ok = impl_cuts(c['min'], c['max'], bytes.fromhex(c['key']), c['blocks'], S)
        print('stream:', LE.describe(c['parts']), '\nchunks', lens[:60], '…' if len(lens) > 60 else '', 'loss-free' if ok else 'NOT LOSS-FREE')
        if c.get('family') == 'pair':
            bad, obs = lowent_pair_native(c, S, lens, impl_alignment())
            print('observed', obs, '\noracle:', bad)
        elif 'b' in c:
            one, ncmp, lens2 = lowent_restart(c, S, lens, c['b'], c['K'], c.get('blocks2'))
            bad = [one] if one else []
            print(f're-chunked from boundary {c["b"]} (window {c["K"]}):', lens2[:30], f'\n{ncmp} chunks compared', '\noracle:', bad)
        else:
            bad = [] if ok else [('c11:not-lossless', '')]
        return 1 if bad else 0
    if kind == 'blocks-snapshot':
        scratch = WORK / str(os.getpid()) / 'c11b'
        try:
            scratch.mkdir(parents=True, exist_ok=True)
            rc = {k: v for k, v in rp.items() if k != 'observed'}
            bad, obs = eval_snapshot_block(rc, impl_alignment(), scratch, 'replay')
            print('observed', obs, '\noracle:', bad)
            return 1 if bad else 0
        finally:
            _uninstall_recorder()
            shutil.rmtree(WORK / str(os.getpid()), ignore_errors=True)
    if kind == 'keys':
        S = bytes.fromhex(rp['data'])
        k1, k2 = bytes.fromhex(rp['key1']), bytes.fromhex(rp['key2'])
        if rp.get('via'):
            from replicat.repository import RepositoryProps
            from replicat.utils import adapters
            ch = adapters.gclmulchunker(min_length=rp['min'], max_length=rp['max'])
            l1 = [len(c) for c in RepositoryProps(chunker=ch, hasher=None, cipher=object(), private={'chunker_params': k1}).chunkify(iter([S]))]
            l2 = [len(c) for c in RepositoryProps(chunker=ch, hasher=None, cipher=object(), private={'chunker_params': k2}).chunkify(iter([S]))]
        else:
            l1 = [len(c) for c in impl_chunks(rp['min'], rp['max'], k1, [S])]
            l2 = [len(c) for c in impl_chunks(rp['min'], rp['max'], k2, [S])]
        print('key1', l1[:20], '\nkey2', l2[:20])
        return 1 if l1 == l2 else 0
    if kind == 'snapshot':
        scratch = WORK / str(os.getpid()) / 'c11'
        try:
            scratch.mkdir(parents=True, exist_ok=True)
            F = bytes.fromhex(rp['shared'])
            filesets = [([(nm, bytes.fromhex(x)) for nm, x in fs['files']], fs['shared_name']) for fs in rp['filesets']]
            runs = []
            for side, (files, fname) in enumerate(filesets):
                pieces, chunks, data, src = real_snapshot(scratch, rp['min'], rp['max'], files, f'replay_{side}')
                runs.append((b''.join(pieces), chunks, file_starts_from_snapshot(data, chunks, src)))
            bad, info = snapshot_oracle(rp['min'], rp['max'], impl_alignment(), F, filesets, runs)
            print('starts', [x[2] for x in runs], '\ninfo', info, '\noracle:', bad)
            return 1 if bad else 0
        finally:
            _uninstall_recorder()
            shutil.rmtree(WORK / str(os.getpid()), ignore_errors=True)
    print('replay kind not supported:', kind)
    return 2
