"""C07 — identical data is stored once.

Tie: (1) the random histories of `impl/history.py` (own label, so other histories than C02's) — every real command is compared
with the Lean model `repo.step` (object map, error kind, UPLOADED CHUNK SET) and its backend trace with `trace.accepts`;
(2) targeted de-duplication cases: a file set with identical files, shared prefixes / suffixes and a block repeated inside one
file is snapshotted by the owner at concurrency 1…8, then again by the owner, a clone and a shared-key user, then by an
independent-key user, then modified — each step compared with the model and with the direct oracles.
(3) racy uploads (`impl/histx.py::conc_case`): k = 2…4 REAL snapshot coroutines of several users overlap on one backend, pools of
1–5 workers, every `exists` / `upload` call gated and released mostly observations-first, data with chunks repeated inside one
command and shared between commands — so that several workers see one new chunk absent and all upload it.  The per-call trace is
replayed by the concurrent model (`repo.conc`), which must accept it and count uploads / absent observations per (command, chunk)
exactly as observed (`racy_upload_bounded`).
Theorems: Properties/C07.lean (`name_injective`, `stored_once`, `exact_step`, `exact_after_history`, `exact_from_init`,
`repeat_uploads_nothing`, `repeat_snapshot_uploads_nothing`, `shared_reuse`, `uploads_distinct`, `independent_no_alias`,
`racy_upload_bounded`).

Direct oracles on the REAL backend: chunk objects of every family == chunks referenced by its remaining snapshots (families
with an un-cleaned injected orphan excepted); a chunk already stored is never uploaded again; a snapshot of unchanged data by
the same / clone / shared user issues no chunk upload at all (`upload_count == 0`, `upload_payloads` unchanged); one
(family, content) never lives under two locations; a snapshot never changes another family's objects.
Racy executions: all uploads of one location decrypt to the same plaintext (`dedup:duplicate-upload-differs`); every upload follows
an absent observation of the same worker pool, one upload per observation (`dedup:upload-without-absent-observation`); a command
uploads one chunk at most once per worker and per occurrence in its data (`dedup:more-uploads-than-workers`, `…-than-occurrences`);
a chunk stored before the execution is never uploaded (`dedup:present-chunk-uploaded-again`); every new chunk is uploaded by
somebody (`dedup:new-chunk-never-uploaded`); at the end the chunk objects of every family are exactly the referenced ones.
"""
import json
import multiprocessing as mp
import os

from ..common import rng_for
from ..impl import histx as X
from ..impl import runner as R
from ..impl.world import World

ORACLES = {'c07'}
EXTRA = [X.c07_oracles]


def dedup_case(arg):
    seed, idx = arg
    from .. import common
    common.use_rebuilt_chunker()
    r = rng_for(seed, 'C07-dedup', idx)
    res = {'idx': idx, 'violations': [], 'steps': []}
    enc = r.random() < 0.8
    conc = r.choice([1, 2, 3, 4, 6, 8])
    chunking = r.choice([(8, 32), (16, 64), (5, 12), (13, 50), (32, 128)])
    # command options that must not influence what is stored: bandwidth limit and connection count vary from one command to the next,
    # on data larger than any read-ahead / transfer block derived from them (limiter sleeps are skipped: only their effect on the data path matters)
    vary = r.random() < 0.5
    big = r.choice([0, 5_000, 20_000, 70_000]) if vary else 0
    if big:
        chunking = r.choice([(32, 128), (64, 256), (100, 1000)])
    LIMITS = [None, 1, 700, 3_000, 4_096, 5_000, 9_000, 20_000, 10 ** 6, 10 ** 9]
    if vary:
        import time
        time.sleep = lambda s: None
    res['options'] = []
    with R.Scratch(f'c07d_{idx}') as sc:
        w = World(sc, enc=enc, chunking=chunking, concurrent=conc, async_backend=r.random() < 0.4,
                  cipher=r.choice([None, {'name': 'chacha20_poly1305'}]) if enc else None)
        clone = w.add_user('clone', 0)
        shared = w.add_user('shared', 0) if enc else clone
        indep = w.add_user('independent', 0) if enc else None
        mx = chunking[1]
        b1, b2, b3 = r.randbytes(3 * mx + 7), r.randbytes(2 * mx), r.randbytes(mx + 3)
        fs = {'same1': b1 + b2, 'same2': b1 + b2, 'pre': b1 + r.randbytes(9), 'suf': r.randbytes(4 * r.randint(0, 3)) + b1,
              'rep': b3 * r.choice([2, 4, 6]), 'zero': bytes(r.choice([0, mx, 5 * mx])), 'dir/x': b2}
        for k in r.sample(sorted(fs), r.choice([0, 1, 2])):
            del fs[k]
        if big:
            fs['big'] = r.randbytes(big + r.randrange(3))
        others = {}

        def step(ui, fileset, label, expect_nothing):
            before = w.abstract_store(others)
            pay0 = w.backend.upload_payloads
            lim = r.choice(LIMITS) if vary else None
            cc = r.choice([1, 2, 3, 4, 6, 8]) if vary else conc
            res['options'].append((label, lim, cc))
            snap = w.snapshot(ui, fileset, repo=w.repo(ui, concurrent=cc), rate_limit=lim)
            after = w.abstract_store(others)
            puts = [t for t in snap['trace'] if t[0] == 'put' and t[1].startswith('data/')]
            st = {'label': label, 'user': w.model_user(ui), 'kind': w.users[ui].kind, 'op': snap['op'], 'before': before, 'after': after,
                  'uploaded': sorted({tuple(w.abstract_name(x)) for x in snap['uploaded']}), 'chunk_puts': len(puts),
                  'payload_bytes': w.backend.upload_payloads - pay0, 'distinct': len(set(snap['op']['stream'])), 'stream': len(snap['op']['stream'])}
            res['steps'].append(st)
            fam = w.users[ui].fam
            if expect_nothing and (puts or st['payload_bytes']):
                res['violations'].append(('dedup:repeat-snapshot-uploaded-chunks',
                                          f'{label}: snapshot of unchanged data by {w.users[ui].kind} user at concurrency {cc}, rate limit {lim} (earlier commands: {res["options"][:-1]}) issued {len(puts)} chunk uploads ({st["payload_bytes"]} payload bytes)', {}))
            present_before = {tuple(e[0][1:]) for e in before if e[0][0] == 'chunk'}
            again = [x for x in st['uploaded'] if tuple(x[1:]) in present_before]
            if again:
                res['violations'].append(('dedup:present-chunk-uploaded-again', f'{label}: chunks already stored were uploaded again: {again[:3]}', {}))
            objs = {e[0][2] for e in after if e[0][0] == 'chunk' and e[0][1] == fam}
            refs = {c for e in after if e[0][0] == 'snap' and e[0][1] == fam and e[1][0] == 'snap' for c in e[1][3]['chunks']}
            if objs != refs:
                res['violations'].append(('dedup:objects-differ-from-referenced', f'{label}: family {fam} stores {len(objs)} chunk objects for {len(refs)} distinct referenced chunks', {}))
            locs = [l for l in w.backend.objects if l.startswith('data/')]
            if len(locs) != len({w.chunk_names.get(l) for l in locs}) or any(l not in w.chunk_names for l in locs):
                res['violations'].append(('dedup:same-chunk-stored-twice', f'{label}: the objects under data/ are not one per (family, content)', {}))
            return snap

        step(0, fs, 'first', False)
        order = [0, clone, shared]
        r.shuffle(order)
        for ui in order:
            step(ui, fs, 'repeat', True)
        if indep is not None:
            before_locs = set(w.backend.objects)
            s1 = step(indep, fs, 'independent-first', False)
            if set(s1['uploaded']) & before_locs:
                res['violations'].append(('dedup:independent-alias', 'an independent-key user wrote to a location that existed before', {}))
            if s1['op']['stream'] and not s1['uploaded']:
                res['violations'].append(('dedup:independent-alias', 'an independent-key user uploaded nothing: it reused another family\'s objects', {}))
            step(indep, fs, 'independent-repeat', True)
        fs2 = dict(fs)
        fs2['new'] = r.randbytes(2 * mx + 5)
        if 'pre' in fs2:
            fs2['pre'] = fs2['pre'] + b'tail'
        step(r.choice(order), fs2, 'modified', False)
        step(r.choice(order), fs2, 'modified-repeat', True)
        res['summary'] = {'options': res['options'] if vary else None, 'big': big, 'enc': enc, 'concurrent': conc, 'chunking': list(chunking), 'files': sorted(fs), 'steps': [(s['label'], s['kind'], s['chunk_puts'], s['distinct'], s['stream']) for s in res['steps']]}
        res['dup_in_stream'] = any(s['distinct'] < s['stream'] for s in res['steps'])
    return res


def live_case(arg):
    """A small file changes between the moment the command collected (stat-ed, ordered) its files and the moment it reads it — a live log,
    a rotated file.  Whatever was read, the data of the OTHER, unchanged files must still de-duplicate against the previous snapshot:
    the bytes uploaded again stay within the edited file + the re-synchronisation window of the chunker (C11: 16·max, min ≤ max/16)."""
    seed, idx = arg
    from .. import common
    from ..impl.livefile import live_edit
    common.use_rebuilt_chunker()
    r = rng_for(seed, 'C07-live', idx)
    res = {'idx': idx, 'violations': []}
    enc = r.random() < 0.7
    chunking = r.choice([(8, 128), (16, 256), (8, 256)])
    mx = chunking[1]
    conc = r.choice([1, 2, 4])
    with R.Scratch(f'c07l_{idx}') as sc:
        w = World(sc, enc=enc, chunking=chunking, concurrent=conc, async_backend=r.random() < 0.4)
        live = r.randbytes(r.randrange(1, 3 * mx))
        mode = r.choice(['grow', 'grow', 'shrink', 'empty', 'removed', 'denied'])
        k = r.choice([1, 2, 3, 5, 6, 7, 9, 13, 4, 8])
        post = live + r.randbytes(k) if mode == 'grow' else live[:max(0, len(live) - k)] if mode == 'shrink' else b''
        fs = {'a.log': live, 'data.bin': r.randbytes(60 * mx + r.randrange(4)), 'more.bin': r.randbytes(25 * mx + r.randrange(4))}
        if mode in ('removed', 'denied'):
            # the file vanishes / can no longer be opened when its turn comes; a smaller file is streamed before it
            from ..impl.livefile import DENY
            fs['a.log'] = live = live + r.randbytes(8)
            fs['z.cfg'] = r.randbytes(r.choice([1, 2, 3, 5, 6, 7]))
            post = b''
        w.snapshot(0, fs)
        try:
            with live_edit(w.src / 'a.log', post if mode not in ('removed', 'denied') else (None if mode == 'removed' else DENY)) as st:
                second = w.snapshot(0, fs)
            st['done'] = st['done'] or bool(st.get('fired'))
        except Exception as e:  # noqa: BLE001   (a command that refuses such a tree stores nothing: nothing to compare)
            res['summary'] = {'enc': enc, 'chunking': list(chunking), 'concurrent': conc, 'mode': mode + ':snapshot-raised:' + type(e).__name__, 'delta': 0, 'live': len(live),
                              'edited-when-read': True, 'reuploaded': 0, 'bound': 0, 'unchanged-bytes': 0}
            return res
        cid2len = {c_id: len(c_bytes) for c_bytes, c_id in w.contents.items()}
        again = sum(cid2len[w.chunk_names[l][1]] for l in set(second['uploaded']))
        bound = len(post) + 3 + 18 * mx
        total = sum(len(v) for v in fs.values())
        res['summary'] = {'enc': enc, 'chunking': list(chunking), 'concurrent': conc, 'mode': mode, 'delta': len(post) - len(live), 'live': len(live), 'edited-when-read': st['done'],
                          'reuploaded': again, 'bound': bound, 'unchanged-bytes': total - len(live)}
        if st['done'] and again > bound:
            res['violations'].append(('dedup:unchanged-files-reuploaded-after-live-edit',
                                      f'a {len(live)}-byte file became {len(post)} bytes between the collection of files and its read ({mode}); the second snapshot uploaded {again} chunk bytes again '
                                      f'although only that file changed (bound: edited file + re-synchronisation window = {bound}; unchanged data: {total - len(live)} bytes); chunking {chunking}, concurrency {conc}', {}))
    return res


def check_dedup_model(res, drv, out, enc):
    bad = 0
    for st in res['steps']:
        m = drv.ask({'op': 'repo.step', 'enc': enc, 'store': st['before'], 'cmd': st['op']})
        if 'store' not in m:
            out.disagreement('driver error: ' + str(m.get('error')), {'kind': 'dedup', 'idx': res['idx']})
            bad += 1
            continue
        probs = []
        if X.H.canon_store(m['store']) != X.H.canon_store(st['after']):
            probs.append('object map differs')
        if sorted(tuple(x) for x in m['uploaded']) != [tuple(x) for x in st['uploaded']]:
            probs.append(f'uploaded set: model {m["uploaded"][:3]} implementation {st["uploaded"][:3]}')
        if probs:
            bad += 1
            out.disagreement(f'dedup step {st["label"]} by {st["kind"]}: ' + '; '.join(probs), {'kind': 'dedup', 'idx': res['idx']})
        else:
            out.traces_validated += 1
    return bad


def run(out, drv, info):
    quick = out.tier == 'quick'
    n_hist, n_ops = (120, 12) if quick else (1000, 30)
    out.rule = ('history cases as in C02 (own seed label), non-trivial = some snapshot whose data repeats a block inside itself or shares ≥ 1 chunk with data its family already '
                'stores; de-duplication cases = file set with identical files / shared prefix / shared suffix at a shifted offset / block repeated inside a file / zero runs, '
                '(min,max) from 5 settings (+3 with a 5–70 kB file), concurrency 1–8, in half of the cases bandwidth limit (none, 1 B/s … 1 GB/s) and connection count re-drawn for every command, first snapshot, repeats by owner / clone / shared-key user, independent-key user, modified data; '
                'non-trivial = the chunk stream of some step contains a repeated chunk; distinct = hash of the case summary; '
                'live-edit cases = a small file grows / shrinks / is emptied between the collection of files and its read while two larger files stay unchanged, non-trivial = edit length not a multiple of the alignment; '
                'racy-upload cases = 2–4 overlapping real snapshot coroutines (pools of 1–5 workers, gated backend calls released observations-first / randomly / one command first, '
                'data with zero runs, repeated blocks and blocks shared between the commands, 0–2 snapshots stored before), non-trivial = ≥ 1 chunk location was uploaded more than once')
    out.assumptions = ['ideal cryptography: digest = content id, MAC names injective per key family (DESIGN.md §4)',
                       'chunk boundaries are a pure function of content and family key (C10); crash-free histories',
                       'inside one FIRST snapshot two workers may upload the same new chunk twice (one object): the sequential model steps of (1), (2) compare upload SETS; the racy-upload cases (3) replay every single call on the concurrent model and bound the duplicates (racy_upload_bounded)']
    X.run(out, drv, 'C07', n_hist, n_ops, ORACLES, X.c07_nontrivial, EXTRA)
    X.run_conc(out, drv, 'C07-conc', 48 if quick else 600, 'c07')
    n = 60 if quick else 900
    with mp.get_context('fork').Pool(min(16, os.cpu_count() or 4)) as pool:
        results = pool.map(dedup_case, [(out.seed, i) for i in range(n)], chunksize=1)
    for res in results:
        out.case(res['summary'], res['dup_in_stream'])
        out.count('dedup-case')
        out.count('dedup:conc=%d' % res['summary']['concurrent'])
        out.count('dedup:options-vary-between-commands' if res['summary']['options'] else 'dedup:same-options-every-command')
        if res['summary']['big']:
            out.count('dedup:file-of-%d-bytes' % res['summary']['big'])
        for _, lim, _cc in res['summary']['options'] or []:
            out.count('dedup:rate-limit:' + ('none' if lim is None else '<4096' if lim < 4096 else '<10^5' if lim < 10 ** 5 else '≥10^6'))
        for st in res['steps']:
            out.count('dedup-step:' + st['label'] + ':' + st['kind'])
        for sig, what, rp in res['violations']:
            out.violation(sig, what, dict(rp, kind='dedup', seed=out.seed, idx=res['idx']))
        if drv is not None:
            check_dedup_model(res, drv, out, res['summary']['enc'])
    with mp.get_context('fork').Pool(min(16, os.cpu_count() or 4)) as pool:
        lives = pool.map(live_case, [(out.seed, i) for i in range(32 if quick else 400)], chunksize=1)
    for res in lives:
        out.case(res['summary'], res['summary']['edited-when-read'] and res['summary']['delta'] % 4 != 0)
        out.count('live-edit:' + res['summary']['mode'] + (':edited' if res['summary']['edited-when-read'] else ':NOT-EDITED'))
        for sig, what, rp in res['violations']:
            out.violation(sig, what, dict(rp, kind='live', seed=out.seed, idx=res['idx']))


def replay(path, drv):
    return X.hard_exit(_replay(path, drv))


def _replay(path, drv):
    d = json.load(open(path))
    rp = d.get('replay', d)
    if rp.get('kind') == 'history':
        return X.replay_history(rp, drv, ORACLES, EXTRA)
    if rp.get('kind') == 'conc':
        return X.replay_conc(rp, drv, 'c07')
    if rp.get('kind') == 'dedup':
        res = dedup_case((rp.get('seed', 0), rp['idx']))
        print('summary', res['summary'])
        c = X._Collect()
        bad = check_dedup_model(res, drv, c, res['summary']['enc']) if drv is not None else 0
        for v in res['violations']:
            print('violation', v[0], v[1])
        for dd in c.d:
            print('disagreement', dd)
        return 1 if (res['violations'] or bad) else 0
    if rp.get('kind') == 'live':
        res = live_case((rp.get('seed', 0), rp['idx']))
        print('summary', res['summary'])
        for v in res['violations']:
            print('violation', v[0], v[1])
        return 1 if res['violations'] else 0
    print('replay kind not supported:', rp.get('kind'))
    return 2
