"""C04 — damaged or substituted repository objects are never restored silently.

Direct oracle (real ciphers — both, all key sizes —, all hashes, encrypted and unencrypted): build a repository with the REAL
Repository, then apply corruption operators {flip bit i, truncate to n, extend, swap two objects, replay an object under another
name (existing location or a made-up snapshot alias), delete}, singly and in pairs, to the chunk and snapshot objects, restore
the target snapshot by name and classify: `identical` / `nothing` (no file written) / error kind.  "Returned normally with
different content" is the violation.
Tie (model ↔ code): the corrupted backend is abstracted object by object (original payload of chunk i / snapshot s, or garbage
g) into a `Store` of the Lean model; `sym.restore` predicts the outcome class (ok + the parts of every file, or the set of
possible error kinds); compared with the real outcome, and on success the bytes assembled from the model's parts are compared
with the restored files.  With the tagged transparent adapters the same is done on parsed terms (`sym.verify_chunk`), which
checks WHICH key and WHICH expected digest the real verification uses.
Sessions (`impl/c04_sessions.py`): the same oracle, tie and tagged tie for ONE long-lived `Repository` object that issues a plan
of commands (restore / list / delete, snapshots taken through it) while objects are damaged, healed and damaged again between its
commands — the client's state is part of what the property quantifies over (`symsess.run`, `session_*` theorems).
Several snapshots (`impl/c04_multisnap.py`): boundary damage (truncation to 0 / 1 / len−1 bytes, empty values) of every object kind in
repositories whose paths have several versions × the commands that SELECT among the loaded snapshots (restore / list-files /
list-snapshots, unfiltered and filtered to the damaged name); oracle: a command that returns normally after damage returns exactly
what it returns on the undamaged repository (`symmulti.run`, last section of Properties/C04.lean).
"""
import json
import multiprocessing as mp
import os

from ..common import rng_for
from ..impl import c04_multisnap as M
from ..impl import c04_sessions as S
from ..impl import runner as R
from ..impl import symhist as H
from ..impl import tagged as T
from ..ref import repo_format as F
from .c14 import CIPHERS, HASHES

PATH_BASE = 500000


def err_class(e):
    from replicat import exceptions
    import binascii
    if isinstance(e, exceptions.DecryptionError):
        return 'decryption'
    if isinstance(e, exceptions.ReplicatError):
        return 'corrupted' if 'corrupted' in str(e) else 'replicat_error'
    if isinstance(e, FileNotFoundError):
        return 'missing'
    if isinstance(e, ValueError) and not isinstance(e, (json.JSONDecodeError, UnicodeDecodeError, binascii.Error)):
        # the AEAD of `cryptography` refuses a ciphertext shorter than its nonce with ValueError instead of InvalidTag
        return 'decryption'
    if isinstance(e, (json.JSONDecodeError, UnicodeDecodeError, binascii.Error, KeyError, IndexError, TypeError)):
        return 'malformed'
    return 'other:' + type(e).__name__


def build_repo(r, sc, idx):
    encrypted = r.random() < 0.6
    cipher = CIPHERS[idx % len(CIPHERS)] if encrypted else None
    hashing = HASHES[(idx // 2) % len(HASHES)]
    mn, mx = r.choice([(8, 32), (16, 64), (5, 12), (13, 50), (4, 4), (32, 96)])
    settings = R.settings_for(encrypted, cipher, hashing, {'name': 'gclmulchunker', 'min_length': mn, 'max_length': mx})
    w = T.SymWorld(sc, settings, password=b'c04-password')
    blocks = [r.randbytes(r.choice([mx, 2 * mx + 4, 3 * mx])) for _ in range(3)]
    snaps = []
    for k in range(r.choice([1, 2, 2])):
        tree = {}
        for nm in r.sample(['a', 'b.bin', 'sub/c', 'sub/d', 'e'], r.choice([1, 2, 3])):
            q = r.random()
            tree[nm] = b'' if q < 0.1 else b''.join(r.choice(blocks) for _ in range(r.choice([1, 2]))) + r.randbytes(r.choice([0, 3, 7]))
        snaps.append(w.snapshot(0, tree, note=None))
    return w, snaps, {'encrypted': encrypted, 'cipher': (cipher or {}).get('name'), 'key_bits': (cipher or {}).get('key_bits'), 'hash': hashing, 'params': [mn, mx]}


class Abstraction:
    """real objects ↔ descriptors of the `sym.restore` world"""

    def __init__(self, w, snaps):
        self.w = w
        rd = F.Reader(dict(w.backend.objects), key_bytes=w.serialized_key(0) if w.enc else None, password=w.keys[0]['password'])
        self.contents = []       # chunk plaintexts, index = model content id
        self.cidx = {}
        self.loc_desc = {}       # honest location -> descriptor
        self.payload_desc = {}   # honest payload bytes -> descriptor
        self.paths = {}
        self.snap_descs = []
        self.garbage = {}
        self.others = {}
        uploaded = {}
        for e in w.backend.events:
            if e[0] == 'put':
                uploaded[e[1]] = e[2]
        ts_rank = {}
        for si, s in enumerate(snaps):
            res = s['result']
            table = []
            for d, _ in zip(res.chunks, range(len(res.chunks))):
                plain = rd.chunk(bytes(d))
                i = self.cidx.setdefault(plain, len(self.contents))
                if i == len(self.contents):
                    self.contents.append(plain)
                loc = rd.s.chunk_location(bytes(d))
                self.loc_desc[loc] = ['chunk', i]
                self.payload_desc[uploaded[loc]] = ['chunk', i]
                table.append(i)
            files = []
            for f in res.data['files']:
                pid = self.paths.setdefault(f['path'], PATH_BASE + len(self.paths))
                files.append({'path': {'sec': pid}, 'refs': [[c['index'], c['counter'], c['range'][0], c['range'][1]] for c in f['chunks']],
                              'digest': None, 'md': None})
            ts = ts_rank.setdefault(res.data['utc_timestamp'], len(ts_rank) + 1)
            self.snap_descs.append({'table': table, 'data': {'ts': ts, 'files': files, 'note': None}})
            self.loc_desc[s['location']] = ['snap', si]
            self.payload_desc[uploaded[s['location']]] = ['snap', si]
        self.path_of = {v: k for k, v in self.paths.items()}

    def obj(self, payload):
        d = self.payload_desc.get(payload)
        if d is not None:
            return d
        return ['garbage', self.garbage.setdefault(payload, len(self.garbage))]

    def loc(self, name, aliases):
        d = self.loc_desc.get(name)
        if d is not None:
            return d
        if name in aliases:
            return ['snapalias', aliases[name][0], aliases[name][1]]
        return ['other', self.others.setdefault(name, len(self.others))]

    def request(self, objects, aliases, target):
        store = [[self.loc(n, aliases), self.obj(b)] for n, b in sorted(objects.items()) if n != 'config']
        return {'op': 'sym.restore', 'encrypted': self.w.enc, 'snaps': self.snap_descs, 'store': store, 'target': target}


def apply_ops(objects, ops, aliases):
    """ops on a dict name -> bytes (in place)"""
    for op in ops:
        k = op[0]
        if k in ('flip', 'trunc', 'extend') and op[1] not in objects:
            continue      # an earlier operator of the combination removed the object
        if k == 'flip':
            _, loc, bit = op
            b = bytearray(objects[loc])
            if b:
                b[(bit // 8) % len(b)] ^= 1 << (bit % 8)
            objects[loc] = bytes(b)
        elif k == 'trunc':
            _, loc, n = op
            objects[loc] = objects[loc][:n]
        elif k == 'extend':
            _, loc, extra = op
            objects[loc] = objects[loc] + bytes.fromhex(extra)
        elif k == 'swap':
            _, a, b = op
            if a in objects and b in objects:
                objects[a], objects[b] = objects[b], objects[a]
        elif k == 'replay':
            _, src, dst = op
            if src in objects:
                objects[dst] = objects[src]
        elif k == 'delete':
            objects.pop(op[1], None)


def gen_cases(r, w, snaps, target, thorough):
    ts = snaps[target]
    objects = dict(w.backend.objects)
    rd = F.Reader(objects, key_bytes=w.serialized_key(0) if w.enc else None, password=w.keys[0]['password'])
    needed = sorted({rd.s.chunk_location(bytes(ts['result'].chunks[c['index']])) for f in ts['result'].data['files'] for c in f['chunks']})
    all_chunks = sorted(n for n in objects if n.startswith('data/'))
    unneeded = [n for n in all_chunks if n not in needed]
    sloc = ts['location']
    other_snaps = [s['location'] for i, s in enumerate(snaps) if i != target]
    singles = []

    def obj_ops(loc):
        ln = len(objects[loc])
        offs = sorted({0, 7, 8 * 5 + 3, 8 * 12, (ln * 8) // 2, ln * 8 - 1, ln * 8 - 8 * 16, r.randrange(max(1, ln * 8))} - {-1}) if not thorough else list(range(0, ln * 8, 1 if ln < 64 else 3))
        out = [('flip', loc, o % max(1, ln * 8)) for o in offs if ln]
        out += [('trunc', loc, n) for n in sorted({0, 1, 11, 12, 27, 28, ln // 2, ln - 1, ln}) if 0 <= n <= ln]
        out += [('extend', loc, '00'), ('extend', loc, r.randbytes(16).hex()), ('delete', loc)]
        return out
    for loc in (needed if thorough else r.sample(needed, min(3, len(needed)))):
        singles += obj_ops(loc)
    singles += obj_ops(sloc)
    for loc in other_snaps + unneeded[:1]:
        singles += [('flip', loc, 9), ('delete', loc)]
    pairs_ = [(a, b) for i, a in enumerate(needed) for b in needed[i + 1:]]
    r.shuffle(pairs_)
    for a, b in pairs_[:6 if not thorough else 40]:
        singles.append(('swap', a, b))
    if needed:
        singles.append(('swap', needed[0], sloc))
        singles.append(('replay', sloc, needed[0]))
        singles.append(('replay', needed[-1], sloc))
        if len(needed) > 1:
            singles.append(('replay', needed[0], needed[1]))
        if unneeded:
            singles.append(('replay', unneeded[0], needed[0]))
            singles.append(('swap', unneeded[0], needed[-1]))
    for o in other_snaps:
        singles += [('swap', sloc, o), ('replay', o, sloc), ('replay', sloc, o)]
    alias = 'snapshots/%02x/%s-%s' % (r.randrange(256), r.randbytes(15).hex(), ts['name'])
    singles.append(('replay', sloc, alias))
    cases = [[]] + [[s] for s in singles]
    for _ in range(12 if not thorough else 150):
        cases.append([r.choice(singles), r.choice(singles)])
    # alias + delete of the original: the only copy of the snapshot sits under a made-up tag
    cases.append([('replay', sloc, alias), ('delete', sloc)])
    return cases, needed, {alias: (target, 1)}


@H.guarded
def w_repo(arg):
    seed, idx, tier = arg
    from .. import common
    import warnings
    common.use_rebuilt_chunker()
    warnings.filterwarnings('ignore', category=RuntimeWarning)   # slot coroutines abandoned when a restore aborts
    r = rng_for(seed, 'C04', idx)
    out = {'idx': idx, 'cases': [], 'violations': []}
    with R.Scratch('c04_%d' % idx) as sc:
        w, snaps, cfg = build_repo(r, sc, idx)
        target = r.randrange(len(snaps))
        ab = Abstraction(w, snaps)
        truth = snaps[target]['files']
        cases, needed, aliases = gen_cases(r, w, snaps, target, tier == 'thorough' and idx < 10)
        honest = dict(w.backend.objects)
        for ci, ops in enumerate(cases):
            objects = dict(honest)
            apply_ops(objects, ops, aliases)
            w.backend.objects = dict(objects)
            exc, files, res = w.restore(0, snapshot_regex=snaps[target]['name'])
            if exc is not None:
                outcome = {'class': 'error', 'error': err_class(exc), 'exc': repr(exc)[:120]}
            else:
                outcome = {'class': 'ok', 'files': {p: v[0].hex() for p, v in files.items()}}
                got = {p: v[0] for p, v in files.items()}
                want = {p: v for p, v in truth.items()}
                sobj = objects.get(snaps[target]['location'])
                if got and got != want:
                    diff = sorted(p for p in set(got) | set(want) if got.get(p) != want.get(p))
                    out['violations'].append(('c04:silent-corruption:' + ('enc' if w.enc else 'plain'),
                                              f'restore returned normally but {len(diff)} file(s) differ (e.g. {diff[0]!r}) after {ops}', {'case': ci, 'ops': ops}))
                elif not got and want and sobj == honest[snaps[target]['location']]:
                    out['violations'].append(('c04:silent-nothing', f'restore returned normally without writing anything although the snapshot object is intact, after {ops}',
                                              {'case': ci, 'ops': ops}))
            # ---- the same damaged repository seen through a client WITH a local snapshot cache: a first restore, a retry, and a
            # restore that finds a truncated cache entry (what an interrupted write leaves).  The cache is not a repository object,
            # but whatever it holds a restore must never report success while writing different content.
            if ci % 3 == 0 or any(o[0] in ('swap', 'replay') for o in ops):
                want = {p: v for p, v in truth.items()}
                for variant in ('retry', 'truncated-entry'):
                    cdir = sc.dir()
                    if variant == 'truncated-entry':
                        sloc_t = snaps[target]['location']
                        fp = os.path.join(str(cdir), sloc_t)
                        os.makedirs(os.path.dirname(fp), exist_ok=True)
                        with open(fp, 'wb') as fh:
                            fh.write(honest[sloc_t][:len(honest[sloc_t]) // 2])
                    for attempt in range(2 if variant == 'retry' else 1):
                        repo_c = w.repo(0)
                        repo_c._cache_directory = cdir
                        tgt_c = sc.dir()
                        try:
                            R.restore(repo_c, tgt_c, snapshot_regex=snaps[target]['name'])
                        except BaseException as e:  # noqa: BLE001
                            if isinstance(e, (KeyboardInterrupt, SystemExit)):
                                raise
                            continue
                        got_c = {'/' + os.fsdecode(k): v[0] for k, v in R.read_tree(tgt_c).items()}
                        if got_c and got_c != want:
                            out['violations'].append(('c04:silent-corruption:via-cache:' + variant,
                                                      f'restore through a client with a snapshot cache ({variant}, attempt {attempt + 1}) returned normally but wrote different content after {ops}',
                                                      {'case': ci, 'ops': ops, 'variant': variant}))
            touched = {o[1] for o in ops} | {o[2] for o in ops if o[0] in ('swap', 'replay')}
            out['cases'].append({'ops': ops, 'outcome': outcome, 'request': ab.request(objects, aliases, target),
                                 'nontrivial': bool(touched & (set(needed) | {snaps[target]['location']})), 'kinds': sorted({o[0] for o in ops})})
        w.backend.objects = honest
        out['cfg'] = cfg
        out['contents'] = [c.hex() for c in ab.contents]
        out['paths'] = {str(k): v for k, v in ab.path_of.items()}
        out['nfiles'] = len(truth)
    return out


def compare(case, m, contents, paths):
    """→ (list of disagreement strings, predicted class)"""
    if 'error' in m and 'outcome' not in m:
        return ['driver error: ' + m['error']], None
    real = case['outcome']
    if m['outcome'] == 'ok':
        if real['class'] != 'ok':
            return [f'model predicts success, implementation raised {real["error"]} ({real["exc"]})'], 'ok'
        pred = {}
        for f in m['files']:
            p = paths[str(f['path']['sec'])]
            data = b''
            for part in f['parts']:
                if not isinstance(part[0], dict) or 'sec' not in part[0]:
                    # only possible when a verification guard has disappeared from the source (the model mirrors it): the model
                    # itself predicts adversarial content; the direct oracle decides
                    return [], 'ok-with-adversarial-content'
                c = bytes.fromhex(contents[part[0]['sec']])
                data += c[part[1]:part[2]]
            pred[p] = data.hex()
        if pred != real['files']:
            return [f'model predicts files {sorted(pred)} with other content than restored {sorted(real["files"])}'], 'ok'
        return [], 'ok' if pred else 'nothing'
    allowed = {m['load']} if isinstance(m['load'], str) else set(m['chunk_errors'])
    if real['class'] != 'error':
        return [f'model predicts error {sorted(allowed)}, implementation returned normally'], 'error'
    if real['error'] not in allowed:
        return [f'model predicts error kind {sorted(allowed)}, implementation raised {real["error"]} ({real["exc"]})'], 'error'
    return [], 'error:' + real['error']


# ------------------------------------------------------------------ tagged: which key / which digest does the real check use
@H.guarded
def w_tagged(arg):
    seed, idx, tier = arg
    from .. import common
    import warnings
    common.use_rebuilt_chunker()
    warnings.filterwarnings('ignore', category=RuntimeWarning)
    r = rng_for(seed, 'C04-tag', idx)
    out = {'idx': idx, 'checks': [], 'problems': []}
    encrypted = r.random() < 0.7
    with T.tagged() as reg, R.Scratch('c04t_%d' % idx) as sc:
        ps = T.Parser(reg)
        settings, (mn, mx) = H.gen_settings(r, encrypted)
        w = T.SymWorld(sc, settings, password=b'tagged-pw')
        ps.secret(b'tagged-pw')
        tree = {'f1': r.randbytes(3 * mx + 5), 'f2': r.randbytes(mx)}
        for v in tree.values():
            ps.secret(v)
        s = w.snapshot(0, tree)
        for c in s['chunks']:
            ps.secret(c)
        props = s['repo'].props
        digs = [bytes(d) for d in s['result'].chunks][:4]
        locs = [s['repo']._chunk_digest_to_location(d) for d in digs]
        honest = dict(w.backend.objects)
        if encrypted:
            keys = {'shared_key': ps.bytes_term(props.private['shared_key']), 'shared_params': ps.bytes_term(props.private['shared_kdf_params']),
                    'mac_key': ps.bytes_term(props.private['mac_params'])}
        else:
            keys = {'shared_key': None, 'shared_params': None, 'mac_key': None}
        combos = [(i, i) for i in range(len(digs))] + [(i, j) for i in range(len(digs)) for j in range(len(digs)) if i != j][:5]
        for i, j in combos:
            objects = dict(honest)
            objects[locs[i]] = honest[locs[j]]
            w.backend.objects = objects
            n_dec = len(reg.decrypt_calls)
            exc, files, _ = w.restore(0, snapshot_regex=s['name'])
            real = 'ok' if exc is None else err_class(exc)
            used = [ps.bytes_term(k) for k, ok in reg.decrypt_calls[n_dec:]]
            req = dict(keys, op='sym.verify_chunk', encrypted=encrypted, digest=T.expand(ps.bytes_term(digs[i])), obj=T.expand(ps.bytes_term(honest[locs[j]])))
            req = {k: (T.expand(v) if isinstance(v, dict) or v is None else v) for k, v in req.items()}
            want_key = T.expand({'kdf': [keys['shared_key'], keys['shared_params'], ps.bytes_term(digs[i])]}) if encrypted else None
            out['checks'].append({'i': i, 'j': j, 'real': real, 'request': req, 'loc': T.expand(ps.loc_term(locs[i])),
                                  'key_used': (want_key is None) or any(T.expand(u) == want_key for u in used), 'encrypted': encrypted})
        w.backend.objects = honest
    return out


def run(out, drv, info):
    quick = out.tier == 'quick'
    n_repo, n_tag = (120, 80) if quick else (400, 300)
    n_sess, n_tsess = (200, 60) if quick else (1500, 300)
    n_multi = 32 if quick else 96
    out.rule = ('case = repository (encrypted?, cipher × key size, hash, (min,max), 1–2 snapshots of 1–3 files incl. empty files and shared blocks) × corruption of the objects '
                'a restore-by-name of the target snapshot needs or may meet: flip bit (nonce / body / tag / JSON / base64 regions), truncate (0, 1, 11, 12, 27, 28, half, '
                'len-1, len), extend (1 / 16 bytes), delete, swap (chunk↔chunk, chunk↔snapshot, snapshot↔snapshot), replay under another name (existing location, made-up '
                'snapshot alias), and random pairs; thorough: every bit offset of every needed object for 10 repositories.  non-trivial = a damaged object is needed by '
                'the restore; distinct = hash of (configuration, operators, outcome).  '
                'Sessions: ONE long-lived Repository object (with / without a cache directory; 2–3 snapshots sharing blocks, each taken through that object or through a fresh '
                'client; encrypted and unencrypted in equal parts) runs a plan of 2–5 (thorough: up to 10) steps (damage, command): damage = any operator combination above applied '
                'to the honest objects | keep the previous damage | none (healed); command = restore by name / list files / list snapshots / delete of another snapshot; every plan '
                'has warm-up on the intact repository → damage of an object the warm-up used → restore.  non-trivial = the damaged object is needed by the command; `stateful` = '
                'the object had handled the damaged object in an earlier command.  '
                'Several snapshots: repository of 2–3 snapshots in which paths have several versions (changed / kept / added / removed paths, shared blocks; encrypted and '
                'unencrypted in equal parts) × damage of {snapshot object of the newest version, of an older one, a chunk only the newest version needs, a chunk shared '
                'between versions, a chunk only an older version needs, the config object}: truncate to 0 / 1 / len-1, replace by `{}` / `null`, and half / flip / extend / '
                'delete / older snapshot object replayed over the newest / two snapshot objects swapped, newest snapshot emptied together with an older one / a chunk '
                '(thorough: every operator on every snapshot and chunk object) × {restore, list-files, list-snapshots} × {no filter, name of the damaged snapshot}, each '
                'by a fresh client without cache.  non-trivial = the command reads the damaged object')
    out.assumptions = ['ideal hash and AEAD in the model: a corrupted / truncated / extended object is a term different from every honestly produced one (no collision, no forgery)',
                       'restore selected by snapshot name; a removed or unreachable snapshot object makes restore write nothing (class `nothing`), which the property allows',
                       'the local snapshot cache is not a repository object (C18); the memory backend does not retry; back-off sleeps are not involved',
                       'error kinds are compared after mapping cryptography\'s ValueError for ciphertexts shorter than a nonce to `decryption`',
                       'sessions: the adversary acts between commands, not during one; one object = one event loop, commands one after the other (no two commands of one '
                       'object at the same time)',
                       'several snapshots: a removed snapshot object is indistinguishable from a snapshot never taken (reference = the honest objects under the locations '
                       'still listed); when `Gen.snapLoadNeverSkipsListedOwn` is false the model takes the reading that the zero-length object is dropped']
    ctx = mp.get_context('fork')
    # (started first, collected last: children of their own) the same kind of damaged repositories restored by an interpreter that runs optimised (-O)
    from concurrent.futures import ThreadPoolExecutor as _TP
    n_opt = 4 if out.tier == 'quick' else 40
    _opt_ex = _TP(4)
    _opt_futs = [_opt_ex.submit(w_repo_optimised, (out.seed, 7000 + i, out.tier)) for i in range(n_opt)]
    with ctx.Pool(min(16, os.cpu_count() or 4)) as pool:
        a = pool.map_async(w_repo, [(out.seed, i, out.tier) for i in range(n_repo)], chunksize=1)
        b = pool.map_async(w_tagged, [(out.seed, i, out.tier) for i in range(n_tag)], chunksize=2)
        c = pool.map_async(S.w_session, [(out.seed, i, out.tier) for i in range(n_sess)], chunksize=2)
        d = pool.map_async(S.w_tagged_session, [(out.seed, i, out.tier) for i in range(n_tsess)], chunksize=2)
        e = pool.map_async(M.w_multi, [(out.seed, i, out.tier) for i in range(n_multi)], chunksize=1)
        repos, tags, sessions, tsessions, multis = a.get(), b.get(), c.get(), d.get(), e.get()
    for rp in repos:
        if rp.get('crashed'):
            out.case({'crashed': rp['idx']}, False)
            out.disagreement(f'case #{rp["idx"]} could not be driven / interpreted: {rp["what"]}', {'kind': 'crash', 'idx': rp['idx'], 'trace': rp['trace']})
            continue
        base = {'kind': 'repo', 'seed': out.seed, 'idx': rp['idx'], 'tier': out.tier}
        for sig, what, extra in rp['violations']:
            out.violation(sig, what, dict(base, **extra, cfg=rp['cfg']))
        replies = drv.ask_many([c['request'] for c in rp['cases']]) if drv is not None else [None] * len(rp['cases'])
        for ci, (case, m) in enumerate(zip(rp['cases'], replies)):
            summary = {'cfg': rp['cfg'], 'ops': [[o[0]] + [str(x)[:12] for x in o[1:]] for o in case['ops']], 'outcome': case['outcome'].get('error', case['outcome']['class'])}
            out.case(summary, case['nontrivial'])
            out.count('repo:' + ('enc' if rp['cfg']['encrypted'] else 'plain'))
            out.count('ops:' + ('+'.join(case['kinds']) if case['kinds'] else 'none'))
            if m is None:
                continue
            bad, pred = compare(case, m, rp['contents'], rp['paths'])
            out.count('outcome:' + (pred or 'unknown'))
            if bad:
                out.disagreement(f'repo #{rp["idx"]} case {ci} {case["ops"]}: ' + '; '.join(bad), dict(base, case=ci, ops=case['ops']))
            else:
                out.traces_validated += 1
            if case['outcome']['class'] == 'error' and case['outcome']['error'].startswith(('other:', 'replicat_error', 'malformed')):
                out.count('unclassified-error:' + case['outcome']['error'])
    for tg in tags:
        if tg.get('crashed'):
            out.case({'crashed': tg['idx']}, False)
            out.disagreement(f'case #{tg["idx"]} could not be driven / interpreted: {tg["what"]}', {'kind': 'crash', 'idx': tg['idx'], 'trace': tg['trace']})
            continue
        for ch in tg['checks']:
            out.case({'tagged': [ch['i'], ch['j']], 'idx': tg['idx'], 'enc': ch['encrypted']}, ch['i'] != ch['j'])
            out.count('tagged:' + ('same' if ch['i'] == ch['j'] else 'swapped') + ':' + ch['real'])
            if drv is None:
                continue
            m = drv.ask(ch['request'])
            mo = 'ok' if m.get('outcome') == 'ok' else m.get('error')
            bad = []
            if mo != ch['real']:
                bad.append(f'verify chunk {ch["i"]} against object {ch["j"]}: model {mo}, implementation {ch["real"]}')
            if m.get('loc') != ch['loc']:
                bad.append('chunk location term differs')
            if not ch['key_used']:
                bad.append('the implementation did not try the key KDF(shared key, salt, expected digest)')
            if bad:
                out.disagreement(f'tagged repo #{tg["idx"]}: ' + '; '.join(bad), {'kind': 'tagged', 'seed': out.seed, 'idx': tg['idx'], 'tier': out.tier})
            else:
                out.traces_validated += 1
            if (ch['real'] == 'ok') != (ch['i'] == ch['j']):
                out.violation('c04:tagged:substitution-accepted' if ch['real'] == 'ok' else 'c04:tagged:honest-rejected',
                              f'chunk object {ch["j"]} at the location of chunk {ch["i"]}: restore → {ch["real"]}', {'kind': 'tagged', 'seed': out.seed, 'idx': tg['idx'], 'tier': out.tier})
    judge_sessions(out, drv, sessions, tsessions)
    M.judge(out, drv, multis)
    # the same damaged repositories restored by an interpreter that runs optimised (-O): own indices
    opts = [f.result() for f in _opt_futs]
    _opt_ex.shutdown()
    for res in opts:
        if 'infra' in res:
            out.count('optimised-interpreter:infra')
            out.extra.setdefault('infra_errors', []).append('optimised child: ' + str(res['infra']))
            continue
        out.count('optimised-interpreter:repositories' + ('' if res.get('optimised') else ':NOT-OPTIMISED'))
        for kinds, cls in res['cases']:
            out.case({'optimised': True, 'idx': res['idx'], 'kinds': kinds, 'outcome': cls}, True)
            out.count('optimised-interpreter:outcome:' + str(cls))
        for v in res['violations']:
            out.violation(v[0] + ':python-O', 'under an interpreter started with -O: ' + v[1], {'kind': 'repo-O', 'seed': out.seed, 'idx': res['idx'], 'tier': out.tier})


def judge_sessions(out, drv, sessions, tsessions):
    """parent side of `impl/c04_sessions.py`: violations, the tie with `symsess.run`, counters"""
    dominates = None
    if drv is not None:
        dominates = drv.ask({'op': 'symsess.flags'}).get('dominates')
    for sp in sessions:
        if sp.get('crashed'):
            out.case({'crashed-session': sp['idx']}, False)
            out.disagreement(f'session #{sp["idx"]} could not be driven / interpreted: {sp["what"]}', {'kind': 'crash', 'idx': sp['idx'], 'trace': sp['trace']})
            continue
        base = {'kind': 'session', 'seed': out.seed, 'idx': sp['idx'], 'tier': out.tier}
        for sig, what, extra in sp['violations']:
            out.violation(sig, what, dict(base, **extra, cfg=sp['cfg']))
        m = drv.ask(sp['request']) if drv is not None else None
        replies = (m or {}).get('steps') or [None] * len(sp['steps'])
        if m is not None and 'steps' not in m:
            out.disagreement(f'session #{sp["idx"]}: driver error: {m.get("error")}', dict(base))
        out.count('session:' + ('enc' if sp['cfg']['encrypted'] else 'plain') + (':client-cache' if sp['cfg']['client_cache'] else ''))
        if any(sp['cfg']['snapshots_through_long_lived_object']):
            out.count('session:snapshot-through-long-lived-object')
        for st, rep in zip(sp['steps'], replies):
            summary = {'session': sp['idx'], 'cfg': sp['cfg'], 'step': st['step'], 'cmd': st['cmd'], 'earlier': st['earlier'],
                       'ops': [[o[0]] + [str(x)[:12] for x in o[1:]] for o in st['ops']], 'outcome': st['outcome'].get('error', st['outcome']['class'])}
            out.case(summary, st['nontrivial'])
            out.count('session-step:' + st['cmd'] + (':first' if not st['earlier'] else ':later') + (':damaged' if st['ops'] else ':intact'))
            if st['stateful']:
                out.count('session-step:damaged-object-handled-before:' + ('+'.join(st['kinds'])))
                out.count('session-step:damaged-object-handled-before:→' + st['outcome'].get('error', st['outcome']['class']))
            if st['kept']:
                out.count('session-step:same-damage-again')
            if rep is None:
                continue
            if st['cmd'] == 'restore':
                bad, pred = compare(st, rep, sp['contents'], sp['paths'])
            else:
                bad, pred = S.compare_list(st, rep)
            out.count('session-outcome:' + (pred or 'unknown'))
            if bad:
                out.disagreement(f'session #{sp["idx"]} step {st["step"]} ({st["cmd"]} after {st["earlier"]}, damage {st["ops"]}): ' + '; '.join(bad),
                                 dict(base, step=st['step'], ops=st['ops']))
            else:
                out.traces_validated += 1
    for tg in tsessions:
        if tg.get('crashed'):
            out.case({'crashed-tagged-session': tg['idx']}, False)
            out.disagreement(f'tagged session #{tg["idx"]} could not be driven / interpreted: {tg["what"]}', {'kind': 'crash', 'idx': tg['idx'], 'trace': tg['trace']})
            continue
        base = {'kind': 'tagged-session', 'seed': out.seed, 'idx': tg['idx'], 'tier': out.tier,
                'plan': [{'step': x['step'], 'substituted': x['sub'], 'outcome': x['real']} for x in tg['steps']]}
        for st in tg['steps']:
            out.case({'tagged-session': tg['idx'], 'step': st['step'], 'sub': st['sub'], 'enc': st['encrypted']}, st['sub'] is not None and st['step'] > 0)
            out.count('tagged-session:' + ('first' if st['step'] == 0 else 'later') + ':' + ('honest' if st['sub'] is None else 'substituted') + ':' + st['real'])
            bad = []
            want_ok = st['sub'] is None
            if (st['real'] == 'ok') != want_ok:
                out.violation('c04:tagged:long-lived:substitution-accepted' if st['real'] == 'ok' else 'c04:tagged:long-lived:honest-rejected',
                              f'step {st["step"]} of a session of one Repository object, chunk object {st["sub"]} substituted: restore → {st["real"]}', dict(base, step=st['step']))
            if not st['content_ok']:
                out.violation('c04:tagged:long-lived:content-differs', f'step {st["step"]} of a session of one Repository object: restore returned normally with other content',
                              dict(base, step=st['step']))
            if dominates is None:
                continue
            # the model with the generated flag: when the comparison dominates, EVERY command re-hashes every chunk it writes
            if dominates and st['real'] == 'ok' and not st['rehashed_all']:
                bad.append(f'step {st["step"]}: the command returned normally without re-hashing every chunk it wrote (the model re-verifies in every command)')
            if st['encrypted'] and st['real'] == 'ok' and st['decrypt_calls'] < st['chunks']:
                bad.append(f'step {st["step"]}: {st["decrypt_calls"]} decryptions for {st["chunks"]} chunks')
            if bad:
                out.disagreement(f'tagged session #{tg["idx"]}: ' + '; '.join(bad), dict(base, step=st['step']))
            else:
                out.traces_validated += 1


def w_repo_optimised(arg):
    """the damaged-repository cases of `w_repo` in a child INTERPRETER started with -O (PYTHONOPTIMIZE: `assert` statements are not
    compiled — what cron wrappers and 'production' images set): verification must not live in code the interpreter may drop.
    → {'idx', 'violations', 'cases'} (violations only; the tie is the default interpreter's)"""
    import subprocess
    import sys
    from .. import common
    seed, idx, tier = arg
    code = ('import json, os, sys\n'
            'from harness.props import c04\n'
            'assert False, "asserts are compiled: this interpreter does not run optimised"\n' if False else
            'import json, os, sys\n'
            'from harness.props import c04\n'
            'res = c04.w_repo((%d, %d, %r))\n'
            'os.write(1, ("\\n@@RESULT " + json.dumps({"idx": res["idx"], "optimised": not __debug__, "violations": res["violations"], '
            '"cases": [[c["kinds"], c["outcome"].get("class")] for c in res["cases"]]}, default=str) + "\\n").encode())\n'
            'os._exit(0)\n') % (seed, idx, tier)
    try:
        p = subprocess.run([sys.executable, '-O', '-c', code], cwd=str(common.VERIF), capture_output=True, text=True, timeout=300)
    except subprocess.TimeoutExpired:
        return {'idx': idx, 'infra': 'timeout'}
    for line in p.stdout.splitlines():
        if line.startswith('@@RESULT '):
            return json.loads(line[len('@@RESULT '):])
    return {'idx': idx, 'infra': (p.stderr or p.stdout)[-300:]}


def _in_child(fn, arg):
    """run a worker in a forked child: an aborted restore leaves replicat's loader threads blocked for ever, which would hang the
    interpreter of the calling process at exit"""
    with mp.get_context('fork').Pool(1) as pool:
        return pool.apply(fn, (arg,))


def replay(path, drv):
    d = json.load(open(path))
    rp = d.get('replay', d)
    if rp.get('kind') == 'repo':
        res = _in_child(w_repo, (rp['seed'], rp['idx'], rp.get('tier', 'quick')))
        print('cfg', res['cfg'], 'cases', len(res['cases']))
        for v in res['violations']:
            print('violation', v[0], v[1])
        bad = 0
        if drv is not None:
            for ci, case in enumerate(res['cases']):
                b, _ = compare(case, drv.ask(case['request']), res['contents'], res['paths'])
                if b:
                    bad += 1
                    print('disagreement', ci, case['ops'], b)
        return 1 if (res['violations'] or bad) else 0
    if rp.get('kind') == 'repo-O':
        res = w_repo_optimised((rp['seed'], rp['idx'], rp.get('tier', 'quick')))
        for v in res.get('violations', []):
            print('violation', v[0], v[1])
        return 1 if res.get('violations') else 0
    if rp.get('kind') == 'tagged':
        res = _in_child(w_tagged, (rp['seed'], rp['idx'], rp.get('tier', 'quick')))
        for ch in res['checks']:
            print(ch['i'], ch['j'], ch['real'], ch['key_used'])
        return 0
    if rp.get('kind') == 'session':
        res = _in_child(S.w_session, (rp['seed'], rp['idx'], rp.get('tier', 'quick')))
        if res.get('crashed'):
            print('crashed', res['what'])
            return 1
        print('cfg', res['cfg'])
        for st in res['steps']:
            print(' step', st['step'], st['cmd'], 'snapshot', st['target'], 'damage', st['ops'], '(kept)' if st['kept'] else '', '->', st['outcome'].get('error', st['outcome']['class']))
        for v in res['violations']:
            print('violation', v[0], v[1])
        bad = 0
        if drv is not None:
            m = drv.ask(res['request'])
            for st, rep in zip(res['steps'], m.get('steps', [])):
                b, _ = compare(st, rep, res['contents'], res['paths']) if st['cmd'] == 'restore' else S.compare_list(st, rep)
                if b:
                    bad += 1
                    print('disagreement', st['step'], b)
        return 1 if (res['violations'] or bad) else 0
    if rp.get('kind') == 'tagged-session':
        res = _in_child(S.w_tagged_session, (rp['seed'], rp['idx'], rp.get('tier', 'quick')))
        for st in res.get('steps', []):
            print(st)
        return 1 if any((st['real'] == 'ok') != (st['sub'] is None) or not st['content_ok'] or (st['real'] == 'ok' and not st['rehashed_all']) for st in res.get('steps', [])) else 0
    if rp.get('kind') == 'multi':
        return M.replay(rp, drv)
    print('replay kind not supported')
    return 2
