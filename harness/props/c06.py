"""C06 — access rights follow key relationships.

Tie (harness/impl/access.py): worlds = one REAL repository (memory backend, sync or coroutine flavour) + a key graph built by
the real `init` and chains of the real `add-key` (independent / shared / clone, KDF settings scrypt(n,r,p) / blake2b, passwords
that collide across keys), then histories of snapshot / delete (names taken from what list-snapshots prints, names of other
keys' snapshots, unknown names) / clean issued under ANY of the keys.  Every user works through a CLIENT with persistent state:
a snapshot cache directory (none / one directory for all users — the CLI default on one machine / one per user / mixed) and a
fresh Repository object per command or one long-lived object; the read-only commands observed after every step run through the
same client or from a state-less machine — so destructive commands meet clients that are state-less, cold, warm, warm with a
copy of ANOTHER key's snapshot of the same family (loaded earlier without its private part), after a snapshot-loading command
under the very same key or not.  Compared with the Lean model:
  * `access.client`   — every mutating command through a client with a cache directory vs `CacheCmd.stepC` on the abstracted
                        directory (object map, error kind) and the directory afterwards vs `cacheAfterLoad` / `cacheAfterDelete`
                        (a file the model does not account for is a broken tie);
  * `repo.step`       — object map after every command, error kind (different_key / not_available), uploaded chunk set,
                        mutation trace ∈ linearisations of the model plan;
  * `access.observe`  — after EVERY step, for EVERY user: `list-snapshots`, `list-files`, `restore` under random regexes and
                        column selections (stdout parsed) vs `Repo.listSnapshots / listFiles / restore`;
  * `access.graph`    — every (key file, password) unlock attempt (incl. mutated passwords) vs `Access.unlock` on the modelled
                        key graph, and the equality classes of the unlocked user keys / families.
Direct oracle (the property's own statement on the real repository, ground truth kept by `World`): a wrong password unlocks /
the own one does not; a command of user v changes, creates or removes an object that does not carry v's family tag (config,
strays, other families); v deletes a snapshot of another key (or the refusal is of the wrong kind, or a refused delete
mutated the backend); after v's delete/clean — through whatever client state — a snapshot of another key no longer restores
exactly with its owner's key (restored by a state-less client of the owner); v's
listing shows a snapshot of another family, or details of another key's snapshot; v's list-files / restore shows data only
another key's snapshots hold; a snapshot uploads a chunk that was already stored for its family.
"""
import json

from ..common import rng_for
from ..impl import access as A
from ..impl import runner as R


def nontrivial(log):
    """≥ 2 different keys with ≥ 1 snapshot each, and a delete/clean/snapshot by one key while a snapshot of another key is present"""
    if log.get('keys_with_snapshots', 0) < 2:
        return False
    for st in log['steps']:
        others = [e for e in st['store_before'] if e[0][0] == 'snap' and e[1][0] == 'snap' and e[1][3]['owner'] != st['user'][0]]
        if others and st['kind'] in ('delete', 'clean', 'snapshot'):
            return True
    return False


def summarize(out, log):
    summary = {'enc': log['cfg']['enc'], 'users': [(x['kind'], x['base'], x['kdf'], x['password']) for x in log['cfg']['users']],
               'chunking': log['cfg']['chunking'], 'clients': log['cfg'].get('clients'),
               'ops': [f'{st["user"][0]}:{st["kind"]}' + ('!' + st['error'] if st.get('error') else '') for st in log['steps']]}
    out.case(summary, nontrivial(log))
    out.count('enc' if log['cfg']['enc'] else 'plain')
    out.count('users:%d' % log['n_users'])
    for k in log['user_kinds'][1:]:
        out.count('key:' + k)
    if log.get('cmd_clones'):
        out.count('key:clone-made-by-the-command(add-key --clone)', len(log['cmd_clones']))
        out.count('key:issued-from-a-command-made-clone', log.get('keys_issued_from_cmd_clone', 0))
    cl = log['cfg'].get('clients')
    if cl is not None:
        out.count('clients:cache-' + cl['topology'])
        out.count('clients:' + ('one-repository-object-per-user' if cl['long_lived'] else 'fresh-object-per-command'))
        out.count('clients:observed-' + ('through-the-client' if cl['observe_through_client'] else 'from-a-stateless-machine'))
    for st in log['steps']:
        if st.get('client') and st['kind'] in ('delete', 'clean'):
            # what the acting client remembered when it ran a destructive command, and whether a snapshot of ANOTHER key of its family was present
            foreign = any(e[0][0] == 'snap' and e[1][0] == 'snap' and e[0][1] == st['user'][1] and e[1][3]['owner'] != st['user'][0] for e in st['store_before'])
            out.count('destructive:' + st['kind'] + ':client-' + st['client']['state'] + (':shared-foreign-present' if foreign and log['cfg']['enc'] else ''))
        out.count('op:' + st['kind'] + (':' + st.get('target', '') if st['kind'] == 'delete' else '') + ('!' + st['error'] if st.get('error') else ''))
        for o in st['obs']:
            out.count('observe:' + o['kind'])
    if 'unlock' in log:
        for res in log['unlock'][1]:
            out.count('unlock:' + ('ok' if isinstance(res, list) else str(res)))


def long_password_probe(arg):
    """direct oracle, no model: passwords longer than any primitive's key/block size that share a long prefix must still be told
    apart (a KDF that silently truncates its input lets a WRONG password unlock).  Creation of such a key may be refused — that is fine."""
    seed, idx, kdf, plen = arg
    from .. import common
    common.use_rebuilt_chunker()
    r = rng_for(seed, 'C06-longpw', idx)
    res = {'idx': idx, 'violations': [], 'created': False}
    prefix = r.randbytes(1).hex().encode() * (plen // 2)
    prefix = (prefix + b'#' * plen)[:plen]
    right = prefix + b'-right-tail'
    wrongs = [prefix + b'-wrong-tail', prefix, prefix + b'-right-tai', prefix + b'-right-tail!']
    with R.Scratch('c06lp_%d' % idx):
        be = R.MemBackend()
        try:
            repo, key = R.init_repo(be, {'encryption': {'kdf': dict(kdf)}}, password=right, concurrent=1)
        except Exception as e:  # noqa: BLE001
            res['refused'] = type(e).__name__
            return res
        res['created'] = True
        try:
            R.unlock(be, key=key, password=right, concurrent=1)
        except Exception as e:  # noqa: BLE001
            res['violations'].append(('access:own-password-rejected', f'a key made with a {len(right)}-byte password ({kdf["name"]}) does not unlock with it: {type(e).__name__}'))
        for wpw in wrongs:
            try:
                R.unlock(be, key=key, password=wpw, concurrent=1)
            except Exception:  # noqa: BLE001
                continue
            res['violations'].append(('access:wrong-password-unlocks', f'key made with a {len(right)}-byte password ({kdf["name"]} KDF) unlocks with a different password sharing its first {plen} bytes'))
            break
    return res


def run(out, drv, info):
    quick = out.tier == 'quick'
    out.rule = ('case = key graph (init + chain of add-key independent/shared/clone with base, KDF settings, password; or unencrypted with a clone) × '
                'history of snapshot / delete (own printed names, other keys\' names, unknown names) / clean by any user, with every user\'s '
                'list-snapshots / list-files / restore observed after every step × client state (cache directory: none / one for all users / '
                'per user / mixed; one Repository object per command or per user; observations through the same client or from a state-less '
                'machine); plus all key graphs of ≤ 2 add-keys (quick) / ≤ 3 (thorough) '
                'with every (key, password) pairing; non-trivial = ≥ 2 different keys with ≥ 1 snapshot each and a command by one key while a '
                'snapshot of another key is present (key-graph-only cases: ≥ 2 different keys); distinct = hash of the case summary')
    out.assumptions = ['ideal cryptography: MAC/AEAD/KDF are injective and unforgeable (family = (shared key, MAC key, chunker key); a name determines (family, content))',
                       'WF: every stored object is what its name says (damaged / substituted objects are C04)',
                       'client state: cache directories are written by replicat only (tampered / torn entries are C18); ideal hash for cached copies (Agree)',
                       'a hand-made key file with a plaintext private section is outside "key graphs built by init and add-key" (Lean example in C06.lean)',
                       'CPython, json, cryptography, hashlib — modelled, not verified']
    n_worlds, n_ops = (260, 10) if quick else (1400, 14)
    changed = sorted(k for k in info.get('extract_notes', {}) if k.startswith(('access.', 'section:06_access')))
    if changed:      # a guard the model mirrors is no longer in the recognised shape: not a broken tie, but look harder (DESIGN §3.1)
        n_worlds *= 2
        out.extra['unrecognised_guards'] = changed
    logs = A.run_worlds(out, drv, 'C06', n_worlds, n_ops, 'c06', 'c06')
    for log in logs:
        summarize(out, log)
    # key graphs only
    r = rng_for(out.seed, 'C06-graphs')
    graphs = A.enumerate_keygraphs(r, depth=2 if quick else 3, extra_random=12 if quick else 150)
    args = [(out.seed, i, 'C06g', g) for i, g in enumerate(graphs)]
    gres = A.run_tasks(A.run_keygraph, args, 60)
    glogs = []
    for a, log in zip(args, gres):
        if 'unlock' not in log:
            A.report_unfinished(out, log, {'kind': 'world', 'idx': a[1], 'mode': 'keygraph', 'label': 'C06g', 'seed': out.seed})
            continue
        glogs.append(log)
    for log in glogs:
        A.check_world(log, drv, out, 'c06')
        kinds = [x['kind'] for x in log['cfg']['users']]
        out.case({'keygraph': [(x['kind'], x['base'], x['kdf'], x['password']) for x in log['cfg']['users']]},
                 any(k != 'clone' for k in kinds))
        out.count('keygraph:%d' % len(kinds))
        for res in log['unlock'][1]:
            out.count('unlock:' + ('ok' if isinstance(res, list) else str(res)))
    # long passwords sharing a long prefix (direct oracle only)
    lp_args = [(out.seed, i, kdf, plen) for i, (kdf, plen) in enumerate((k, n) for k in A.KDFS for n in (64, 65, 128, 200))]
    lp = A.run_tasks(long_password_probe, lp_args, 60)
    for a, res in zip(lp_args, lp):
        out.case({'long_password': [a[2]['name'], a[3]], 'created': res.get('created'), 'refused': res.get('refused')}, bool(res.get('created')))
        out.count('longpw:' + ('created' if res.get('created') else 'refused:%s' % res.get('refused')))
        for sig, what in res.get('violations', []):
            out.violation(sig, what, {'kind': 'longpw', 'seed': out.seed, 'idx': a[1], 'kdf': a[2], 'prefix_len': a[3]})
    out.extra['worlds'] = len(logs)
    out.extra['keygraphs'] = len(glogs)


def replay(path, drv):
    d = json.load(open(path))
    rp = d.get('replay', d)
    if rp.get('kind') in ('world', 'unlock') and 'idx' in rp:
        if rp.get('mode') == 'keygraph':
            print('key-graph case: re-run the check with the same VERIF_SEED; case index', rp['idx'])
            return 2
        log = A.run_tasks(A.run_world, [(rp.get('seed', 0), rp['idx'], rp.get('label', 'C06'), rp.get('n_ops', 10), rp.get('mode', 'c06'))], 180)[0]   # a child process: a hanging command must not block the replay
        if 'steps' not in log:
            print('the world did not finish:', log)
            return 1
        print('cfg', log['cfg'])
        print('ops', [f'{st["user"]}:{st["kind"]}' + ('!' + st['error'] if st.get('error') else '') + ('@' + st['client']['state'] if st.get('client') else '')
                      for st in log['steps']])
        bad = 0
        for p, sig, what, extra in log['violations']:
            print('violation', p, sig, what)
            bad += p == 'c06'

        class _Out:
            seed = rp.get('seed', 0)
            traces_validated = 0

            def disagreement(self, what, r):
                nonlocal bad
                bad += 1
                print('disagreement', what)

            def violation(self, *a):
                pass
        if drv is not None:
            A.check_world(log, drv, _Out(), 'none')
        return 1 if bad else 0
    print('replay kind not supported')
    return 2
