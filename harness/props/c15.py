"""C15 — restore and the listings select exactly what the filters and timestamps say.

Tie (harness/impl/access.py): worlds = one REAL repository (encrypted with 1–3 keys, or unencrypted; sync or coroutine memory
backend) driven through histories of snapshots over overlapping file sets (paths appear, change, disappear; controlled clock
with distinct instants, ~30 % whole seconds whose string form lacks the fraction; notes), deletes (fed the names that
list-snapshots PRINTS) and cleans.  After EVERY step, for EVERY user, with random snapshot / file regexes (incl. none, exact
names, prefixes, alternations, character classes, never-matching) and random column selections (stdout parsed):
  * `list-snapshots`, `list-files`, `restore` are compared with the Lean model (`access.observe` = `Repo.listSnapshots /
    listFiles / restore`; regexes are passed as the sets of names / paths they accept), and `repo.step` ties the mutating
    commands;
Direct oracle (the property's own statement, evaluated on ground truth kept by `World`): restored tree ≠ {path ↦ version from
the newest readable snapshot matching the snapshot regex that contains the path, for paths matching the file regex}; printed
rows ≠ ground truth (names, notes, times, file counts, true sizes, digests, mtime; order newest first); a printed name used as
an exact filter does not return exactly that row; delete fed printed names fails or removes other snapshots.
"""
import json

from ..impl import access as A


def nontrivial(log):
    """≥ 3 snapshots, a restore under a non-trivial filter, and a restore where some path had ≥ 2 different readable versions"""
    ex = log.get('extra', {})
    return log.get('n_snapshots', 0) >= 3 and ex.get('filtered_restores', 0) > 0 and ex.get('multi_version_restores', 0) > 0


def run(out, drv, info):
    quick = out.tier == 'quick'
    out.rule = ('case = repository (encrypted with 1–3 keys in random relations, or unencrypted) × history of snapshots over overlapping file sets '
                '(paths appear/change/disappear, distinct timestamps incl. whole seconds, notes) / deletes by printed names / cleans, with every user\'s '
                'list-snapshots / list-files (random regexes, random column subsets and orders) and restore (random regexes) observed after every step; '
                'non-trivial = ≥ 3 snapshots, ≥ 1 restore under a filter, ≥ 1 restore where a path had ≥ 2 readable versions; distinct = hash of the case summary')
    out.assumptions = ['snapshot timestamps are pairwise different (the property\'s quantifier); with equal timestamps the winner depends on listing order (Lean example)',
                       'a file version stands for its bytes: that restoring a recorded version yields exactly those bytes and that listed sizes are true sizes is C01',
                       'bytes_to_human rounding is presentation: sizes are compared after parsing to (2-decimal value, unit)',
                       'WF: every stored object is what its name says (C04); CPython re / datetime / json modelled, not verified']
    n_worlds, n_ops = (260, 12) if quick else (1600, 16)
    changed = sorted(k for k in info.get('extract_notes', {}) if k.startswith(('select.', 'section:06_access')))
    if changed:      # the selection / sorting code is no longer in the recognised shape: not a broken tie, but look harder (DESIGN §3.1)
        n_worlds *= 2
        out.extra['unrecognised_guards'] = changed
    logs = A.run_worlds(out, drv, 'C15', n_worlds, n_ops, 'c15', 'c15')
    tot = {}
    for log in logs:
        summary = {'enc': log['cfg']['enc'], 'users': log['user_kinds'], 'chunking': log['cfg']['chunking'],
                   'ops': [f'{st["user"][0]}:{st["kind"]}' + ('!' + st['error'] if st.get('error') else '') for st in log['steps']],
                   'filters': [o['regex'] for st in log['steps'][:3] for o in st['obs']][:9]}
        out.case(summary, nontrivial(log))
        out.count('enc' if log['cfg']['enc'] else 'plain')
        out.count('users:%d' % log['n_users'])
        out.count('snapshots:' + ('<3' if log['n_snapshots'] < 3 else '3-5' if log['n_snapshots'] <= 5 else '>5'))
        for st in log['steps']:
            out.count('op:' + st['kind'] + ('!' + st['error'] if st.get('error') else ''))
            for o in st['obs']:
                if o['kind'] == 'restore':
                    out.count('restore:' + ('no-filter' if o['regex'] == [None, None] else 'snapshot+file-filter' if None not in o['regex'] else 'one-filter'))
                    out.count('restored-files:' + ('0' if not o['files'] else '1-2' if len(o['files']) <= 2 else '>2'))
                elif o['kind'] == 'list':
                    out.count('list-columns:%d' % len(o['cols']))
                    out.count('list-rows:' + ('0' if not o['rows'] else '1' if len(o['rows']) == 1 else '>1'))
                else:
                    out.count('listfiles-columns:%d' % len(o['cols']))
        for k, v in log.get('extra', {}).items():
            tot[k] = tot.get(k, 0) + v
    out.extra['worlds'] = len(logs)
    out.extra['totals'] = tot


def replay(path, drv):
    d = json.load(open(path))
    rp = d.get('replay', d)
    if rp.get('kind') == 'world' and 'idx' in rp:
        log = A.run_tasks(A.run_world, [(rp.get('seed', 0), rp['idx'], rp.get('label', 'C15'), rp.get('n_ops', 12), rp.get('mode', 'c15'))], 180)[0]   # a child process: a hanging command must not block the replay
        if 'steps' not in log:
            print('the world did not finish:', log)
            return 1
        print('cfg', log['cfg'])
        print('ops', [f'{st["user"]}:{st["kind"]}' + ('!' + st['error'] if st.get('error') else '') for st in log['steps']])
        bad = 0
        for p, sig, what, extra in log['violations']:
            print('violation', p, sig, what)
            bad += p == 'c15'

        class _Out:
            seed = rp.get('seed', 0)
            traces_validated = 0

            def disagreement(self, what, r):
                nonlocal bad
                bad += 1
                print('disagreement', what)

            def violation(self, *a):
                pass
        if drv is not None:
            A.check_world(log, drv, _Out(), 'none')
        return 1 if bad else 0
    print('replay kind not supported')
    return 2
