"""C15 — restore and the listings select exactly what the filters and timestamps say.

Tie (harness/impl/access.py): worlds = one REAL repository (encrypted with 1–3 keys, or unencrypted; sync or coroutine memory
backend) driven through histories of snapshots over overlapping file sets (paths appear, change, disappear; controlled clock
with distinct instants, ~30 % whole seconds whose string form lacks the fraction; notes), deletes (fed the names that
list-snapshots PRINTS) and cleans.  After EVERY step, for EVERY user, with random snapshot / file regexes (incl. none, exact
names, prefixes, alternations, character classes, never-matching) and random column selections (stdout parsed):
  * `list-snapshots`, `list-files`, `restore` are compared with the Lean model (`access.observe` = `Repo.listSnapshots /
    listFiles / restore`; regexes are passed as the sets of names / paths they accept), and `repo.step` ties the mutating
    commands;
Direct oracle (the property's own statement, evaluated on ground truth kept by `World`): restored tree ≠ {path ↦ version from
the newest readable snapshot matching the snapshot regex that contains the path, for paths matching the file regex}; printed
rows ≠ ground truth (names, notes, times, file counts, true sizes, digests, mtime; order newest first); a printed name used as
an exact filter does not return exactly that row; delete fed printed names fails or removes other snapshots.

Time-zone worlds (harness/impl/c15_tz.py): the same histories, tie and oracle, but every user is a machine in its own zone —
the process zone is really switched (TZ + tzset) before each command, separately for the snapshotting and the restoring /
listing side (UTC, fixed offsets incl. :30 / :45 / +14, northern / southern DST zones, a 30-minute-DST zone; tzdata names and
POSIX rules) — and the controlled clock produces UTC instants dense (sub-second … 0.8 × the shift apart) around one DST
transition of a focus zone: the UTC VALUES run through the skipped / repeated wall-clock hour, or the INSTANTS run through the
transition itself.  The oracle is unchanged: newest = greatest UTC timestamp, whatever the zone.  Proof side: the extractor
(tools/sections/15_timekey.py) classifies the sort keys of restore / list-snapshots / list-files and the recorded clock by what
they are as functions of the UTC value; `order_zone_independent` / `recorded_clock_is_utc` consume them.
"""
import json

from ..impl import access as A
from ..impl import c15_tz as T


def nontrivial(log):
    """≥ 3 snapshots, a restore under a non-trivial filter, and a restore where some path had ≥ 2 different readable versions;
    a time-zone world moreover needs a restore that saw two versions of a path closer together than the zone's shift, or whose
    order flips under a zone-dependent reading of the timestamps"""
    ex = log.get('extra', {})
    ok = log.get('n_snapshots', 0) >= 3 and ex.get('filtered_restores', 0) > 0 and ex.get('multi_version_restores', 0) > 0
    tz = log['cfg'].get('tz')
    if tz is not None:
        st = tz['stats']
        ok = ok and any(st.get('restores:' + k, 0) for k in ('versions-closer-than-the-shift', 'value-as-local-time-flips-versions', 'local-wall-clock-flips-versions'))
    return ok


def run(out, drv, info):
    quick = out.tier == 'quick'
    out.rule = ('case = repository (encrypted with 1–3 keys in random relations, or unencrypted) × history of snapshots over overlapping file sets '
                '(paths appear/change/disappear, distinct timestamps incl. whole seconds, notes) / deletes by printed names / cleans, with every user\'s '
                'list-snapshots / list-files (random regexes, random column subsets and orders) and restore (random regexes) observed after every step; '
                'non-trivial = ≥ 3 snapshots, ≥ 1 restore under a filter, ≥ 1 restore where a path had ≥ 2 readable versions; distinct = hash of the case summary.  '
                'Time-zone cases (counters `tz:*`) = the same × a zone per user and role (restoring / listing machine, snapshotting machine; the process zone is switched '
                'with TZ + tzset before every command; UTC, fixed offsets, northern / southern / 30-minute DST zones, tzdata names and POSIX rules) × a clock whose UTC '
                'instants are dense around one DST transition of a focus zone (values through the skipped / repeated wall-clock hour, or instants through the transition); '
                'such a case is non-trivial only if moreover a restore saw two versions of a path closer together than the shift or in an order that a zone-dependent '
                'reading of the timestamps flips')
    out.assumptions = ['snapshot timestamps are pairwise different (the property\'s quantifier); with equal timestamps the winner depends on listing order (Lean example)',
                       'a file version stands for its bytes: that restoring a recorded version yields exactly those bytes and that listed sizes are true sizes is C01',
                       'bytes_to_human rounding is presentation: sizes are compared after parsing to (2-decimal value, unit)',
                       'WF: every stored object is what its name says (C04); CPython re / datetime / json modelled, not verified',
                       'time zones: the zone is what the C library derives from TZ (tzdata of this machine / POSIX rules); wall-clock time not obtained through '
                       'replicat.repository.datetime (time.time) is not controlled']
    n_worlds, n_ops = (260, 12) if quick else (1600, 16)
    changed = sorted(k for k in info.get('extract_notes', {}) if k.startswith(('select.', 'section:06_access', 'section:15_timekey')))
    if changed:      # the selection / sorting code is no longer in the recognised shape: not a broken tie, but look harder (DESIGN §3.1)
        n_worlds *= 2
        out.extra['unrecognised_guards'] = changed
    logs = A.run_worlds(out, drv, 'C15', n_worlds, n_ops, 'c15', 'c15')
    # time-zone worlds: same generator / tie / oracle, every user a machine in its own zone, instants dense around a DST transition
    n_tz, n_tz_ops = (96, 12) if quick else (480, 16)
    if changed:
        n_tz *= 2
    tz_logs = T.run_tz_worlds(out, drv, n_tz, n_tz_ops)
    tot, tz_tot = {}, {}
    for log in logs + tz_logs:
        tz = log['cfg'].get('tz')
        summary = {'enc': log['cfg']['enc'], 'users': log['user_kinds'], 'chunking': log['cfg']['chunking'],
                   'ops': [f'{st["user"][0]}:{st["kind"]}' + ('!' + st['error'] if st.get('error') else '') for st in log['steps']],
                   'filters': [o['regex'] for st in log['steps'][:3] for o in st['obs']][:9]}
        if tz is not None:
            summary['tz'] = {'placement': tz['placement'], 'focus': tz['focus'], 'obs_zone': tz['obs_zone'], 'snap_zone': tz['snap_zone'], 'instants': tz['instants']}
        out.case(summary, nontrivial(log))
        pre = 'tz:' if tz is not None else ''
        out.count(pre + ('enc' if log['cfg']['enc'] else 'plain'))
        out.count(pre + 'users:%d' % log['n_users'])
        out.count(pre + 'snapshots:' + ('<3' if log['n_snapshots'] < 3 else '3-5' if log['n_snapshots'] <= 5 else '>5'))
        if tz is not None:
            out.count('tz:placement:' + tz['placement'])
            out.count('tz:focus-zone:' + tz['focus_class'] + (':posix-rule' if ',' in tz['focus'] else ':tzdata-name'))
            for o, sn in zip(tz['obs_zone'], tz['snap_zone']):
                out.count('tz:restoring-machine-zone:' + T.ZONE_CLASS.get(o, '?'))
                out.count('tz:snapshotting-machine-zone:' + T.ZONE_CLASS.get(sn, '?'))
                out.count('tz:snapshotting-zone-' + ('same-as' if o == sn else 'differs-from') + '-restoring-zone')
            ins = [T._dt.datetime.fromisoformat(x) for x in tz['instants']]
            for a, b in zip(ins, ins[1:]):
                d = (b - a).total_seconds()
                out.count('tz:gap-between-consecutive-snapshots:' + ('<1s' if d < 1 else '<1min' if d < 60 else '<shift' if d < tz['shift'] else '>=shift'))
            for k, v in tz['stats'].items():
                tz_tot[k] = tz_tot.get(k, 0) + v
        for st in log['steps']:
            out.count(pre + 'op:' + st['kind'] + ('!' + st['error'] if st.get('error') else ''))
            if tz is not None:
                continue
            for o in st['obs']:
                if o['kind'] == 'restore':
                    out.count('restore:' + ('no-filter' if o['regex'] == [None, None] else 'snapshot+file-filter' if None not in o['regex'] else 'one-filter'))
                    out.count('restored-files:' + ('0' if not o['files'] else '1-2' if len(o['files']) <= 2 else '>2'))
                elif o['kind'] == 'list':
                    out.count('list-columns:%d' % len(o['cols']))
                    out.count('list-rows:' + ('0' if not o['rows'] else '1' if len(o['rows']) == 1 else '>1'))
                else:
                    out.count('listfiles-columns:%d' % len(o['cols']))
        for k, v in log.get('extra', {}).items():
            tot[k] = tot.get(k, 0) + v
    out.extra['worlds'] = len(logs)
    out.extra['tz_worlds'] = len(tz_logs)
    out.extra['totals'] = tot
    out.extra['tz_totals'] = dict(sorted(tz_tot.items()))
    out.extra['sort_keys'] = {k: v for k, v in info.get('extract_notes', {}).items() if k.startswith('timekey.')}


def replay(path, drv):
    d = json.load(open(path))
    rp = d.get('replay', d)
    if rp.get('kind') == 'world' and 'idx' in rp:
        func = T.run_tz_world if rp.get('label') == T.LABEL else A.run_world
        log = A.run_tasks(func, [(rp.get('seed', 0), rp['idx'], rp.get('label', 'C15'), rp.get('n_ops', 12), rp.get('mode', 'c15'))], 180)[0]   # a child process: a hanging command must not block the replay
        if 'steps' not in log:
            print('the world did not finish:', log)
            return 1
        print('cfg', log['cfg'])
        if log['cfg'].get('tz'):
            print('time zones' + T.describe(log['cfg']['tz']))
        print('ops', [f'{st["user"]}:{st["kind"]}' + ('!' + st['error'] if st.get('error') else '') for st in log['steps']])
        bad = 0
        for p, sig, what, extra in log['violations']:
            print('violation', p, sig, what)
            bad += p == 'c15'

        class _Out:
            seed = rp.get('seed', 0)
            traces_validated = 0

            def disagreement(self, what, r):
                nonlocal bad
                bad += 1
                print('disagreement', what)

            def violation(self, *a):
                pass
        if drv is not None:
            A.check_world(log, drv, _Out(), 'none')
        return 1 if bad else 0
    print('replay kind not supported')
    return 2
