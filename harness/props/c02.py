"""C02 — no history of snapshot / delete / clean ever damages a remaining snapshot.

Tie: random histories (snapshot of overlapping file sets, delete of own / foreign / unknown snapshots, clean, orphan injection)
by 1–4 users of one REAL repository (memory backend, sync or coroutine flavour, real adapters and ciphers, rebuilt chunker) whose
keys are owner / clone / shared / independent, or an unencrypted repository.  Before and after every command the real backend's
object map is abstracted (`impl/world.py`) to the model's `Store`; `repo.step` of the compiled Lean model must produce the same
object map, error kind and uploaded chunk set, and the observed backend mutation trace must be accepted by `trace.accepts`
(a linearisation of `planOf`).  Theorems: Properties/C02.lean (`consistent_step`, `consistent_reachable`,
`restore_listed_exact`, `remaining_snapshot_unchanged`, `snapshot_survives_history`, `no_overwrite`, `consistent_prefix` (all commands),
`consistent_interleaved`, `consistent_concurrent`, `concurrent_equals_sequential`, `sequential_is_concurrent`,
`restore_unaffected_by_concurrent_snapshots`, `restore_spanning_concurrent_snapshots`).

Direct oracles (the property's statement on the real code, after EVERY command):
  * every snapshot that is still listed is restored with its owner's key by a regex on its own name and must yield exactly the
    tree captured when it was taken (`history:remaining-snapshot-damaged`);
  * no chunk referenced by a remaining snapshot is missing (`history:referenced-chunk-missing`);
  * no object holds bytes other than those written for it, no snapshot object changes, a refused command mutates nothing.
A second, targeted stream exercises overlapping snapshot commands (two real `snapshot` coroutines of two users interleaved on
one event loop) — the situation of `consistent_interleaved`.
A third stream (`impl/histx.py::conc_case`) overlaps k = 2…4 REAL `Repository.snapshot` coroutines of several users (each with its
own worker pool) on one backend, every `exists` / `upload` call gated and released in a generated order, while a reader issues
list-snapshots / list-files / restore commands at random points.  The observed per-call event trace is replayed by the compiled
concurrent model (`repo.conc`, ReplicatModel/RepoConc.lean), which must ACCEPT it, end in the implementation's object map, answer
every read as the implementation did, and whose sequential runs of the same commands (three orders) must end in that same map —
the situation of `consistent_concurrent`, `concurrent_equals_sequential`, `restore_unaffected_by_concurrent_snapshots`,
`restore_spanning_concurrent_snapshots`; the model must also accept the sequential schedule of the same commands and end it in the
store of the sequential model (`sequential_is_concurrent`).  Direct oracle there: every snapshot listed at any point (or stored before) is restored
exactly by its owner at every later point of the execution (`conc:listed-snapshot-not-restored-exactly`); a snapshot object is
never stored before one of its chunks (`conc:referenced-chunk-missing`); no overlapping command fails.
A fourth stream (`impl/c02_listing.py`) runs delete / clean over a LISTING THAT FAILS OR IS SILENTLY PARTIAL: histories on the REAL
local backend (a scratch directory) and on the memory backends, then (command, listing fault) pairs from one saved state — `os.scandir`
/ `os.listdir` of one repository directory (top `snapshots` / `data`, every `snapshots/xx`, `data/xx`, `data/xx/yy`) raising EACCES /
EIO / ESTALE / ENOENT once or always, its iteration raising after k entries, an entry's type test raising, the directory REALLY made
unreadable (chmod 000, command run under an unprivileged uid), `list_files` of the memory backend raising when called / after k names.
Tie: `repolist.step` (ReplicatModel/RepoListing.lean, `stepL` with the propagation flags extracted from the source on this run:
`consistent_under_listing_faults`, `stored_snapshot_restores_after_listing_fault`, `local_listing_fault_safe_partial`,
`local_delete_any_listing_fault_safe`; witnesses `sublisting_delete_damages`, `sublisting_clean_damages`,
`top_directory_swallow_damages` = finding D20).  Direct oracle: whatever the command's outcome, every snapshot object still stored
restores exactly with its owner's key (`history:listing-fault:remaining-snapshot-damaged:<command>:<where>`) and references only
stored chunks (`history:listing-fault:referenced-chunk-missing:<command>:<where>`).
"""
import asyncio
import json
import os

from ..common import rng_for
from ..impl import c02_listing as L
from ..impl import histx as X
from ..impl import history as H
from ..impl import runner as R
from ..impl.world import World

ORACLES = {'c02'}
EXTRA = [X.c02_oracles]
listing_case = L.listing_case     # run through `pmap` (looked up by name in this module)


def _with_pid(arg):
    name, a = arg
    return os.getpid(), globals()[name](a)


def pmap(name, args, chunksize=1):
    """run a case function in worker processes; afterwards remove what the workers left under .work/<pid> (a restore that failed
    on a deliberately damaged repository leaves writer threads behind that re-create files after the scratch directory is removed)"""
    import multiprocessing as mp
    import shutil
    from ..common import WORK
    with mp.get_context('fork').Pool(min(16, os.cpu_count() or 4)) as pool:
        got = pool.map(_with_pid, [(name, a) for a in args], chunksize=chunksize)
    # leaving the `with` block TERMINATES the workers (a worker with blocked loader threads would never exit by itself)
    for pid in {p for p, _ in got}:
        shutil.rmtree(WORK / str(pid), ignore_errors=True)
    return [r for _, r in got]


def overlap_case(arg):
    """two users snapshot overlapping data CONCURRENTLY (one event loop, async backend); afterwards every snapshot restores
    exactly and the object map is consistent"""
    seed, idx = arg
    from .. import common
    common.use_rebuilt_chunker()
    r = rng_for(seed, 'C02-overlap', idx)
    res = {'idx': idx, 'violations': [], 'summary': None}
    kinds = r.choice([['clone'], ['shared'], ['independent'], ['shared', 'independent']])
    enc = r.random() < 0.8
    with R.Scratch(f'c02o_{idx}') as sc:
        w = World(sc, enc=enc, chunking=r.choice([(8, 32), (16, 64)]), concurrent=r.choice([2, 3, 5]), async_backend=True)
        for k in kinds:
            w.add_user(k if enc else 'clone', base=0)
        blocks = [r.randbytes(r.choice([40, 64, 100])) for _ in range(4)]
        sets = []
        for _ in range(2):
            sets.append({nm: b''.join(r.choice(blocks) for _ in range(r.choice([1, 2, 3]))) + r.randbytes(r.choice([0, 5])) for nm in r.sample(['a', 'b', 'c', 'd'], r.choice([1, 2, 3]))})
        u1, u2 = 0, r.randrange(len(w.users))
        srcs = [sc.dir('o1'), sc.dir('o2')]
        for d, fs in zip(srcs, sets):
            R.write_tree(d, {k: (v, 10 ** 18 + len(v)) for k, v in fs.items()})
        repos = [w.repo(u1), w.repo(u2)]
        w.tick()

        async def both():
            from pathlib import Path
            return await asyncio.gather(repos[0].snapshot(paths=[Path(srcs[0])]), repos[1].snapshot(paths=[Path(srcs[1])]))
        try:
            with R.quiet():
                out = asyncio.run(both())
        except Exception as e:  # noqa: BLE001
            res['violations'].append(('history:overlapping-snapshots-failed', f'two concurrent snapshots raised {type(e).__name__}: {e}', {}))
            out = []
        for k, (snap, ui, d, fs) in enumerate(zip(out, (u1, u2), srcs, sets)):
            truth = {os.path.join(str(d), nm): data for nm, data in fs.items()}
            err, tree = w.restore(ui, snapshot_regex='^' + snap.name + '$')
            if err is not None or tree != truth:
                res['violations'].append(('history:remaining-snapshot-damaged', f'overlapping snapshots: snapshot #{k} does not restore exactly ({err or "content differs"})', {}))
        # every chunk referenced by a snapshot object is present (reference walk over the real objects)
        for k, (snap, ui) in enumerate(zip(out, (u1, u2))):
            for dg in snap.chunks:
                if repos[k]._chunk_digest_to_location(dg) not in w.backend.objects:
                    res['violations'].append(('history:referenced-chunk-missing', f'overlapping snapshots: a chunk of snapshot #{k} is not stored', {}))
                    break
        res['summary'] = {'enc': enc, 'users': ['owner'] + kinds, 'same_user': u1 == u2, 'files': [sorted(s) for s in sets]}
        res['shared_blocks'] = any(b in v2 for v1 in sets[0].values() for b in blocks if b in v1 for v2 in sets[1].values())
    return res


def restore_tie_case(arg):
    """several users, several snapshots, then every (user, listed snapshot) pair: REAL restore by regex on the snapshot's name
    versus the model's `restore` on the abstracted object map (what `restore_listed_exact` is stated about)"""
    seed, idx = arg
    from .. import common
    common.use_rebuilt_chunker()
    r = rng_for(seed, 'C02-restore', idx)
    res = {'idx': idx, 'pairs': [], 'violations': []}
    with R.Scratch(f'c02r_{idx}') as sc:
        cfg = H.gen_world_cfg(r)
        w = World(sc, enc=cfg['enc'], chunking=cfg['chunking'], concurrent=cfg['concurrent'], cipher=cfg['cipher'], async_backend=cfg['async_backend'])
        for kind, _ in cfg['users']:
            w.add_user(kind, base=r.randrange(len(w.users)))
        blocks = [r.randbytes(r.choice([24, 40, 64, 100])) for _ in range(4)]
        prev = None
        for _ in range(r.choice([2, 3, 4])):
            prev = H.gen_fileset(r, blocks, prev)
            w.snapshot(r.randrange(len(w.users)), prev)
        present = sorted(w.snap_by_sid)
        if len(present) > 2 and r.random() < 0.4:
            s = r.choice(present)
            d = w.snap_by_sid[s]
            owner = next(i for i, uu in enumerate(w.users) if uu.keyid == d['owner'] and uu.fam == d['fam'])
            w.delete(owner, [s])
        damaged = False
        if r.random() < 0.2:
            locs = sorted(l for l in w.backend.objects if l in w.chunk_names)
            if locs:
                del w.backend.objects[r.choice(locs)]
                damaged = True
        store = w.abstract_store({})
        pairs = [(ui, s) for ui in range(len(w.users)) for s in sorted(w.snap_by_sid) if w.snap_by_sid[s]['location'] in w.backend.objects]
        r.shuffle(pairs)
        for ui, s in pairs[:6]:
            d = w.snap_by_sid[s]
            err, tree = w.restore(ui, snapshot_regex='^' + d['name'] + '$')
            obs = None if tree is None else sorted([w.pid(p), w.ver(data)] for p, data in tree.items())
            u = w.users[ui]
            readable = u.fam == d['fam'] and u.keyid == d['owner']
            if readable and not damaged and (err is not None or tree != d['truth']):
                res['violations'].append(('history:remaining-snapshot-damaged', f'listed snapshot #{s} restored by its owner key: {err or "content differs"}', {}))
            res['pairs'].append({'req': {'op': 'repo.restore', 'enc': cfg['enc'], 'store': store, 'user': w.model_user(ui), 'sre': [s]},
                                 'impl': {'error': err, 'files': obs}, 'readable': readable, 'damaged': damaged, 'kind': u.kind})
        res['summary'] = {'enc': cfg['enc'], 'users': [uu.kind for uu in w.users], 'snapshots': len(w.snap_by_sid), 'damaged': damaged, 'pairs': len(res['pairs'])}
    return res


def crash_case(arg):
    """a command is cut short: the backend fails at the k-th mutation of a delete / clean / snapshot (what a killed process or a
    lost connection leaves).  Direct oracle: every snapshot that is still listed restores exactly; tie (delete, clean): the
    mutations that did happen are an accepted prefix of the model's plan and lead to the same object map (`consistent_prefix`)"""
    seed, idx = arg
    from .. import common
    common.use_rebuilt_chunker()
    r = rng_for(seed, 'C02-crash', idx)
    res = {'idx': idx, 'violations': [], 'tie': None}
    with R.Scratch(f'c02c_{idx}') as sc:
        cfg = H.gen_world_cfg(r)
        w = World(sc, enc=cfg['enc'], chunking=cfg['chunking'], concurrent=cfg['concurrent'], cipher=cfg['cipher'], async_backend=cfg['async_backend'])
        for kind, _ in cfg['users']:
            w.add_user(kind, base=r.randrange(len(w.users)))
        blocks = [r.randbytes(r.choice([24, 40, 64, 100])) for _ in range(4)]
        prev = None
        for _ in range(r.choice([2, 3, 4, 5])):
            prev = H.gen_fileset(r, blocks, prev)
            w.snapshot(r.randrange(len(w.users)), prev)
        if r.random() < 0.5:      # an orphan, so that clean has work to do
            x = w.snapshot(r.randrange(len(w.users)), H.gen_fileset(r, [r.randbytes(50), r.randbytes(70)], None))
            del w.backend.objects[w.snap_by_sid[x['sid']]['location']]
        ui = r.randrange(len(w.users))
        u = w.users[ui]
        own = [s for s, d in w.snap_by_sid.items() if d['location'] in w.backend.objects and d['owner'] == u.keyid and d['fam'] == u.fam]
        kind = r.choice(['delete', 'delete', 'clean', 'snapshot']) if own else r.choice(['clean', 'snapshot'])
        k = r.choice([0, 0, 1, 1, 2, 3, 5])
        count = {'n': 0}
        watch = 'put' if kind == 'snapshot' else 'del'

        def fault(op, name):
            if op == watch:
                count['n'] += 1
                if count['n'] > k:
                    return RuntimeError('backend lost')
            return None
        others = {}
        before = w.abstract_store(others)
        t0 = len(w.backend.trace)
        w.backend.fault = fault
        op = None
        try:
            if kind == 'delete':
                x = w.delete(ui, r.sample(own, min(len(own), r.choice([1, 2]))))
                op, err = x['op'], x['error']
            elif kind == 'clean':
                x = w.clean(ui)
                op, err = x['op'], x['error']
            else:
                try:
                    w.snapshot(ui, H.gen_fileset(r, blocks + [r.randbytes(90)], prev))
                    err = None
                except Exception as e:  # noqa: BLE001
                    err = 'other:' + type(e).__name__
        finally:
            w.backend.fault = None
        muts = [t for t in w.backend.trace[t0:] if t[0] in ('put', 'del')]
        res['summary'] = {'enc': cfg['enc'], 'users': [uu.kind for uu in w.users], 'command': kind, 'fails_at_mutation': k, 'mutations_done': len(muts), 'outcome': err}
        res['interrupted'] = err is not None and err.startswith('other:')
        # direct oracle
        for s, d in w.snap_by_sid.items():
            if d['location'] in w.backend.objects:
                owner = next(i for i, uu in enumerate(w.users) if uu.keyid == d['owner'] and uu.fam == d['fam'])
                e2, tree = w.restore(owner, snapshot_regex='^' + d['name'] + '$')
                if e2 is not None or tree != d['truth']:
                    res['violations'].append(('history:interrupted-command-damaged-snapshot',
                                              f'{kind} by {u.kind} user cut short after {len(muts)} mutations: snapshot #{s} no longer restores exactly ({e2 or "content differs"})', {}))
        if op is not None:
            trace = [['del', w.abstract_name(t[1]) or ['other', 0]] for t in muts]
            res['tie'] = {'req': {'op': 'trace.accepts', 'enc': cfg['enc'], 'store': before, 'cmd': op, 'trace': trace}, 'after': w.abstract_store(others)}
    return res


ALPHABET = [(k, u) for u in (0, 1) for k in ('snapA', 'snapB', 'del_old', 'del_new', 'clean')]
EX_CONFIGS = {'shared': (True, 'shared'), 'independent': (True, 'independent'), 'clone': (True, 'clone'), 'plain': (False, 'clone')}


def exhaustive_case(arg):
    """one history over the 2-user alphabet {snapshot(file set A), snapshot(file set B), delete(oldest own), delete(newest own),
    clean} in a fixed key graph; every step is recorded for the model comparison, referenced chunks are checked after every step,
    every remaining snapshot is restored by its owner at the end (every prefix of this history is itself enumerated)"""
    cfgname, ops = arg
    from .. import common
    common.use_rebuilt_chunker()
    enc, kind = EX_CONFIGS[cfgname]
    r = rng_for(0, 'C02-exhaustive-data')
    blocks = [r.randbytes(n) for n in (40, 64, 100, 48)]
    sets = {'A': {'a': blocks[0] + blocks[1], 'b': blocks[1] + blocks[2]}, 'B': {'a': blocks[0] + blocks[1], 'c': blocks[2] + blocks[3] + blocks[1]}}
    res = {'cfg': cfgname, 'ops': [list(o) for o in ops], 'steps': [], 'violations': []}
    with R.Scratch('c02x_%s_%s' % (cfgname, '_'.join('%s%d' % o for o in ops))) as sc:
        w = World(sc, enc=enc, chunking=(8, 32), concurrent=2)
        w.add_user(kind, base=0)
        others = {}
        for k, ui in ops:
            u = w.users[ui]
            before = w.abstract_store(others)
            own = sorted(s for s, d in w.snap_by_sid.items() if d['location'] in w.backend.objects and d['owner'] == u.keyid and d['fam'] == u.fam)
            if k in ('snapA', 'snapB'):
                x = w.snapshot(ui, sets[k[-1]])
                st = {'op': x['op'], 'error': None, 'uploaded': sorted({tuple(w.abstract_name(l)) for l in x['uploaded']})}
            elif k == 'clean':
                x = w.clean(ui)
                st = {'op': x['op'], 'error': x['error']}
            else:
                sids = [own[0] if k == 'del_old' else own[-1]] if own else [999001]
                x = w.delete(ui, sids)
                st = {'op': x['op'], 'error': x['error']}
            st['before'], st['after'], st['kind'] = before, w.abstract_store(others), k
            res['steps'].append(st)
            refs = {(e[0][1], c) for e in st['after'] if e[0][0] == 'snap' and e[1][0] == 'snap' for c in e[1][3]['chunks']}
            have = {(e[0][1], e[0][2]) for e in st['after'] if e[0][0] == 'chunk' and e[1][0] == 'chunk'}
            if refs - have:
                res['violations'].append(('history:referenced-chunk-missing', f'{cfgname} {ops}: after {k} by user {ui} chunks {sorted(refs - have)[:3]} referenced by a remaining snapshot are gone'))
        for s, d in w.snap_by_sid.items():
            if d['location'] in w.backend.objects:
                owner = next(i for i, uu in enumerate(w.users) if uu.keyid == d['owner'] and uu.fam == d['fam'])
                err, tree = w.restore(owner, snapshot_regex='^' + d['name'] + '$')
                if err is not None or tree != d['truth']:
                    res['violations'].append(('history:remaining-snapshot-damaged', f'{cfgname} {ops}: snapshot #{s} no longer restores exactly ({err or "content differs"})'))
    return res


def check_exhaustive(res, drv, out):
    enc = EX_CONFIGS[res['cfg']][0]
    bad = 0
    for m, st in zip(drv.ask_many([{'op': 'repo.step', 'enc': enc, 'store': st['before'], 'cmd': st['op']} for st in res['steps']]), res['steps']):
        probs = []
        if 'store' not in m:
            probs.append('driver error ' + str(m.get('error')))
        else:
            if H.canon_store(m['store']) != H.canon_store(st['after']):
                probs.append('object map differs')
            if (m['error'] or None) != st['error']:
                probs.append(f'error kind: model {m["error"]} implementation {st["error"]}')
            if 'uploaded' in st and sorted(tuple(x) for x in m['uploaded']) != [tuple(x) for x in st['uploaded']]:
                probs.append('uploaded set differs')
        if probs:
            bad += 1
            out.disagreement(f'exhaustive {res["cfg"]} {res["ops"]} at {st["kind"]}: ' + '; '.join(probs), {'kind': 'exhaustive', 'cfg': res['cfg'], 'ops': res['ops']})
        else:
            out.traces_validated += 1
    return bad


def run_exhaustive(out, drv, max_len, sample_len, n_sample):
    import itertools
    import multiprocessing as mp
    r = rng_for(out.seed, 'C02-exhaustive')
    args = []
    for cfg in EX_CONFIGS:
        for n in range(1, max_len + 1):
            args.extend((cfg, ops) for ops in itertools.product(ALPHABET, repeat=n))
        for _ in range(n_sample):
            args.append((cfg, tuple(r.choice(ALPHABET) for _ in range(sample_len))))
    for res in pmap('exhaustive_case', args, chunksize=8):
        kinds = [k for k, _ in res['ops']]
        out.case({'exhaustive': res['cfg'], 'ops': res['ops']}, any(k in ('del_old', 'del_new', 'clean') for k in kinds) and sum(k.startswith('snap') for k in kinds) >= 2)
        out.count('exhaustive:' + res['cfg'] + ':len=%d' % len(res['ops']))
        for sig, what in res['violations']:
            out.violation(sig, what, {'kind': 'exhaustive', 'cfg': res['cfg'], 'ops': res['ops']})
        if drv is not None:
            check_exhaustive(res, drv, out)


def run(out, drv, info):
    quick = out.tier == 'quick'
    n_hist, n_ops = (160, 12) if quick else (900, 30)
    out.rule = ('case = one history: repository configuration (encrypted/plain, cipher, (min,max), concurrency 1–5, sync/async backend) × users '
                '(owner + 0–3 of clone/shared/independent) × ' + str(n_ops) + ' operations from {snapshot of a file set built from shared blocks (paths appear/change/disappear, '
                'repeat of the previous data), delete of own / another user\'s / unknown snapshots, clean, orphan injection}; '
                'non-trivial = contains a successful delete or clean while ≥ 2 snapshot objects share ≥ 1 chunk; distinct = hash of (config, users, op kinds); '
                'plus deep histories (36 / 80 operations, 74 % snapshots, concurrency 1–2, ≥ 2 keys: repositories with more snapshot objects than 10–25 × the client\'s connections); plus overlapping-snapshot cases (two real snapshot coroutines interleaved), non-trivial = the two file sets share a block; plus overlapping-command cases call by call (2–4 real snapshot coroutines of several users, pools of 1–5 workers, every backend call gated and released by one of 6 scheduling styles, 0–2 snapshots stored before, a reader issuing list / list-files / restore during the execution and restoring every listed snapshot at the end), non-trivial = the calls of different commands alternate ≥ k times and ≥ 1 read happens while snapshots are running; plus ALL histories up to length 2 (quick) / 3 (thorough) and a sample of length 4 over the alphabet {snapshot A, snapshot B, delete oldest own, delete newest own, clean} × 2 users in four key graphs (shared, independent, clone, unencrypted), non-trivial = ≥ 2 snapshots and a delete or clean; plus commands cut short at the k-th backend mutation (delete / clean / snapshot), non-trivial = really interrupted after ≥ 1 mutation; plus restore-tie cases (real restore vs model restore per (user, snapshot) pair); plus listing-fault cases: a history of 2–5 snapshots by 1–4 users on the REAL local backend (60 %) or a memory backend, then 5–7 (quick) / ≤ 32 (thorough: every unscannable snapshot directory × errno first) pairs (delete of own snapshots | clean by a user of any key relation) × (scan fault: directory level top / sub, area snapshots / data, kind open / after k entries / entry type test / real chmod 000 under an unprivileged uid / backend listing raises when called or after k names, errno EACCES / EIO / ESTALE / ENOENT, transient / persistent), each from the same saved repository state, non-trivial = the fault was met by the command in the snapshot area and hides ≥ 1 stored snapshot of the command user\'s own key family')
    out.assumptions = ['ideal cryptography: digest = content id, MAC names injective per key family (DESIGN.md §4)',
                       'destructive commands (delete, clean) do not overlap with other commands (README)',
                       'unencrypted repository = one family (no keys)',
                       'CPython, asyncio, cryptography, hashlib; memory backend with the Backend interface',
                       'listing faults: one directory (or one listing call) fails per command; an injected ENOENT for the TOP directory of an area is not a fault (a repository without that directory is a state); the scan-fault interposer (os.scandir / os.listdir) and the uid switch are trusted']
    X.run(out, drv, 'C02', n_hist, n_ops, ORACLES, H.nontrivial, EXTRA)
    # deep histories: many snapshot objects per client connection (more than any window / batch sized from --concurrent), several keys
    X.run(out, drv, 'C02-deep', 16 if quick else 160, 36 if quick else 80, ORACLES, H.nontrivial, EXTRA)
    # overlapping commands, call by call: k real snapshot coroutines + a reader, gated; replayed on the concurrent model
    X.run_conc(out, drv, 'C02-conc', 48 if quick else 600, 'c02')
    # overlapping snapshots
    import multiprocessing as mp
    n_ov = 48 if quick else 400
    results = pmap('overlap_case', [(out.seed, i) for i in range(n_ov)])
    for res in results:
        out.case(res['summary'], bool(res.get('shared_blocks')))
        out.count('overlap-case')
        for sig, what, rp in res['violations']:
            out.violation(sig, what, dict(rp, kind='overlap', seed=out.seed, idx=res['idx']))
    # all short histories over a 2-user alphabet, four key graphs
    if quick:
        run_exhaustive(out, drv, 2, 4, 12)
    else:
        run_exhaustive(out, drv, 3, 4, 400)
    # commands cut short
    n_cr = 60 if quick else 1200
    results = pmap('crash_case', [(out.seed, i) for i in range(n_cr)])
    for res in results:
        out.case(res['summary'], res['interrupted'] and res['summary']['mutations_done'] > 0)
        out.count('crash:' + res['summary']['command'] + (':interrupted' if res['interrupted'] else ':completed-or-refused'))
        for sig, what, rp in res['violations']:
            out.violation(sig, what, dict(rp, kind='crash', seed=out.seed, idx=res['idx']))
        if drv is not None and res['tie'] is not None:
            check_crash_tie(res, drv, out)
    # restore tie
    n_rt = 40 if quick else 600
    results = pmap('restore_tie_case', [(out.seed, i) for i in range(n_rt)])
    for res in results:
        out.case(res['summary'], res['summary']['snapshots'] >= 2 and len(res['summary']['users']) >= 2)
        out.count('restore-tie-case')
        for p in res['pairs']:
            out.count('restore:' + ('readable' if p['readable'] else 'not-readable') + (':damaged' if p['damaged'] else ''))
        for sig, what, rp in res['violations']:
            out.violation(sig, what, dict(rp, kind='restore-tie', seed=out.seed, idx=res['idx']))
        if drv is not None:
            check_restore_tie(res, drv, out)
    # destructive commands over a listing that fails or is silently partial (real local backend + memory backends, every fault position)
    n_ls = 40 if quick else 300
    for res in pmap('listing_case', [(out.seed, i, out.tier) for i in range(n_ls)]):
        L.account(res, out, drv)


def check_crash_tie(res, drv, out):
    m = drv.ask(res['tie']['req'])
    probs = []
    if not m.get('accepts'):
        probs.append('the mutations performed are not a prefix of a linearisation of the model plan')
    elif H.canon_store(m['store_after_prefix']) != H.canon_store(res['tie']['after']):
        probs.append('object map after the interrupted command differs from the model')
    if probs:
        out.disagreement(f'interrupted {res["summary"]["command"]}: ' + '; '.join(probs) + f' (trace {res["tie"]["req"]["trace"][:4]})', {'kind': 'crash', 'idx': res['idx']})
        return 1
    out.traces_validated += 1
    return 0


def check_restore_tie(res, drv, out):
    bad = 0
    for p in res['pairs']:
        m = drv.ask(p['req'])
        impl = p['impl']
        me = m.get('error')
        mf = None if me else sorted([f[0], f[1]] for f in m['files'])
        ie = impl['error']
        if ie == 'other:KeyError':
            ie = 'missing'
        if (me or None) != ie or (me is None and mf != impl['files']):
            bad += 1
            out.disagreement(f'restore by {p["kind"]} user: model error={me} files={mf}, implementation error={impl["error"]} files={impl["files"]}',
                             {'kind': 'restore-tie', 'idx': res['idx']})
        else:
            out.traces_validated += 1
    return bad


def replay(path, drv):
    return X.hard_exit(_replay(path, drv))


def _replay(path, drv):
    d = json.load(open(path))
    rp = d.get('replay', d)
    if rp.get('kind') == 'history':
        return X.replay_history(rp, drv, ORACLES, EXTRA)
    if rp.get('kind') == 'conc':
        return X.replay_conc(rp, drv, 'c02')
    if rp.get('kind') == 'overlap':
        res = overlap_case((rp['seed'], rp['idx']))
        print('summary', res['summary'])
        for v in res['violations']:
            print('violation', v[0], v[1])
        return 1 if res['violations'] else 0
    if rp.get('kind') == 'crash':
        res = crash_case((rp.get('seed', 0), rp['idx']))
        print('summary', res['summary'])
        c = X._Collect()
        bad = check_crash_tie(res, drv, c) if (drv is not None and res['tie'] is not None) else 0
        for v in res['violations']:
            print('violation', v[0], v[1])
        for dd in c.d:
            print('disagreement', dd)
        return 1 if (res['violations'] or bad) else 0
    if rp.get('kind') == 'exhaustive':
        res = exhaustive_case((rp['cfg'], tuple(tuple(o) for o in rp['ops'])))
        c = X._Collect()
        bad = check_exhaustive(res, drv, c) if drv is not None else 0
        for v in res['violations']:
            print('violation', v[0], v[1])
        for dd in c.d:
            print('disagreement', dd)
        return 1 if (res['violations'] or bad) else 0
    if rp.get('kind') == 'listing':
        return L.replay_listing(rp, drv)
    if rp.get('kind') == 'restore-tie':
        res = restore_tie_case((rp.get('seed', 0), rp['idx']))
        print('summary', res['summary'])
        c = X._Collect()
        bad = check_restore_tie(res, drv, c) if drv is not None else 0
        for v in res['violations']:
            print('violation', v[0], v[1])
        for dd in c.d:
            print('disagreement', dd)
        return 1 if (res['violations'] or bad) else 0
    print('replay kind not supported:', rp.get('kind'))
    return 2
