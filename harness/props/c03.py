"""C03 — interrupted commands leave a consistent, usable repository  (claim labelled PARTIAL: no power-loss / fsync model).

Tie (each scenario = a real repository with a few snapshots by users of related keys, then ONE command: snapshot / delete / clean):
 (a) the command's recorded backend mutation trace — sequential, and under randomised completion orders (a backend whose calls
     finish after random delays, concurrency 5) — must be accepted by the model's plan (`trace.accepts`) and end in the model's state;
 (b) REAL crash states: the repository is materialised as a directory of the real LOCAL backend (`replicat.backends.local.Local`);
     the command runs in a forked child and the child is killed with `os._exit` before its k-th backend mutation, for every k,
     and inside a local upload at {after temp creation, after half the bytes, after the last byte, after rename};
     the directory left behind is read back THROUGH the real backend (list / exists / download), abstracted, and compared with the
     model's `store_after_prefix` for the logged prefix; then the real list-snapshots / restore / snapshot / clean run on it and are
     compared with the model commands on that state (`repo.list`, `repo.restore`, `repo.step`);
 (c) one permanent failure injected at each backend call index (`MemBackend.fault`): observed trace accepted, state = model prefix state;
 (d) `localfs.upload`: the real `Local.upload` / `upload_stream` killed at each phase (and failed attempts that are retried) on
     small directories incl. an existing destination and stale temporaries: raw directory + list/exists/download vs `LocalFS.lean`.
 (e) TWO WORKERS OF ONE SNAPSHOT UPLOADING THE SAME CHUNK: snapshots of data in which a new chunk repeats (zero-filled regions, identical
     files, runs of one block), ≥ 2 workers, the real local backend, NO serialisation of the uploads: the first two worker threads that
     upload the same object are held at their first file-system operation and then moved ONE operation at a time (`impl/c03_duel.py`:
     an audit hook sees open / rename / remove / mkdir, a profile function sees write / close of the file objects; nothing of replicat
     is patched); after `worker 0: i operations, worker 1: j, worker 0: k` the process is killed (`os._exit`), or worker 1's operations
     fail for good, or everybody runs on; schedules that separate two consecutive operations of one worker on a path by an operation
     of the other worker on the same path come first.  The directory left behind is examined like every other crash state.
 (f) `localduel.*`: two real `Local.upload` / `upload_stream` calls for ONE name (same payload / two different payloads, one or two
     backend objects, small = buffered until close / large = written straight through, existing destination, stale temporaries)
     under EVERY schedule `i, j, k` with a kill after it, and with every worker run to its end, one operation failing once, all of a
     worker's operations failing for good; raw directory + list / exists / download vs the two-worker machine of `LocalUpload.lean`
     (`duelRun`, the object of `concurrent_uploads_atomic`) on the observed operations, and vs its plain step semantics when an attempt
     was retried.
Direct oracles (the property itself): every visible snapshot restores completely and exactly; listings show no `*.tmp`; a failed or
killed snapshot is invisible; list / restore / a new snapshot / clean succeed; after clean the family's chunk objects are exactly the
referenced ones.  Two uploads of one object in flight: whatever is killed or fails, list / exists / download show the old object or
one of the complete new ones, agree with each other, show no temporary and no change of a bystander; an upload that returned has
stored a complete object; both finish when nothing fails, leaving no temporary; a later upload of the name takes effect.
"""
import json
import multiprocessing as mp
import os
import shutil

from ..common import rng_for, digest
from ..impl import runner as R
from ..impl import cachekit as K
from ..impl import crashkit as C
from ..impl.history import gen_fileset
from ..impl.world import World, canon_store, FakeDatetime, err_kind


def write_src(w, fileset):
    for rel in list(os.listdir(w.src)):
        p = w.src / rel
        shutil.rmtree(p) if p.is_dir() else p.unlink()
    R.write_tree(w.src, {k: (v, 10 ** 18 + len(v)) for k, v in fileset.items()})


class Scenario:
    def __init__(self, seed, idx, tier, sc):
        self.r = r = rng_for(seed, 'C03', idx)
        self.idx, self.tier, self.sc = idx, tier, sc
        self.enc = r.random() < 0.65
        self.w = w = World(sc, enc=self.enc, chunking=r.choice([(8, 32), (16, 64), (13, 50)]), concurrent=r.choice([1, 2, 4]),
                           cipher=r.choice([None, {'name': 'chacha20_poly1305'}]) if self.enc else None)
        self.mem = w.backend
        if self.enc:
            for kind in r.choice([[], ['shared'], ['independent'], ['clone', 'independent'], ['shared', 'independent']]):
                w.add_user(kind, base=0)
        self.others = {}
        self.res = {'idx': idx, 'violations': [], 'model': [], 'cases': [], 'dist': [], 'notes': []}
        self.blocks = [r.randbytes(r.choice([24, 40, 64, 100, 130])) for _ in range(5)] + [bytes(64)]
        self.inv_contents = {}

    # ------------------------------------------------------------ helpers
    def viol(self, sig, what, rp):
        self.res['violations'].append((sig, what, rp))

    def plain_of(self, cid):
        if len(self.inv_contents) != len(self.w.contents):
            self.inv_contents = {v: k for k, v in self.w.contents.items()}
        return self.inv_contents.get(cid)

    def validate_payloads(self, repo, new_snapshot_sid=None):
        """register byte strings found under known names as valid iff the REAL verification accepts them (chunks: decrypt with
        the key derived from the expected digest and compare; snapshot: digest == name and the body decrypts)"""
        w = self.w
        renamed = None
        for loc, data in w.backend.objects.items():
            if loc in w.chunk_names:
                if data in w.valid_payload.get(loc, ()):
                    continue
                plain = self.plain_of(w.chunk_names[loc][1])
                ok = False
                try:
                    if plain is not None:
                        if w.enc:
                            fam_repo = self.repo_for_fam(w.chunk_names[loc][0]) or repo
                            dg = fam_repo.props.hash_digest(plain)
                            ok = fam_repo.props.decrypt(data, fam_repo.props.derive_shared_subkey(dg)) == plain
                        else:
                            ok = data == plain
                except Exception:  # noqa: BLE001
                    ok = False
                if ok:
                    w.valid_payload.setdefault(loc, set()).add(data)
            elif loc.startswith('snapshots/') and loc not in w.snap_names and new_snapshot_sid is not None:
                try:
                    name = repo.parse_snapshot_location(loc).name
                    body = repo._decrypt_snapshot_body(data)
                    ok = repo.props.hash_digest(data) == bytes.fromhex(name) and body['data'] is not None
                except Exception:  # noqa: BLE001
                    ok = False
                if ok:
                    d = w.snap_by_sid[new_snapshot_sid]
                    w.snap_names[loc] = (d['fam'], new_snapshot_sid)
                    w.valid_payload.setdefault(loc, set()).add(data)
                    renamed = (d['name'], d['location'])
                    d['name'], d['location'] = name, loc
        return renamed

    def repo_for_fam(self, fam):
        cache = self.__dict__.setdefault('_fam_repos', {})
        if fam not in cache:
            cache[fam] = None
            for i, u in enumerate(self.w.users):
                if u.fam == fam:
                    cache[fam] = K.repo_on(self.w, i, self.mem)
                    break
        return cache[fam]

    def mut_json(self, kind, loc, sid_hint=None):
        w = self.w
        n = w.abstract_name(loc)
        if n is None and sid_hint is not None and loc.startswith('snapshots/'):
            n = ['snap', w.snap_by_sid[sid_hint]['fam'], sid_hint]
        if n is None:
            n = ['other', 0]
        if kind == 'del':
            return ['del', n]
        if n[0] == 'chunk':
            return ['put', n, ['chunk', n[1], n[2]]]
        if n[0] == 'snap':
            return ['put', n, ['snap', n[1], n[2], w.snap_by_sid[n[2]]['body']]]
        return ['put', n, ['blob', 0]]

    def dedup(self, muts):
        seen, out = set(), []
        for m in muts:
            k = json.dumps(m[:2])
            if k not in seen:
                seen.add(k)
                out.append(m)
        return out

    def rows_model(self, rows):
        name2sid = {d['name']: s for s, d in self.w.snap_by_sid.items()}
        with_data, without = [], []
        for row in rows:
            sid = name2sid.get(row[0], -1)
            (without if row[2] == '--' else with_data).append(sid if row[2] == '--' else [sid, int(row[3])])
        return [with_data, sorted(without)]

    # ------------------------------------------------------------ build + reference run
    def build(self):
        r, w = self.r, self.w
        prev = None
        for _ in range(r.choice([2, 2, 3])):
            fs = gen_fileset(r, self.blocks, prev)
            w.snapshot(r.randrange(len(w.users)), fs)
            prev = fs
        self.kind = r.choice(['snapshot', 'snapshot', 'snapshot', 'delete', 'delete', 'clean'])
        self.ui = r.randrange(len(w.users))
        u = w.users[self.ui]
        own = [s for s, d in w.snap_by_sid.items() if d['owner'] == u.keyid and d['fam'] == u.fam]
        if self.kind == 'delete' and not own:
            self.kind = 'snapshot'
        if self.kind == 'clean':
            # orphans: what an interrupted snapshot leaves (its snapshot object never arrived)
            snap = w.snapshot(self.ui, gen_fileset(r, self.blocks, None))
            del w.backend.objects[w.snap_by_sid[snap['sid']]['location']]
        self.objects0 = dict(w.backend.objects)
        self.store0 = w.abstract_store(self.others)
        self.snaps0 = sorted(loc for loc in self.objects0 if loc.startswith('snapshots/'))
        self.fileset = None
        self.new_sid = None
        if self.kind == 'snapshot':
            self.fileset = gen_fileset(r, self.blocks, prev) or {'a': r.randbytes(70)}
            if not any(self.fileset.values()):
                self.fileset['a'] = r.randbytes(70)
            if r.random() < 0.5:
                # data in which a NEW chunk repeats (identical files, a run of one block, zero-filled regions): with more than one
                # worker several of them see exists() == False for it and upload the same object at the same time
                rep = r.choice(['zeros', 'zeros', 'twin-files', 'block-run'])
                if rep == 'zeros':
                    self.fileset['rep/sparse'] = bytes(64) * r.choice([4, 6, 9]) + r.randbytes(r.choice([0, 5]))
                elif rep == 'twin-files':
                    twin = r.randbytes(r.choice([90, 200, 333]))
                    self.fileset['rep/one'], self.fileset['rep/two'] = twin, twin
                else:
                    self.fileset['rep/run'] = r.randbytes(r.choice([40, 100])) * r.choice([3, 5])
            res = w.snapshot(self.ui, self.fileset)
            self.op, self.new_sid = res['op'], res['sid']
            ref_trace = res['trace']
            self.ref_err = None
        elif self.kind == 'delete':
            self.sids = r.sample(own, r.choice([1, 1, 2]) if len(own) > 1 else 1)
            self.names = [w.snap_by_sid[s]['name'] for s in self.sids]
            res = w.delete(self.ui, self.sids)
            self.op, ref_trace, self.ref_err = res['op'], res['trace'], res['error']
        else:
            res = w.clean(self.ui)
            self.op, ref_trace, self.ref_err = res['op'], res['trace'], res['error']
        self.ref_now = FakeDatetime._now
        self.ref_clock = w.clock
        self.ref_muts = [(t[0], t[1]) for t in ref_trace if t[0] in ('put', 'del')]
        asked = [t[1] for t in ref_trace if t[0] == 'exists']
        # objects this command creates and meets at least twice in its stream (one `exists` per occurrence)
        self.duel_targets = sorted({n for n in asked if asked.count(n) >= 2 and n not in self.objects0}) if self.kind == 'snapshot' else []
        self.ref_calls = len([t for t in ref_trace if t[0] in ('put', 'del', 'exists', 'get')])
        self.store_ref = w.abstract_store(self.others)
        rp = {'kind': 'scenario', 'idx': self.idx, 'tier': self.tier, 'part': 'reference'}
        muts = self.dedup([self.mut_json(k, n) for k, n in self.ref_muts])
        self.res['model'].append(({'op': 'repo.step', 'enc': self.enc, 'store': self.store0, 'cmd': self.op},
                                  {'store': canon_store(self.store_ref), 'error': self.ref_err}, 'step', rp))
        if self.ref_err is None:
            self.res['model'].append(({'op': 'trace.accepts', 'enc': self.enc, 'store': self.store0, 'cmd': self.op, 'trace': muts},
                                      {'store': canon_store(self.store_ref), 'full': True}, 'trace', rp))
        self.summary = {'cmd': self.kind, 'enc': self.enc, 'users': [x.kind for x in w.users], 'user': u.kind, 'mutations': len(self.ref_muts),
                        'concurrent': w.concurrent}

    def run_command(self, repo):
        """the command under test on `repo` (raises what the command raises)"""
        if self.kind == 'snapshot':
            write_src(self.w, self.fileset)
            return R.snapshot(repo, [self.w.src])
        with R.quiet():
            if self.kind == 'delete':
                return R.run(repo.delete_snapshots(list(self.names), confirm=False))
            return R.run(repo.clean())

    def reset_world_snapshot_identity(self, saved):
        if saved is not None:
            d = self.w.snap_by_sid[self.new_sid]
            d['name'], d['location'] = saved

    # ------------------------------------------------------------ (a) randomised completion orders
    def part_a(self, n_orders):
        w, r = self.w, self.r
        import asyncio

        class Jitter(R.AsyncMemBackend):
            async def _nap(self):
                await asyncio.sleep(self.rng.random() * 0.004)

            async def upload(self, name, data):
                await self._nap()
                return R.MemBackend.upload(self, name, data)

            async def upload_stream(self, name, stream, length, chunk_size=128_000):
                await self._nap()
                return R.MemBackend.upload_stream(self, name, stream, length, chunk_size)

            async def delete(self, name):
                await self._nap()
                return R.MemBackend.delete(self, name)

            async def exists(self, name):
                await self._nap()
                return R.MemBackend.exists(self, name)
        for j in range(n_orders):
            be = Jitter(dict(self.objects0))
            be.rng = rng_for(self.r.random(), 'jitter', j)
            w.backend = be
            w.concurrent, keep = 5, w.concurrent
            FakeDatetime._now = self.ref_now
            err = None
            # a failed call, unlike a kill, leaves the client process alive: in half of the cases the SAME Repository object
            # (a service / library user) issues the follow-up commands, otherwise a fresh one (the CLI)
            same_object = r.random() < 0.5
            if same_object:
                import asyncio
                R.PERSISTENT_LOOP = asyncio.new_event_loop()
            rep = None
            try:
                with C.time_limit(25):
                    rep = K.repo_on(w, self.ui, be)
                    if same_object:
                        K.keep(rep)
                    self.run_command(rep)
            except C.Hang:
                self.viol('order:command-hangs', f'{self.kind} under a randomised completion order did not return within 25 s', {'kind': 'scenario', 'idx': self.idx, 'tier': self.tier, 'part': 'order'})
                raise
            except Exception as e:  # noqa: BLE001
                err = err_kind(e)
            K.settle()
            w.concurrent = keep
            saved = self.validate_payloads(w.repo(self.ui), self.new_sid)
            muts = self.dedup([self.mut_json(k, n, self.new_sid) for k, n in [(t[0], t[1]) for t in be.mutations()]])
            st = w.abstract_store(self.others)
            rp = {'kind': 'scenario', 'idx': self.idx, 'tier': self.tier, 'part': 'order', 'j': j}
            if err != self.ref_err:
                self.res['notes'].append((f'under a randomised completion order the command ended with {err}, sequentially with {self.ref_err}', rp))
            elif err is None:
                self.res['model'].append(({'op': 'trace.accepts', 'enc': self.enc, 'store': self.store0, 'cmd': self.op, 'trace': muts},
                                          {'store': canon_store(st), 'full': True}, 'trace', rp))
            order = [m[1][0][0] + ('' if m[0] == 'put' else '-') for m in muts]
            self.res['cases'].append((dict(self.summary, part='completion-order', order=digest(order)), len(muts) >= 2))
            self.res['dist'].append('a:completion-order')
            self.reset_world_snapshot_identity(saved)
        w.backend = self.mem

    # ------------------------------------------------------------ (b) real crash states on the local backend
    def child(self, root, log, k, phase):
        def fn():
            C.install_upload_hooks()
            be = C.make_crash_backend(root, log, k, phase)
            FakeDatetime._now = self.ref_now
            repo = K.repo_on(self.w, self.ui, be)
            self.run_command(repo)
        return fn

    def examine(self, root, log, k, phase, status, duel=None):
        """`duel` (part e): dict(label, rp, logged [(kind, name)], full) — the mutations are those the child logged when they returned
        plus every new object the directory shows (a call that renamed but had not returned yet)"""
        w, r = self.w, self.r
        if duel is None:
            done, armed = C.read_log(log)
            prefix = list(done) + ([armed] if (phase == 'renamed' and armed is not None) else [])
            label = 'before-mutation-%d' % k if phase is None else '%s@%d' % (phase, k)
            rp = {'kind': 'scenario', 'idx': self.idx, 'tier': self.tier, 'part': 'crash', 'k': k, 'phase': phase}
        else:
            armed, prefix, label, rp = None, list(duel['logged']), duel['label'], duel['rp']
        how = f'{self.kind} killed at {label}' if duel is None else label
        be = C.make_dir_backend(root)
        w.backend = be
        w.clock = self.ref_clock + 10
        saved = None
        try:
            listing = be.real_list('')
            if duel is not None:
                have = {n for _kd, n in prefix}
                prefix += [('put', n) for n in sorted(listing) if n not in self.objects0 and n not in have]
            if any(n.endswith('.tmp') for n in listing):
                self.viol('crash:temporary-listed', f'{how}: the listing of the directory left behind shows a temporary: '
                          f'{[n for n in listing if n.endswith(".tmp")][:2]}', rp)
            raw = C.raw_files(root)
            temps = sorted(p for p in raw if p.endswith('.tmp'))
            saved = self.validate_payloads(w.repo(self.ui), self.new_sid)
            st = w.abstract_store(self.others)
            bad_objs = [e[0] for e in st if e[1] == ['blob', 0]]
            if bad_objs:
                self.viol('crash:partial-object-visible', f'{how}: objects that fail verification are visible under final names: {bad_objs[:3]}', rp)
            muts = self.dedup([self.mut_json(kd, n, self.new_sid) for kd, n in prefix])
            self.res['model'].append(({'op': 'trace.accepts', 'enc': self.enc, 'store': self.store0, 'cmd': self.op, 'trace': muts},
                                      {'store': canon_store(st), 'full': False}, 'trace', rp))
            base = {'enc': self.enc, 'store': st, 'user': w.model_user(self.ui)}
            if duel is not None and not duel['full'] and not bad_objs:
                self.res['cases'].append((dict(self.summary, part='duel', point=label, prefix=len(prefix), temps=len(temps)), True))
                return
            # --- the property itself: every visible snapshot restores completely
            visible = [s for s, d in w.snap_by_sid.items() if d['location'] in listing]
            new_visible = [loc for loc in listing if loc.startswith('snapshots/') and loc not in self.snaps0]
            if self.kind == 'snapshot' and new_visible and not (status == 0 or (phase == 'renamed' and armed and armed[1] in new_visible)):
                self.viol('crash:snapshot-visible-before-complete', f'{how} but a new snapshot object is visible: {new_visible[:1]}', rp)
            for s in visible:
                d = w.snap_by_sid[s]
                owner = next(i for i, uu in enumerate(w.users) if uu.keyid == d['owner'] and uu.fam == d['fam'])
                err, tree = w.restore(owner, snapshot_regex='^' + d['name'] + '$')
                if err is not None or tree != d['truth']:
                    self.viol('crash:visible-snapshot-incomplete', f'{how}: visible snapshot #{s} does not restore completely ({err or "content differs"})', rp)
            # --- usable: list, restore-all, new snapshot, clean — compared with the model on the crashed state
            err, rows = K.run_list(w.repo(self.ui), None)
            if err is not None:
                self.viol('crash:list-fails', f'{how}: list-snapshots fails afterwards ({err})', rp)
            self.res['model'].append((dict(base, op='repo.list'), {'error': err, 'rows': None if rows is None else self.rows_model(rows)}, 'list', rp))
            err, tree, _files = K.run_restore(w.repo(self.ui), self.sc, None, None)
            if err is not None:
                self.viol('crash:restore-fails', f'{how}: restore fails afterwards ({err})', rp)
            files = None if tree is None else sorted([w.pid(p), w.ver(b)] for p, b in tree.items())
            self.res['model'].append((dict(base, op='repo.restore'), {'error': err, 'files': files}, 'restore', rp))
            try:
                fs2 = {'z': r.randbytes(90), 'a': self.blocks[0]}
                if self.kind == 'snapshot':
                    fs2 = dict(self.fileset, z=fs2['z'])        # the interrupted snapshot is taken again (plus one new file)
                snap2 = w.snapshot(self.ui, fs2, repo=w.repo(self.ui))
                st2 = w.abstract_store(self.others)
                self.res['model'].append(({'op': 'repo.step', 'enc': self.enc, 'store': st, 'cmd': snap2['op']},
                                          {'store': canon_store(st2), 'error': None}, 'step', rp))
                e2, t2 = w.restore(self.ui, snapshot_regex='^' + snap2['name'] + '$')
                if e2 is not None or t2 != w.snap_by_sid[snap2['sid']]['truth']:
                    self.viol('crash:new-snapshot-broken', f'{how}: a snapshot taken afterwards does not restore ({e2})', rp)
            except Exception as e:  # noqa: BLE001
                self.viol('crash:snapshot-fails', f'{how}: a new snapshot fails afterwards ({err_kind(e)})', rp)
                st2 = w.abstract_store(self.others)
            cres = w.clean(self.ui)
            if cres['error'] is not None:
                self.viol('crash:clean-fails', f'{how}: clean fails afterwards ({cres["error"]})', rp)
            st3 = w.abstract_store(self.others)
            self.res['model'].append(({'op': 'repo.step', 'enc': self.enc, 'store': st2, 'cmd': cres['op']},
                                      {'store': canon_store(st3), 'error': cres['error']}, 'step', rp))
            fam = w.users[self.ui].fam
            listing3 = be.real_list('')
            refs = set()
            for s, d in w.snap_by_sid.items():
                if d['location'] in listing3 and d['fam'] == fam:
                    refs.update(d['body']['chunks'])
            objs = {w.chunk_names[loc][1] for loc in listing3 if loc in w.chunk_names and w.chunk_names[loc][0] == fam}
            if objs - refs:
                self.viol('crash:clean-leaves-unreferenced', f'{how}, then clean: {len(objs - refs)} unreferenced chunk(s) of the family remain', rp)
            if refs - objs:
                self.viol('crash:clean-removed-referenced', f'{how}, then clean: {len(refs - objs)} referenced chunk(s) are missing', rp)
            inside = phase is not None or (0 < len(prefix) and status != 0) or duel is not None
            self.res['cases'].append((dict(self.summary, part='crash' if duel is None else 'duel', point=label, prefix=len(prefix), temps=len(temps)), bool(inside)))
            if duel is None:
                self.res['dist'] += ['b:crash:' + self.kind, 'b:point:' + ('between' if phase is None else phase), 'b:temps-left:%d' % min(len(temps), 2)]
            else:
                self.res['dist'].append('e:examined-in-full')
        finally:
            self.reset_world_snapshot_identity(saved)
            w.backend = self.mem

    def part_b(self, max_points, phase_points):
        d0 = self.sc.dir('D0')
        C.materialize(self.objects0, d0)
        n_total = None
        ks = []
        k = 0
        full_log = None
        while True:
            root = self.sc.dir()
            shutil.rmtree(root)
            shutil.copytree(d0, root)
            log = str(root) + '.log'
            K.settle()
            status = C.run_child(self.child(root, log, k, None))
            if status not in (0, 17):
                self.res['notes'].append((f'child process for crash point {k} ended with status {status}', {'kind': 'scenario', 'idx': self.idx, 'tier': self.tier, 'part': 'crash', 'k': k}))
                break
            self.examine(root, log, k, None, status)
            shutil.rmtree(root, ignore_errors=True)
            if status == 0:
                n_total = k
                full_log = C.read_log(log)[0]
                break
            ks.append(k)
            # all points when few, otherwise a spread
            k += 1 if (max_points is None or k < max_points) else max(1, (len(self.ref_muts) - k) // 3)
            if k > len(self.ref_muts) + 40:
                break
        if full_log is None:
            return
        puts = [i for i, (kd, _n) in enumerate(full_log) if kd == 'put']
        chosen = puts if phase_points is None else sorted(set(([puts[0], puts[len(puts) // 2], puts[-1]] if puts else [])[:phase_points]))
        for k in chosen:
            for phase in C.PHASES:
                root = self.sc.dir()
                shutil.rmtree(root)
                shutil.copytree(d0, root)
                log = str(root) + '.log'
                K.settle()
                status = C.run_child(self.child(root, log, k, phase))
                if status != 17:
                    # the order of mutations can differ from run to run: mutation k may be a delete this time
                    self.res['dist'].append('b:phase-not-reached')
                    shutil.rmtree(root, ignore_errors=True)
                    continue
                self.examine(root, log, k, phase, status)
                shutil.rmtree(root, ignore_errors=True)

    # ------------------------------------------------------------ (e) two workers of the snapshot upload the SAME chunk
    def child_duel(self, root, log, segments, ending):
        def fn():
            from ..impl import c03_duel as D
            be = D.make_duel_backend(root, log, set(self.duel_targets), segments, ending)
            FakeDatetime._now = self.ref_now
            repo = K.repo_on(self.w, self.ui, be)
            self.run_command(repo)
        return fn

    def part_e(self, n_sched, n_full):
        """the real snapshot on the real local backend with ≥ 2 workers and data in which a new chunk repeats: the first two
        worker threads that upload the same object are held at their first file-system operation and then moved one operation at a
        time (worker 0: i operations, worker 1: j, worker 0: k ∈ {0, all}); then the process is killed, or worker 1's operations
        fail for good, or everybody runs on.  The directory left behind is examined like every other crash state."""
        from ..impl import c03_duel as D
        w = self.w
        if not self.duel_targets:
            self.res['dist'].append('e:no-repeated-new-chunk' if self.kind == 'snapshot' else 'e:not-a-snapshot')
            return
        d0 = self.sc.dir('E0')
        C.materialize(self.objects0, d0)
        keep, w.concurrent = w.concurrent, max(2, w.concurrent)

        def go(segments, ending):
            root = self.sc.dir()
            shutil.rmtree(root)
            shutil.copytree(d0, root)
            log = str(root) + '.log'
            K.settle()
            status = C.run_child(self.child_duel(root, log, segments, ending), timeout=240)
            return root, D.read_duel_log(log), status
        try:
            root, lg, status = go([(0, 'all'), (1, 'all')], ['release'])
            shutil.rmtree(root, ignore_errors=True)
            notes = [e[1].get('note') for e in lg['events'] if e[0] == 'm' and 'note' in e[1]]
            if status != 0 or 'duel' not in notes:
                self.res['dist'].append('e:no-duel-arose')
                if status != 0:
                    self.res['notes'].append((f'snapshot with two held uploaders of one chunk ended with status {status}', {'kind': 'scenario', 'idx': self.idx, 'tier': self.tier, 'part': 'duel'}))
                return
            n = [len([1 for ww, _pt, _f in lg['grants'] if ww == x]) for x in (0, 1)]
            fam = []
            for i in range(n[0] + 1):
                for j in range(n[1] + 1):
                    for k in ([0, 'all'] if j and i < n[0] else [0]):
                        fam.append(([(0, i), (1, j), (0, k)], ['kill']))
                    if j < n[1]:
                        fam.append(([(0, i), (1, j), (0, 'all')], ['fault', 1, None, False]))
                        fam.append(([(0, i), (1, j), (0, 'all')], ['fault', 1, ['write', 'close'], False]))
                    fam.append(([(0, i), (1, j)], ['release']))
            rng_for(0, 'C03-duel-family').shuffle(fam)
            # conflict-directed selection: interleavings in which two CONSECUTIVE operations of worker 0 on one path are separated by
            # an operation of worker 1 on the same path come first (with private temporaries there are none besides mkdir / rename)
            ops = [[pt for ww, pt, _f in lg['grants'] if ww == x] for x in (0, 1)]
            paths = lambda pt: {pt.get('p'), pt.get('to')} - {None}  # noqa: E731
            prio = []
            for i in range(1, n[0]):
                shared = paths(ops[0][i - 1]) & paths(ops[0][i])
                for j in range(1, n[1] + 1):
                    if shared & paths(ops[1][j - 1]):
                        prio += [([(0, i), (1, j), (0, 'all')], ['kill']), ([(0, i), (1, j), (0, 'all')], ['fault', 1, None, False]), ([(0, i), (1, j), (0, 0)], ['kill'])]
            self.res['dist'].append('e:conflict-directed-schedules:%s' % ('none' if not prio else '1-9' if len(prio) < 10 else '10+'))
            if n_sched is not None:
                np_ = min(len(prio), max(0, n_sched - 2))
                self.r.shuffle(prio)
                start = (self.idx * n_sched) % len(fam)
                fam = prio[:np_] + (fam + fam)[start:start + n_sched - np_]
            else:
                fam = prio + fam
            self.res['dist'].append('e:snapshot-with-contested-chunk')
            for si, (segments, ending) in enumerate(fam):
                root, lg, status = go(segments, ending)
                try:
                    rp = {'kind': 'scenario', 'idx': self.idx, 'tier': self.tier, 'part': 'duel', 'segments': segments, 'ending': ending}
                    if status is None or status == 9:
                        self.viol('crash:duel:command-hangs', f'snapshot, two workers uploading one chunk ({segments}, {ending}): the process did not finish', rp)
                        continue
                    if status not in (0, 4, 17):
                        self.res['notes'].append((f'duel child ended with status {status} ({segments}, {ending})', rp))
                        continue
                    name = next((e[1].get('name') for e in lg['events'] if e[0] == 'm' and e[1].get('note') == 'duel'), None)
                    if name is None:
                        self.res['dist'].append('e:no-duel-arose')
                        continue
                    logged = [('put' if 'put' in e[1] else 'del', e[1].get('put', e[1].get('del'))) for e in lg['events'] if e[0] == 'm' and ('put' in e[1] or 'del' in e[1])]
                    what = {'kill': 'killed', 'release': 'left to finish', 'fault': "worker 1's file-system operations failing for good"}[ending[0]]
                    label = f'snapshot with two workers uploading {name[:18]}…: {seg_text(lg, ["w", "w"]).replace(" (w)", "")}; then {what}'
                    self.res['dist'] += ['e:ending:' + ending[0], 'e:status:%s' % status]
                    if ending[0] == 'release' and status != 0:
                        self.viol('crash:duel:snapshot-fails', f'{label}: the snapshot failed (status {status}) although nothing was killed or failed', rp)
                    self.examine(root, None, None, None, status, duel={'label': label, 'rp': rp, 'logged': logged, 'full': si < n_full or n_sched is None})
                finally:
                    shutil.rmtree(root, ignore_errors=True)
        finally:
            w.concurrent = keep

    # ------------------------------------------------------------ (c) one permanent failure per backend call
    def part_c(self, max_calls):
        w, r = self.w, self.r
        idxs = list(range(self.ref_calls))
        if max_calls is not None and len(idxs) > max_calls:
            idxs = sorted(r.sample(idxs, max_calls))
        for i in idxs:
            be = type(self.mem)(dict(self.objects0))
            state = {'n': 0, 'failed': None}

            def fault(op, name, state=state, i=i):
                n = state['n']
                state['n'] += 1
                if n == i:
                    state['failed'] = (op, name)
                    return RuntimeError('injected permanent failure')
                return None
            be.fault = fault
            w.backend = be
            FakeDatetime._now = self.ref_now
            err = None
            # a failed call, unlike a kill, leaves the client process alive: in half of the cases the SAME Repository object
            # (a service / library user) issues the follow-up commands, otherwise a fresh one (the CLI)
            same_object = r.random() < 0.5
            if same_object:
                import asyncio
                R.PERSISTENT_LOOP = asyncio.new_event_loop()
            rep = None
            try:
                with C.time_limit(25):
                    rep = K.repo_on(w, self.ui, be)
                    if same_object:
                        K.keep(rep)
                    self.run_command(rep)
            except C.Hang:
                self.viol('fault:command-hangs', f'{self.kind} with a permanently failing {state["failed"]} (call #{i}) did not return within 25 s: a failed call must end the command with an error',
                          {'kind': 'scenario', 'idx': self.idx, 'tier': self.tier, 'part': 'fault', 'call': i})
                del K._KEPT[:]
                R.PERSISTENT_LOOP = None
                raise
            except Exception as e:  # noqa: BLE001
                err = type(e).__name__
            K.settle()
            if same_object and rep is not None:
                K.drain(rep)
            be.fault = None
            rp = {'kind': 'scenario', 'idx': self.idx, 'tier': self.tier, 'part': 'fault', 'call': i}
            saved = None
            try:
                failed = state['failed']
                if failed is None:
                    self.res['dist'].append('c:index-not-reached')
                    continue
                saved = self.validate_payloads(w.repo(self.ui), self.new_sid)
                st = w.abstract_store(self.others)
                muts = self.dedup([self.mut_json(kd, n, self.new_sid) for kd, n in [(t[0], t[1]) for t in be.mutations()]])
                self.res['model'].append(({'op': 'trace.accepts', 'enc': self.enc, 'store': self.store0, 'cmd': self.op, 'trace': muts},
                                          {'store': canon_store(st), 'full': False}, 'trace', rp))
                label = f'{failed[0]} call #{i}'
                if err is None:
                    self.res['notes'].append((f'{self.kind}: a permanently failing {label} did not make the command fail', rp))
                snaps_now = sorted(loc for loc in be.objects if loc.startswith('snapshots/'))
                if self.kind == 'snapshot' and snaps_now != self.snaps0:
                    self.viol('fault:failed-snapshot-visible', f'snapshot with a permanently failing {label} left a new snapshot object visible', rp)
                if self.kind == 'delete' and failed[0] == 'del' and failed[1].startswith('snapshots/'):
                    gone = [loc for loc in self.objects0 if loc.startswith('data/') and loc not in be.objects]
                    if gone:
                        self.viol('fault:chunks-deleted-after-failed-snapshot-delete', f'delete: a snapshot delete failed for good but {len(gone)} chunk(s) were removed', rp)
                for s, d in w.snap_by_sid.items():
                    if d['location'] in be.objects:
                        owner = next(j for j, uu in enumerate(w.users) if uu.keyid == d['owner'] and uu.fam == d['fam'])
                        e2, tree = w.restore(owner, snapshot_regex='^' + d['name'] + '$')
                        if e2 is not None or tree != d['truth']:
                            self.viol('fault:visible-snapshot-incomplete', f'{self.kind} with a permanently failing {label}: visible snapshot #{s} does not restore completely ({e2 or "content differs"})', rp)
                cres = w.clean(self.ui)
                if cres['error'] is not None:
                    self.viol('fault:clean-fails', f'{self.kind} with a permanently failing {label}: clean fails afterwards ({cres["error"]})', rp)
                st3 = w.abstract_store(self.others)
                self.res['model'].append(({'op': 'repo.step', 'enc': self.enc, 'store': st, 'cmd': cres['op']},
                                          {'store': canon_store(st3), 'error': cres['error']}, 'step', rp))
                # "the repository stays fully usable": the command is issued again (now every call succeeds) and must do its job
                who = 'the same Repository object' if same_object else 'a fresh Repository object'
                if rep is None:
                    same_object, who = False, 'a fresh Repository object'
                    K.close_persistent_loop()
                rep2 = rep if same_object else w.repo(self.ui)
                sid0, names0 = w.next_sid, dict(w.snap_names)
                try:
                    if self.kind == 'snapshot':
                        try:
                            snap_r = w.snapshot(self.ui, self.fileset, repo=rep2)
                        except Exception as e:  # noqa: BLE001
                            self.viol('fault:retry-fails', f'snapshot issued again through {who} after a permanently failing {label} fails: {type(e).__name__}: {str(e)[:80]}', rp)
                        else:
                            d = w.snap_by_sid[snap_r['sid']]
                            e3, tree3 = w.restore(self.ui, snapshot_regex='^' + d['name'] + '$')
                            if e3 is not None or tree3 != d['truth']:
                                self.viol('fault:retried-snapshot-incomplete', f'snapshot issued again through {who} after a permanently failing {label} is visible but does not restore '
                                          f'completely ({e3 or "content differs"})', rp)
                    else:
                        try:
                            self.run_command(rep2)
                        except Exception as e:  # noqa: BLE001
                            if not (self.kind == 'delete' and type(e).__name__ == 'ReplicatError'):      # the failed delete may already have removed the snapshots it names
                                self.viol('fault:retry-fails', f'{self.kind} issued again through {who} after a permanently failing {label} fails: {type(e).__name__}: {str(e)[:80]}', rp)
                        for s2, d in w.snap_by_sid.items():
                            if d['location'] in be.objects:
                                owner = next(j for j, uu in enumerate(w.users) if uu.keyid == d['owner'] and uu.fam == d['fam'])
                                e2, tree = w.restore(owner, snapshot_regex='^' + d['name'] + '$')
                                if e2 is not None or tree != d['truth']:
                                    self.viol('fault:visible-snapshot-incomplete', f'{self.kind} issued again through {who} after a permanently failing {label}: visible snapshot #{s2} does not '
                                              f'restore completely ({e2 or "content differs"})', rp)
                finally:
                    for s2 in [x for x in w.snap_by_sid if x >= sid0]:
                        del w.snap_by_sid[s2]
                    w.next_sid, w.snap_names = sid0, names0
                self.res['cases'].append((dict(self.summary, part='fault', failed=failed[0], call=i, done=len(muts)), failed[0] in ('put', 'del')))
                self.res['dist'] += ['c:fault:' + failed[0], 'c:cmd:' + self.kind, 'c:retry-through:' + ('same-object' if same_object else 'fresh-object')]
            finally:
                self.reset_world_snapshot_identity(saved)
                w.backend = self.mem
                K.close_persistent_loop()


def isolate_tqdm_lock():
    """tqdm's default write lock is a MULTIPROCESSING lock: created once, it is shared by every process forked afterwards (the pool
    workers and the children they fork).  The crash tests kill children at arbitrary instants (`os._exit`); a child killed while it
    holds that lock leaves it held for ever and every worker then blocks in its next `tqdm(...)` — the check hangs until the outer
    timeout.  A per-process thread lock has the semantics replicat needs (its progress bars are used from threads of one process) and
    dies with the process; without the monitor thread nothing else can hold it at the moment a child is forked."""
    import threading
    import tqdm
    tqdm.tqdm.monitor_interval = 0
    tqdm.tqdm.set_lock(threading.RLock())


def run_scenario(arg):
    isolate_tqdm_lock()
    try:
        return _run_scenario(arg)
    except Exception:  # noqa: BLE001
        import traceback
        return worker_failed('scenario', arg, traceback.format_exc())


def _run_scenario(arg):
    seed, idx, tier = arg
    from .. import common
    common.use_rebuilt_chunker()
    C.no_backoff_sleep()
    quick = tier == 'quick'
    with R.Scratch(f'c03_{idx}') as sc:
        s = Scenario(seed, idx, tier, sc)
        s.build()
        s.res['summary'] = s.summary
        try:
            s.part_a(2 if quick else 4)
            s.part_b(14 if quick else None, 3 if quick else None)
            s.part_e(6 if quick else 24, 1 if quick else 6)
            s.part_c(10 if quick else 40)
        except C.Hang:
            pass         # recorded as a violation; the worker's state (parked threads of the real code) is not reusable for this scenario
        return s.res


# ---------------------------------------------------------------------------- (d) the local upload itself
def die_after_temp_creation():
    """(child only) the process dies right after the real upload has created its temporary file — hooked where the file is created
    (`tempfile.NamedTemporaryFile` / `mkstemp`, also under the names replicat.backends.local imported them by), not at a private
    helper of `Local`, so renaming / inlining / splitting that helper does not matter"""
    import tempfile
    import replicat.backends.local as LM

    def dying(f):
        def g(*a, **kw):
            f(*a, **kw)
            os._exit(17)
        return g
    for nm in ('NamedTemporaryFile', 'mkstemp'):
        orig = getattr(tempfile, nm)
        for holder in (tempfile, LM):
            for attr, val in list(vars(holder).items()):
                if val is orig:
                    setattr(holder, attr, dying(orig))


def run_localfs(arg):
    isolate_tqdm_lock()
    try:
        return _run_localfs(arg)
    except Exception:  # noqa: BLE001
        import traceback
        return worker_failed('localfs', arg, traceback.format_exc())


def worker_failed(kind, arg, tb):
    """an exception inside one generated case must not take the whole check down (exit 2): it is reported as a tie that could not be
    established for that case (exit 1, `no-failing-input-found` unless another case yields a concrete input)"""
    seed, idx, tier = arg
    return {'idx': idx, 'model': [], 'violations': [], 'cases': [], 'dist': ['worker-exception:' + kind],
            'notes': [(f'{kind} case {idx}: the harness could not run this case on the tree under test: ' + tb.strip().splitlines()[-1][:200],
                       {'kind': kind, 'idx': idx, 'tier': tier, 'traceback': tb[-1500:]})]}


def _run_localfs(arg):
    seed, idx, tier = arg
    from .. import common
    common.use_rebuilt_chunker()
    C.no_backoff_sleep()
    r = rng_for(seed, 'C03-localfs', idx)
    out = {'idx': idx, 'model': [], 'violations': [], 'cases': [], 'dist': [], 'notes': []}
    Local = C.local_cls()
    with R.Scratch(f'c03fs_{idx}') as sc:
        name = r.choice(['data/ab/cd/' + 'e' * 20, 'snapshots/0f/' + 'a' * 24, 'config', 'data/ab/cd/other'])
        before = {'data/ab/cd/keep': b'k' * 9, 'snapshots/11/zz': b'snap'}
        if r.random() < 0.5:
            before[name] = r.randbytes(r.choice([1, 50, 700]))          # an existing destination: replaced atomically or not at all
        if r.random() < 0.4:
            before[os.path.dirname(name) + ('/' if os.path.dirname(name) else '') + 'stale_x1.tmp'] = b'left by an earlier crash'
        size = r.choice([0, 1, 2, 33, 1000, 4097] + ([300_000] if r.random() < 0.15 else []))
        data = r.randbytes(size)
        method = r.choice(['upload', 'upload_stream'])
        mode = r.choice(C.PHASES + ['complete', 'failed-once', 'failed-for-good'])
        root = sc.dir('fs')
        C.materialize(before, root)
        half = len(data) // 2
        rp = {'kind': 'localfs', 'idx': idx, 'tier': tier}

        def do_upload(be):
            if method == 'upload':
                be.upload(name, data)
            else:
                import io
                be.upload_stream(name, io.BytesIO(data), len(data))
        files0 = [[p, b.hex()] for p, b in sorted(before.items())]
        dirn = os.path.dirname(name)
        chain = []
        if mode in C.PHASES or mode == 'complete':
            def fn():
                C.install_upload_hooks()
                if mode != 'complete':
                    C._Armed.on, C._Armed.phase = True, mode
                    L = Local(str(root))
                    if mode == 'temp-created':
                        die_after_temp_creation()
                    do_upload(L)
                else:
                    do_upload(Local(str(root)))
            status = C.run_child(fn)
            want = 0 if mode == 'complete' else 17
            if mode in C.PHASES and status == 0:
                # the upload completed without passing the instrumented call of this phase (the tree under test creates / fills /
                # renames its temporary through other library calls than the hooked ones): the phase cannot be hit, nothing to compare
                out['dist'].append('d:phase-not-reached')
                return out
            if status != want:
                out['notes'].append((f'localfs child ended with status {status}, expected {want}', rp))
                return out
            kmap = {'temp-created': 2, 'half-written': 3, 'fully-written': 4, 'renamed': 5, 'complete': 5}
            chain.append({'k': kmap[mode], 'cleanup': False})
        else:
            # failed attempts inside the process: the write raises OSError after half of the bytes
            import pathlib
            import replicat.backends.local as L
            fails = {'n': 1 if mode == 'failed-once' else 99}
            ow, osh = pathlib.Path.write_bytes, L.shutil

            def wb(self, d):
                if fails['n'] > 0 and str(self).endswith('.tmp'):
                    fails['n'] -= 1
                    with open(self, 'wb') as fh:
                        fh.write(bytes(d[:len(d) // 2]))
                    raise OSError('injected')
                return ow(self, d)

            class Shim:
                def __getattr__(self, n):
                    return getattr(osh, n)

                @staticmethod
                def copyfileobj(src, dst, length=0):
                    if fails['n'] > 0:
                        fails['n'] -= 1
                        d = src.read()
                        dst.write(d[:len(d) // 2])
                        raise OSError('injected')
                    return osh.copyfileobj(src, dst, length)
            pathlib.Path.write_bytes, L.shutil = wb, Shim()
            err = None
            try:
                do_upload(Local(str(root)))
            except OSError:
                err = 'os_error'
            finally:
                pathlib.Path.write_bytes, L.shutil = ow, osh
            attempts = 1 if mode == 'failed-once' else 5
            chain += [{'k': 3, 'cleanup': True}] * attempts
            if mode == 'failed-once':
                chain.append({'k': 5, 'cleanup': False})
            if (err is None) != (mode == 'failed-once'):
                out['violations'].append(('local:retry-outcome', f'{method} with {attempts} failing write(s): outcome {err}', rp))
        raw = C.raw_files(root)
        temps = [p for p in raw if p.endswith('.tmp') and p not in before]
        be = Local(str(root))
        listing = sorted(be.list_files(''))
        ex = be.exists(name)
        try:
            dl = be.download(name).hex()
        except FileNotFoundError:
            dl = None
        tmpname = temps[0] if temps else (name + '_zz.tmp')
        impl = {'files': [[p, b.hex()] for p, b in sorted(raw.items())], 'listing': listing, 'exists': ex, 'download': dl}
        out['model'].append(({'op': 'localfs.upload', 'files': files0, 'dir': dirn, 'name': name, 'tmp': tmpname,
                              'pieces': [data[:half].hex(), data[half:].hex()], 'chain': chain}, impl, 'localfs', rp))
        # direct oracle: old or new, never anything else; no temporary listed
        old = before.get(name)
        if dl is not None and bytes.fromhex(dl) not in ([old] if old is not None else []) + [data]:
            out['violations'].append(('local:partial-object-visible', f'{method} killed at {mode}: download({name}) returns {len(bytes.fromhex(dl))} bytes that are neither the old nor the new object', rp))
        if dl is None and old is not None:
            out['violations'].append(('local:object-lost', f'{method} killed at {mode}: the existing object disappeared', rp))
        if any(p.endswith('.tmp') for p in listing):
            out['violations'].append(('local:temporary-listed', f'{method} at {mode}: a temporary is listed', rp))
        if mode in ('failed-once', 'failed-for-good', 'complete') and temps:
            out['violations'].append(('local:temporary-left-behind', f'{method} {mode}: temporaries remain: {temps[:2]}', rp))
        out['cases'].append(({'part': 'localfs', 'method': method, 'mode': mode, 'size': size, 'existing': old is not None, 'name': name.split('/')[0]},
                             mode not in ('complete',) and size > 1))
        out['dist'] += ['d:' + mode, 'd:' + method, 'd:size:' + ('0' if size == 0 else '<=2' if size <= 2 else 'small' if size < 100000 else 'multi-chunk')]
    return out


# ---------------------------------------------------------------------------- (f) two concurrent uploads of ONE object
DUEL_SLICES = 4


def duel_case(seed, idx):
    """one 'duel' case: a small directory, ONE object name, two real uploads of it (the same payload — an unencrypted chunk that
    repeats in the stream — or two different payloads — two ciphertexts of one chunk, two writers of `config`)"""
    r = rng_for(seed, 'C03-duel', idx)
    name = r.choice(['data/ab/cd/' + 'e' * 20, 'data/ab/cd/' + 'e' * 20, 'snapshots/0f/' + 'a' * 24, 'config', 'data/ab/cd/other'])
    dirn = os.path.dirname(name)
    before = {'data/ab/cd/keep': b'k' * 9, 'snapshots/11/zz': b'snap'}
    if r.random() < 0.4:
        before[name] = r.randbytes(r.choice([1, 50, 700]))
    if r.random() < 0.4:
        # what an earlier killed upload of THIS name may have left, under every naming scheme a temporary could follow
        for stale in r.sample([name + '.tmp', name + '_x1.tmp', (dirn + '/' if dirn else '') + 'stale_x1.tmp'], r.choice([1, 2])):
            before[stale] = b'left by an earlier crash'
    regime = r.choice(['small', 'small', 'small', 'direct'])
    if regime == 'small':
        size, piece = r.choice([1, 2, 33, 1000, 3000]), 128_000
    else:
        size, piece = r.choice([24_000, 30_001]), 10_000          # every piece goes straight to the file (larger than the io buffer)
    d0 = r.randbytes(size)
    payloads = r.choice(['same', 'same', 'different', 'different-length'])
    d1 = d0 if payloads == 'same' else r.randbytes(size if payloads == 'different' else max(1, size - r.choice([1, size // 2])))
    methods = r.choice([('upload_stream', 'upload_stream'), ('upload_stream', 'upload_stream'), ('upload', 'upload'), ('upload', 'upload_stream')])
    return {'name': name, 'dir': dirn, 'before': before, 'regime': regime, 'piece': piece, 'data': [d0, d1], 'payloads': payloads,
            'methods': list(methods), 'one_object': r.random() < 0.7}


def duel_schedules(n0, n1, tier, r):
    """bounded pre-emption: worker 0 runs i operations, worker 1 runs j, worker 0 runs k more [thorough: worker 1 runs l more];
    then the process is killed, or everybody runs to the end, or one worker's operations fail (once / for good).
    → [(segments, ending)]"""
    out = []
    quick = tier == 'quick'
    for i in range(n0 + 1):
        for j in range(n1 + 1):
            ks = range(n0 - i + 1) if j else [0]
            for k in ks:
                seg = [(0, i), (1, j), (0, k)]
                out.append((seg, ['kill']))
                if k == n0 - i:
                    # worker 0 has returned (or never started: i = n0 … k = 0); worker 1, wherever it is, fails for good
                    out.append((seg, ['fault', 1, None, False, 1]))
                    if not quick or (i + j) % 2 == 0:
                        out.append((seg, ['fault', 1, ['write', 'close'], False, 1]))
                if k == 0:
                    out.append((seg, ['finish', (i + j) % 2]))
                    if not quick or (i + j) % 3 == 0:
                        out.append((seg, ['fault', i % 2, None, True, (i + j) % 2]))
                    if not quick or (i + j) % 3 == 1:
                        out.append((seg, ['fault', 0, None, False, 0]))
                    if not quick or (i + j) % 3 == 2:
                        out.append((seg, ['fault', 0, ['rename'], True, 1]))
    if tier != 'quick':
        for i in range(n0 + 1):
            for j in range(1, n1 + 1):
                for k in range(1, n0 - i + 1):
                    for l in range(1, n1 - j + 1):
                        out.append(([(0, i), (1, j), (0, k), (1, l)], ['kill']))
        for _ in range(150):
            seg, left = [], [n0, n1]
            while left[0] or left[1]:
                w = r.choice([x for x in (0, 1) if left[x]])
                n = r.randint(1, left[w])
                left[w] -= n
                seg.append((w, n))
                if r.random() < 0.25:
                    break
            out.append((seg, ['kill']))
    return out


def seg_text(log, methods):
    parts, cur = [], None
    for w, pt, fail in log['grants']:
        if cur is None or cur[0] != w:
            cur = [w, []]
            parts.append(cur)
        cur[1].append(pt['k'] + ('!' if fail else ''))
    return ' | '.join(f'worker {w} ({methods[w]}): {" ".join(ks)}' for w, ks in parts) or 'nothing done'


def duel_model_request(case, log, files0):
    """the abstraction: the granted file-system operations as steps of `LocalUpload.lean`; when each worker's operations are a
    prefix of ONE attempt of the model's plan (create tmp; write…; rename tmp → name) the request is the model's two-worker machine
    (`localduel.duel`, the function `concurrent_uploads_atomic` speaks about), otherwise the plain step semantics (`localduel.run`)"""
    from ..impl import c03_duel as D
    steps, exact = D.flushed_pieces(log, case['data'])
    if not exact:
        return None
    failed = any(f for _w, _pt, f in log['grants'])
    cfg, sched, ok = {}, [], not failed
    for w in (0, 1):
        mine = [s for ww, s in steps if ww == w and s[0] != 'mkdir']
        norm = []
        for s in mine:
            if not (norm and s[0] == 'create' and norm[-1] == s):
                norm.append(s)
        tmp = norm[0][1] if norm else case['name'] + '_unused%d.tmp' % w
        written = b''.join(bytes.fromhex(s[2]) for s in norm if s[0] == 'write')
        shape = [['create', tmp]] + [s for s in norm if s[0] == 'write'] + ([['rename', tmp, case['name']]] if norm and norm[-1][0] == 'rename' else [])
        if norm and (norm != shape or any(s[1] != tmp for s in norm) or not case['data'][w].startswith(written)):
            ok = False
        pieces = [s[2] for s in norm if s[0] == 'write']
        rest = case['data'][w][len(written):]
        if rest and not (norm and norm[-1][0] == 'rename'):
            pieces.append(rest.hex())
        cfg[w] = {'dir': case['dir'], 'name': case['name'], 'tmp': tmp, 'pieces': pieces}
    if ok:
        seen_create = set()
        for w, s in steps:
            if s[0] == 'mkdir':
                continue
            if s[0] == 'create':
                if w in seen_create:
                    continue
                seen_create.add(w)
                sched += [w, w]
            else:
                sched.append(w)
        return {'op': 'localduel.duel', 'files': files0, 'c0': cfg[0], 'c1': cfg[1], 'sched': sched, 'name': case['name']}
    return {'op': 'localduel.run', 'files': files0, 'steps': [s for _w, s in steps], 'name': case['name']}


def run_duel(arg):
    seed, idx, tier, sl = arg
    from .. import common
    from ..impl import c03_duel as D
    common.use_rebuilt_chunker()
    C.no_backoff_sleep()
    out = {'idx': idx, 'model': [], 'violations': [], 'cases': [], 'dist': [], 'notes': []}
    case = duel_case(seed, idx)
    r = rng_for(seed, 'C03-duel-sched', idx)
    Local = C.local_cls()
    name, before, data, methods = case['name'], case['before'], case['data'], case['methods']
    files0 = [[p, b.hex()] for p, b in sorted(before.items())]
    old = before.get(name)
    base_rp = {'kind': 'duel', 'idx': idx, 'slice': sl, 'tier': tier}
    summary = {'part': 'duel', 'methods': '+'.join(methods), 'regime': case['regime'], 'payloads': case['payloads'], 'existing': old is not None,
               'one_object': case['one_object'], 'name': name.split('/')[0]}
    seen_sig = set()

    def viol(sig, what, rp):
        if sig not in seen_sig:            # one report per signature and case slice: the first (smallest) schedule
            seen_sig.add(sig)
            out['violations'].append((sig, what, rp))

    with R.Scratch(f'c03duel_{idx}_{sl}') as sc:
        d0 = sc.dir('D0')
        C.materialize(before, d0)

        def child(segments, ending):
            root = sc.dir()
            shutil.rmtree(root)
            shutil.copytree(d0, root)
            log = str(root) + '.log'
            spec = dict(case, segments=segments, ending=ending)
            status = C.run_child(lambda: D.child_two_uploads(root, log, spec), timeout=240)
            return root, D.read_duel_log(log), status
        root, lg, status = child([(0, 'all'), (1, 'all')], ['finish', 0])
        shutil.rmtree(root, ignore_errors=True)
        if status != 0:
            out['notes'].append((f'duel probe (two uploads one after the other) ended with status {status}', base_rp))
            return out
        n = [len([1 for w, _pt, _f in lg['grants'] if w == x]) for x in (0, 1)]
        scheds = duel_schedules(n[0], n[1], tier, r)
        if sl == 0:
            out['dist'] += ['f:case:' + summary['methods'], 'f:case:payloads:' + case['payloads'], 'f:case:' + case['regime'],
                            'f:case:' + ('existing-destination' if old is not None else 'new-destination'),
                            'f:case:' + ('one-backend-object' if case['one_object'] else 'two-backend-objects')]
        for si, (segments, ending) in enumerate(scheds):
            if si % DUEL_SLICES != sl:
                continue
            root, lg, status = child(segments, ending)
            rp = dict(base_rp, schedule=si, segments=segments, ending=ending)
            try:
                want = 17 if ending[0] == 'kill' else 0
                if status != want:
                    if status is None or status == 9:
                        viol('local:duel:hang', f'two uploads of {name} ({" + ".join(methods)}), {seg_text(lg, methods)}, then {ending}: the process did not finish', rp)
                    else:
                        out['notes'].append((f'duel child ended with status {status}, expected {want} ({segments}, {ending})', rp))
                    continue
                raw = C.raw_files(root)
                be = Local(str(root))
                listing = sorted(be.list_files(''))
                ex = be.exists(name)
                try:
                    dl = be.download(name)
                except FileNotFoundError:
                    dl = None
                how = f'two uploads of {name} ({len(data[0])} / {len(data[1])} bytes, {"one backend object" if case["one_object"] else "two backend objects"}), ' \
                      f'{seg_text(lg, methods)}, then {"killed" if ending[0] == "kill" else ending}'
                allowed = ([old] if old is not None else []) + data
                if dl is not None and dl not in allowed:
                    viol('local:duel:partial-object-visible', f'{how}: download({name}) returns {len(dl)} bytes that are neither the old object '
                         f'({"none" if old is None else len(old)}) nor one of the uploaded ones', rp)
                if dl is None and old is not None:
                    viol('local:duel:object-lost', f'{how}: the existing object disappeared', rp)
                if ex != (dl is not None) or (name in listing) != ex:
                    viol('local:duel:observers-disagree', f'{how}: exists={ex}, listed={name in listing}, downloadable={dl is not None}', rp)
                if any(p.endswith('.tmp') for p in listing):
                    viol('local:duel:temporary-listed', f'{how}: a temporary is listed: {[p for p in listing if p.endswith(".tmp")][:2]}', rp)
                changed = [p for p, b in before.items() if p != name and not p.endswith('.tmp') and raw.get(p) != b]
                if changed:
                    viol('local:duel:bystander-changed', f'{how}: other objects changed: {changed[:2]}', rp)
                done = lg['done']
                oks = [w for w in (0, 1) if done.get(w) == 'ok']
                if oks and dl not in data:
                    viol('local:duel:successful-upload-not-stored', f'{how}: upload(s) of worker(s) {oks} returned normally but download({name}) gives '
                         f'{"nothing" if dl is None else "%d bytes" % len(dl)}, none of the uploaded objects', rp)
                faulty = any(f for _w, _pt, f in lg['grants'])
                if ending[0] == 'finish' and not faulty:
                    if len(oks) != 2:
                        viol('local:duel:upload-fails', f'{how}: outcome {done} although nothing failed', rp)
                    new_temps = [p for p in raw if p.endswith('.tmp') and p not in before]
                    if new_temps:
                        viol('local:duel:temporary-left-behind', f'{how}: both uploads returned, temporaries remain: {new_temps[:2]}', rp)
                # tie
                if case['regime'] == 'small' or si % 3 == 0:
                    req = duel_model_request(case, lg, files0)
                    if req is not None:
                        impl = {'files': [[p, b.hex()] for p, b in sorted(raw.items())], 'listing': listing, 'exists': ex, 'download': None if dl is None else dl.hex()}
                        out['model'].append((req, impl, 'duel', rp))
                # usable afterwards: the next upload of the name goes through and is what every observer sees
                d3 = b'after' + data[0][:7]
                try:
                    Local(str(root)).upload(name, d3)
                    got = Local(str(root)).download(name)
                except Exception as e:  # noqa: BLE001
                    got = type(e).__name__
                if got != d3:
                    viol('local:duel:unusable-afterwards', f'{how}: a later upload of {name} does not take effect ({got if isinstance(got, str) else "%d bytes" % len(got)})', rp)
                both_inside = all(0 < len([1 for w, _pt, _f in lg['grants'] if w == x]) for x in (0, 1)) and len(done) < 2
                out['cases'].append((dict(summary, ops=[len([1 for w, _pt, _f in lg['grants'] if w == x]) for x in (0, 1)], ending=str(ending)), both_inside or faulty))
                tmps = {pt['p'] for _w, pt, _f in lg['grants'] if pt['k'] in ('create', 'open-w')}
                out['dist'] += ['f:ending:' + ending[0] + (':once' if ending[0] == 'fault' and ending[3] else ''),
                                'f:overlap:' + ('both-uploads-in-flight' if both_inside else 'one-in-flight' if len(done) < 2 else 'none-in-flight')]
                if len(tmps) == 1 and all(len([1 for w, pt, _f in lg['grants'] if w == x and pt['k'] in ('create', 'open-w')]) for x in (0, 1)):
                    out['dist'].append('f:temporaries-shared-by-two-uploads')
            finally:
                shutil.rmtree(root, ignore_errors=True)
                try:
                    os.unlink(str(root) + '.log')
                except OSError:
                    pass
    return out


def localfs_model(drv, req):
    """run the chain of attempts through `localfs.upload` (each attempt starts from the files the previous one left)"""
    files = req['files']
    m = None
    for step in req['chain']:
        m = drv.ask({'op': 'localfs.upload', 'files': files, 'dir': req['dir'], 'name': req['name'], 'tmp': req['tmp'], 'pieces': req['pieces'],
                     'k': step['k'], 'cleanup': step['cleanup']})
        if 'files' not in m:
            return m
        files = m['files']
    return m


def compare_model(kind, req, impl, m):
    bad = []
    if kind == 'localfs':
        if m is None or 'files' not in m:
            return ['driver error: %r' % (m,)]
        for k in ('files', 'listing', 'exists', 'download'):
            if m.get(k, '<absent>') != impl[k]:
                bad.append(f'localfs {k}: model {str(m.get(k, "<absent>"))[:120]} implementation {str(impl[k])[:120]}')
        return bad
    if kind == 'duel':
        if m is None or 'files' not in m:
            return ['driver error: %r' % (m,)]
        for k in ('files', 'listing', 'exists', 'download'):
            if m[k] != impl[k]:
                bad.append(f'{req["op"]} {k}: model {str(m[k])[:120]} implementation {str(impl[k])[:120]}')
        if req['op'] == 'localduel.duel' and req['c0']['tmp'] == req['c1']['tmp'] and m.get('private'):
            bad.append(f'the model takes the temporaries of two uploads in flight to be different paths (Gen.localTempPrivate); both uploads wrote through {req["c0"]["tmp"]}')
        return bad
    if isinstance(m.get('error'), str) and not any(k in m for k in ('store', 'rows', 'files', 'accepts')) and m['error'] not in (
            'corrupted', 'not_available', 'different_key', 'missing'):
        return ['driver error: ' + m['error']]
    need = {'trace': ('store_after_prefix',), 'step': ('store',), 'list': (), 'restore': ()}.get(kind, ())
    missing = [k for k in need if k not in m]
    if missing:
        return [f'model reply to {req.get("op")} has no {missing} (error {m.get("error")!r})']
    if kind == 'trace':
        if not m.get('accepts'):
            bad.append(f'the observed mutation {"trace" if impl["full"] else "prefix"} is not accepted by the model plan: {[(t[0], t[1]) for t in req["trace"]][:6]}')
        if canon_store(m['store_after_prefix']) != impl['store']:
            a, b = set(canon_store(m['store_after_prefix'])), set(impl['store'])
            bad.append(f'state after the prefix differs: only in model {sorted(a - b)[:2]}, only in implementation {sorted(b - a)[:2]}')
    elif kind == 'step':
        if canon_store(m['store']) != impl['store']:
            a, b = set(canon_store(m['store'])), set(impl['store'])
            bad.append(f'object map differs after {req["cmd"]["kind"]}: only in model {sorted(a - b)[:2]}, only in implementation {sorted(b - a)[:2]}')
        if (m['error'] or None) != impl['error']:
            bad.append(f'error kind: model {m["error"]} implementation {impl["error"]}')
    elif kind == 'list':
        if (m.get('error') or None) != impl['error']:
            bad.append(f'list: error model {m.get("error")} implementation {impl["error"]}')
        elif impl['rows'] is not None:
            md = [[x[0], x[2]] for x in m.get('rows') or [] if x[1] is not None]
            mn = sorted(x[0] for x in m.get('rows') or [] if x[1] is None)
            if [md, mn] != impl['rows']:
                bad.append(f'list: rows differ: model {[md, mn]} implementation {impl["rows"]}')
    elif kind == 'restore':
        if (m.get('error') or None) != impl['error']:
            bad.append(f'restore: error model {m.get("error")} implementation {impl["error"]}')
        elif impl['files'] is not None:
            mf = sorted([f[0], f[1]] for f in m.get('files') or [])
            if mf != impl['files']:
                bad.append(f'restore: restored file versions differ: model {mf[:5]} implementation {impl["files"][:5]}')
    return bad


def run(out, drv, info):
    quick = out.tier == 'quick'
    n_scen, n_fs = (40, 200) if quick else (320, 3000)
    n_duel = 4 if quick else 16
    scale = float(os.environ.get('VERIF_C03_SCALE', '1'))          # < 1: a smaller sample of the same stream (smoke runs of the thorough tier on a busy machine)
    n_scen, n_fs, n_duel = max(1, int(n_scen * scale)), max(1, int(n_fs * scale)), max(1, int(n_duel * scale))
    out.rule = ('case = one crash state / fault run / completion order / local-upload phase.  Scenario = real repository (encrypted with owner + clone/shared/independent keys, or '
                'unencrypted; 3 chunkings; concurrency 1/2/4) with 2–3 overlapping snapshots, then snapshot | delete | clean (with orphans).  (b) child on the real Local backend '
                'killed before mutation k (all k in thorough; first 14 + spread in quick) and inside an upload (first / middle / last put) at temp-created, half-written, fully-written, '
                'renamed; (c) a permanent failure at each backend call index (exists/put/get/del); (a) randomised completion orders, concurrency 5; (d) Local.upload / upload_stream killed '
                'at each phase or failing once / for good, with an existing destination and stale temporaries; (e) snapshots of data with a repeating NEW chunk (half of the snapshot '
                'scenarios get zero-filled regions / twin files / block runs), ≥ 2 workers, uploads not serialised: the two worker threads uploading the same object moved one '
                'file-system operation at a time (i, j, k ∈ {0, all}; conflict-directed schedules first; 6 per scenario in quick, 24 in thorough), then killed / worker 1 failing '
                'for good / released; (f) two real uploads of one name under every schedule (i, j, k) + kill, + finish / one failing operation / a worker failing for good '
                '(thorough: also 4-segment and random schedules).  non-trivial = strictly inside the command (not before its first / after its '
                'last mutation), a failed mutating call, ≥ 2 mutations reordered, an upload phase with ≥ 2 bytes, or (e, f) both uploads in flight / an injected failure; '
                'distinct = hash of the case summary')
    out.assumptions = ['PARTIAL: power loss below rename / missing fsync (torn or lost directory entries, data not yet durable) and server-side atomicity of S3/B2 PUT are not modelled',
                       'process death is modelled at backend-call granularity and, for the local backend, at the file-system steps mkdir -p / mktemp / write / rename',
                       'POSIX rename atomicity; ideal cryptography (payload validity is decided by the real verification code)',
                       'mutating backend calls of the killed child are serialised by the instrumentation, so that "the first k mutations completed" is well defined '
                       '(parts a–d; parts e and f do NOT serialise them: two uploads of one object overlap operation by operation)',
                       'two uploads in flight: pre-emption at file-system operations (open / write / close / rename / remove / mkdir as CPython issues them; data smaller than the '
                       'io buffer reaches the file at close); a unique-name generator (NamedTemporaryFile / mkstemp) never returns the path of a temporary that still exists',
                       'the model of two uploads is path based: it does not follow an open descriptor through a rename by the OTHER upload — with private temporaries (what the '
                       'theorem assumes and the extractor checks) no such rename exists']
    isolate_tqdm_lock()
    with mp.get_context('fork').Pool(min(16, os.cpu_count() or 4)) as pool:
        r1 = pool.map_async(run_scenario, [(out.seed, i, out.tier) for i in range(n_scen)], chunksize=1)
        r3 = pool.map_async(run_duel, [(out.seed, i, out.tier, sl) for i in range(n_duel) for sl in range(DUEL_SLICES)], chunksize=1)
        r2 = pool.map_async(run_localfs, [(out.seed, i, out.tier) for i in range(n_fs)], chunksize=4)
        results = r1.get() + r2.get() + r3.get()
    todo = []
    for res in results:
        for summary, nt in res['cases']:
            out.case(summary, nt)
        for d in res['dist']:
            out.count(d)
        if 'summary' in res:
            out.count('scenario:' + res['summary']['cmd'] + (':enc' if res['summary']['enc'] else ':plain'))
        for sig, what, rp in res['violations']:
            out.violation(sig, what, dict(rp, seed=out.seed))
        for what, rp in res['notes']:
            out.disagreement(what, dict(rp, seed=out.seed))
        todo += res['model']
    if drv is not None:
        plain = [(req, impl, kind, rp) for req, impl, kind, rp in todo if kind != 'localfs']
        replies = drv.ask_many([x[0] for x in plain])
        for (req, impl, kind, rp), m in zip(plain, replies):
            bad = compare_model(kind, req, impl, m)
            out.count('tie:' + kind)
            if bad:
                out.disagreement(f'{kind} ({rp.get("part")}): ' + '; '.join(bad[:3]), dict(rp, seed=out.seed, request_digest=digest(req)))
            else:
                out.traces_validated += 1
        for req, impl, kind, rp in todo:
            if kind == 'localfs':
                bad = compare_model(kind, req, impl, localfs_model(drv, req))
                out.count('tie:localfs')
                if bad:
                    out.disagreement('localfs: ' + '; '.join(bad[:3]), dict(rp, seed=out.seed))
                else:
                    out.traces_validated += 1


def replay(path, drv):
    d = json.load(open(path))
    rp = d.get('replay', d)
    fn = {'scenario': run_scenario, 'localfs': run_localfs, 'duel': run_duel}.get(rp.get('kind'))
    if fn is None:
        print('replay kind not supported (proof/tie failure without a concrete input: rebuild and re-run the check)')
        return 2
    args = (rp.get('seed', 0), rp['idx'], rp.get('tier', 'quick')) + ((rp.get('slice', 0),) if rp.get('kind') == 'duel' else ())
    with mp.get_context('fork').Pool(1) as pool:
        res = pool.apply(fn, (args,))
    for v in res['violations']:
        print('violation', v[0], v[1])
    bad = 0
    if drv is not None:
        for req, impl, kind, _ in res['model']:
            m = localfs_model(drv, req) if kind == 'localfs' else drv.ask(req)
            b = compare_model(kind, req, impl, m)
            if b:
                bad += 1
                print('disagreement', kind, b[:2])
    for what, _ in res['notes']:
        print('note', what)
    return 1 if (res['violations'] or bad or res['notes']) else 0
