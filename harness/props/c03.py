"""C03 — interrupted commands leave a consistent, usable repository  (claim labelled PARTIAL: no power-loss / fsync model).

Tie (each scenario = a real repository with a few snapshots by users of related keys, then ONE command: snapshot / delete / clean):
 (a) the command's recorded backend mutation trace — sequential, and under randomised completion orders (a backend whose calls
     finish after random delays, concurrency 5) — must be accepted by the model's plan (`trace.accepts`) and end in the model's state;
 (b) REAL crash states: the repository is materialised as a directory of the real LOCAL backend (`replicat.backends.local.Local`);
     the command runs in a forked child and the child is killed with `os._exit` before its k-th backend mutation, for every k,
     and inside a local upload at {after temp creation, after half the bytes, after the last byte, after rename};
     the directory left behind is read back THROUGH the real backend (list / exists / download), abstracted, and compared with the
     model's `store_after_prefix` for the logged prefix; then the real list-snapshots / restore / snapshot / clean run on it and are
     compared with the model commands on that state (`repo.list`, `repo.restore`, `repo.step`);
 (c) one permanent failure injected at each backend call index (`MemBackend.fault`): observed trace accepted, state = model prefix state;
 (d) `localfs.upload`: the real `Local.upload` / `upload_stream` killed at each phase (and failed attempts that are retried) on
     small directories incl. an existing destination and stale temporaries: raw directory + list/exists/download vs `LocalFS.lean`.
Direct oracles (the property itself): every visible snapshot restores completely and exactly; listings show no `*.tmp`; a failed or
killed snapshot is invisible; list / restore / a new snapshot / clean succeed; after clean the family's chunk objects are exactly the
referenced ones.
"""
import json
import multiprocessing as mp
import os
import shutil

from ..common import rng_for, digest
from ..impl import runner as R
from ..impl import cachekit as K
from ..impl import crashkit as C
from ..impl.history import gen_fileset
from ..impl.world import World, canon_store, FakeDatetime, err_kind


def write_src(w, fileset):
    for rel in list(os.listdir(w.src)):
        p = w.src / rel
        shutil.rmtree(p) if p.is_dir() else p.unlink()
    R.write_tree(w.src, {k: (v, 10 ** 18 + len(v)) for k, v in fileset.items()})


class Scenario:
    def __init__(self, seed, idx, tier, sc):
        self.r = r = rng_for(seed, 'C03', idx)
        self.idx, self.tier, self.sc = idx, tier, sc
        self.enc = r.random() < 0.65
        self.w = w = World(sc, enc=self.enc, chunking=r.choice([(8, 32), (16, 64), (13, 50)]), concurrent=r.choice([1, 2, 4]),
                           cipher=r.choice([None, {'name': 'chacha20_poly1305'}]) if self.enc else None)
        self.mem = w.backend
        if self.enc:
            for kind in r.choice([[], ['shared'], ['independent'], ['clone', 'independent'], ['shared', 'independent']]):
                w.add_user(kind, base=0)
        self.others = {}
        self.res = {'idx': idx, 'violations': [], 'model': [], 'cases': [], 'dist': [], 'notes': []}
        self.blocks = [r.randbytes(r.choice([24, 40, 64, 100, 130])) for _ in range(5)] + [bytes(64)]
        self.inv_contents = {}

    # ------------------------------------------------------------ helpers
    def viol(self, sig, what, rp):
        self.res['violations'].append((sig, what, rp))

    def plain_of(self, cid):
        if len(self.inv_contents) != len(self.w.contents):
            self.inv_contents = {v: k for k, v in self.w.contents.items()}
        return self.inv_contents.get(cid)

    def validate_payloads(self, repo, new_snapshot_sid=None):
        """register byte strings found under known names as valid iff the REAL verification accepts them (chunks: decrypt with
        the key derived from the expected digest and compare; snapshot: digest == name and the body decrypts)"""
        w = self.w
        renamed = None
        for loc, data in w.backend.objects.items():
            if loc in w.chunk_names:
                if data in w.valid_payload.get(loc, ()):
                    continue
                plain = self.plain_of(w.chunk_names[loc][1])
                ok = False
                try:
                    if plain is not None:
                        if w.enc:
                            fam_repo = self.repo_for_fam(w.chunk_names[loc][0]) or repo
                            dg = fam_repo.props.hash_digest(plain)
                            ok = fam_repo.props.decrypt(data, fam_repo.props.derive_shared_subkey(dg)) == plain
                        else:
                            ok = data == plain
                except Exception:  # noqa: BLE001
                    ok = False
                if ok:
                    w.valid_payload.setdefault(loc, set()).add(data)
            elif loc.startswith('snapshots/') and loc not in w.snap_names and new_snapshot_sid is not None:
                try:
                    name = repo.parse_snapshot_location(loc).name
                    body = repo._decrypt_snapshot_body(data)
                    ok = repo.props.hash_digest(data) == bytes.fromhex(name) and body['data'] is not None
                except Exception:  # noqa: BLE001
                    ok = False
                if ok:
                    d = w.snap_by_sid[new_snapshot_sid]
                    w.snap_names[loc] = (d['fam'], new_snapshot_sid)
                    w.valid_payload.setdefault(loc, set()).add(data)
                    renamed = (d['name'], d['location'])
                    d['name'], d['location'] = name, loc
        return renamed

    def repo_for_fam(self, fam):
        cache = self.__dict__.setdefault('_fam_repos', {})
        if fam not in cache:
            cache[fam] = None
            for i, u in enumerate(self.w.users):
                if u.fam == fam:
                    cache[fam] = K.repo_on(self.w, i, self.mem)
                    break
        return cache[fam]

    def mut_json(self, kind, loc, sid_hint=None):
        w = self.w
        n = w.abstract_name(loc)
        if n is None and sid_hint is not None and loc.startswith('snapshots/'):
            n = ['snap', w.snap_by_sid[sid_hint]['fam'], sid_hint]
        if n is None:
            n = ['other', 0]
        if kind == 'del':
            return ['del', n]
        if n[0] == 'chunk':
            return ['put', n, ['chunk', n[1], n[2]]]
        if n[0] == 'snap':
            return ['put', n, ['snap', n[1], n[2], w.snap_by_sid[n[2]]['body']]]
        return ['put', n, ['blob', 0]]

    def dedup(self, muts):
        seen, out = set(), []
        for m in muts:
            k = json.dumps(m[:2])
            if k not in seen:
                seen.add(k)
                out.append(m)
        return out

    def rows_model(self, rows):
        name2sid = {d['name']: s for s, d in self.w.snap_by_sid.items()}
        with_data, without = [], []
        for row in rows:
            sid = name2sid.get(row[0], -1)
            (without if row[2] == '--' else with_data).append(sid if row[2] == '--' else [sid, int(row[3])])
        return [with_data, sorted(without)]

    # ------------------------------------------------------------ build + reference run
    def build(self):
        r, w = self.r, self.w
        prev = None
        for _ in range(r.choice([2, 2, 3])):
            fs = gen_fileset(r, self.blocks, prev)
            w.snapshot(r.randrange(len(w.users)), fs)
            prev = fs
        self.kind = r.choice(['snapshot', 'snapshot', 'snapshot', 'delete', 'delete', 'clean'])
        self.ui = r.randrange(len(w.users))
        u = w.users[self.ui]
        own = [s for s, d in w.snap_by_sid.items() if d['owner'] == u.keyid and d['fam'] == u.fam]
        if self.kind == 'delete' and not own:
            self.kind = 'snapshot'
        if self.kind == 'clean':
            # orphans: what an interrupted snapshot leaves (its snapshot object never arrived)
            snap = w.snapshot(self.ui, gen_fileset(r, self.blocks, None))
            del w.backend.objects[w.snap_by_sid[snap['sid']]['location']]
        self.objects0 = dict(w.backend.objects)
        self.store0 = w.abstract_store(self.others)
        self.snaps0 = sorted(loc for loc in self.objects0 if loc.startswith('snapshots/'))
        self.fileset = None
        self.new_sid = None
        if self.kind == 'snapshot':
            self.fileset = gen_fileset(r, self.blocks, prev) or {'a': r.randbytes(70)}
            if not any(self.fileset.values()):
                self.fileset['a'] = r.randbytes(70)
            res = w.snapshot(self.ui, self.fileset)
            self.op, self.new_sid = res['op'], res['sid']
            ref_trace = res['trace']
            self.ref_err = None
        elif self.kind == 'delete':
            self.sids = r.sample(own, r.choice([1, 1, 2]) if len(own) > 1 else 1)
            self.names = [w.snap_by_sid[s]['name'] for s in self.sids]
            res = w.delete(self.ui, self.sids)
            self.op, ref_trace, self.ref_err = res['op'], res['trace'], res['error']
        else:
            res = w.clean(self.ui)
            self.op, ref_trace, self.ref_err = res['op'], res['trace'], res['error']
        self.ref_now = FakeDatetime._now
        self.ref_clock = w.clock
        self.ref_muts = [(t[0], t[1]) for t in ref_trace if t[0] in ('put', 'del')]
        self.ref_calls = len([t for t in ref_trace if t[0] in ('put', 'del', 'exists', 'get')])
        self.store_ref = w.abstract_store(self.others)
        rp = {'kind': 'scenario', 'idx': self.idx, 'tier': self.tier, 'part': 'reference'}
        muts = self.dedup([self.mut_json(k, n) for k, n in self.ref_muts])
        self.res['model'].append(({'op': 'repo.step', 'enc': self.enc, 'store': self.store0, 'cmd': self.op},
                                  {'store': canon_store(self.store_ref), 'error': self.ref_err}, 'step', rp))
        if self.ref_err is None:
            self.res['model'].append(({'op': 'trace.accepts', 'enc': self.enc, 'store': self.store0, 'cmd': self.op, 'trace': muts},
                                      {'store': canon_store(self.store_ref), 'full': True}, 'trace', rp))
        self.summary = {'cmd': self.kind, 'enc': self.enc, 'users': [x.kind for x in w.users], 'user': u.kind, 'mutations': len(self.ref_muts),
                        'concurrent': w.concurrent}

    def run_command(self, repo):
        """the command under test on `repo` (raises what the command raises)"""
        if self.kind == 'snapshot':
            write_src(self.w, self.fileset)
            return R.snapshot(repo, [self.w.src])
        with R.quiet():
            if self.kind == 'delete':
                return R.run(repo.delete_snapshots(list(self.names), confirm=False))
            return R.run(repo.clean())

    def reset_world_snapshot_identity(self, saved):
        if saved is not None:
            d = self.w.snap_by_sid[self.new_sid]
            d['name'], d['location'] = saved

    # ------------------------------------------------------------ (a) randomised completion orders
    def part_a(self, n_orders):
        w, r = self.w, self.r
        import asyncio

        class Jitter(R.AsyncMemBackend):
            async def _nap(self):
                await asyncio.sleep(self.rng.random() * 0.004)

            async def upload(self, name, data):
                await self._nap()
                return R.MemBackend.upload(self, name, data)

            async def upload_stream(self, name, stream, length, chunk_size=128_000):
                await self._nap()
                return R.MemBackend.upload_stream(self, name, stream, length, chunk_size)

            async def delete(self, name):
                await self._nap()
                return R.MemBackend.delete(self, name)

            async def exists(self, name):
                await self._nap()
                return R.MemBackend.exists(self, name)
        for j in range(n_orders):
            be = Jitter(dict(self.objects0))
            be.rng = rng_for(self.r.random(), 'jitter', j)
            w.backend = be
            w.concurrent, keep = 5, w.concurrent
            FakeDatetime._now = self.ref_now
            err = None
            # a failed call, unlike a kill, leaves the client process alive: in half of the cases the SAME Repository object
            # (a service / library user) issues the follow-up commands, otherwise a fresh one (the CLI)
            same_object = r.random() < 0.5
            if same_object:
                import asyncio
                R.PERSISTENT_LOOP = asyncio.new_event_loop()
            rep = None
            try:
                with C.time_limit(25):
                    rep = K.repo_on(w, self.ui, be)
                    if same_object:
                        K.keep(rep)
                    self.run_command(rep)
            except C.Hang:
                self.viol('order:command-hangs', f'{self.kind} under a randomised completion order did not return within 25 s', {'kind': 'scenario', 'idx': self.idx, 'tier': self.tier, 'part': 'order'})
                raise
            except Exception as e:  # noqa: BLE001
                err = err_kind(e)
            K.settle()
            w.concurrent = keep
            saved = self.validate_payloads(w.repo(self.ui), self.new_sid)
            muts = self.dedup([self.mut_json(k, n, self.new_sid) for k, n in [(t[0], t[1]) for t in be.mutations()]])
            st = w.abstract_store(self.others)
            rp = {'kind': 'scenario', 'idx': self.idx, 'tier': self.tier, 'part': 'order', 'j': j}
            if err != self.ref_err:
                self.res['notes'].append((f'under a randomised completion order the command ended with {err}, sequentially with {self.ref_err}', rp))
            elif err is None:
                self.res['model'].append(({'op': 'trace.accepts', 'enc': self.enc, 'store': self.store0, 'cmd': self.op, 'trace': muts},
                                          {'store': canon_store(st), 'full': True}, 'trace', rp))
            order = [m[1][0][0] + ('' if m[0] == 'put' else '-') for m in muts]
            self.res['cases'].append((dict(self.summary, part='completion-order', order=digest(order)), len(muts) >= 2))
            self.res['dist'].append('a:completion-order')
            self.reset_world_snapshot_identity(saved)
        w.backend = self.mem

    # ------------------------------------------------------------ (b) real crash states on the local backend
    def child(self, root, log, k, phase):
        def fn():
            C.install_upload_hooks()
            be = C.make_crash_backend(root, log, k, phase)
            FakeDatetime._now = self.ref_now
            repo = K.repo_on(self.w, self.ui, be)
            self.run_command(repo)
        return fn

    def examine(self, root, log, k, phase, status):
        w, r = self.w, self.r
        done, armed = C.read_log(log)
        prefix = list(done) + ([armed] if (phase == 'renamed' and armed is not None) else [])
        label = 'before-mutation-%d' % k if phase is None else '%s@%d' % (phase, k)
        rp = {'kind': 'scenario', 'idx': self.idx, 'tier': self.tier, 'part': 'crash', 'k': k, 'phase': phase}
        be = C.make_dir_backend(root)
        w.backend = be
        w.clock = self.ref_clock + 10
        saved = None
        try:
            listing = be.real_list('')
            if any(n.endswith('.tmp') for n in listing):
                self.viol('crash:temporary-listed', f'{self.kind} killed at {label}: the listing of the directory left behind shows a temporary: '
                          f'{[n for n in listing if n.endswith(".tmp")][:2]}', rp)
            raw = C.raw_files(root)
            temps = sorted(p for p in raw if p.endswith('.tmp'))
            saved = self.validate_payloads(w.repo(self.ui), self.new_sid)
            st = w.abstract_store(self.others)
            bad_objs = [e[0] for e in st if e[1] == ['blob', 0]]
            if bad_objs:
                self.viol('crash:partial-object-visible', f'{self.kind} killed at {label}: objects that fail verification are visible under final names: {bad_objs[:3]}', rp)
            muts = self.dedup([self.mut_json(kd, n, self.new_sid) for kd, n in prefix])
            self.res['model'].append(({'op': 'trace.accepts', 'enc': self.enc, 'store': self.store0, 'cmd': self.op, 'trace': muts},
                                      {'store': canon_store(st), 'full': False}, 'trace', rp))
            base = {'enc': self.enc, 'store': st, 'user': w.model_user(self.ui)}
            # --- the property itself: every visible snapshot restores completely
            visible = [s for s, d in w.snap_by_sid.items() if d['location'] in listing]
            new_visible = [loc for loc in listing if loc.startswith('snapshots/') and loc not in self.snaps0]
            if self.kind == 'snapshot' and new_visible and not (status == 0 or (phase == 'renamed' and armed and armed[1] in new_visible)):
                self.viol('crash:snapshot-visible-before-complete', f'snapshot killed at {label} but a new snapshot object is visible: {new_visible[:1]}', rp)
            for s in visible:
                d = w.snap_by_sid[s]
                owner = next(i for i, uu in enumerate(w.users) if uu.keyid == d['owner'] and uu.fam == d['fam'])
                err, tree = w.restore(owner, snapshot_regex='^' + d['name'] + '$')
                if err is not None or tree != d['truth']:
                    self.viol('crash:visible-snapshot-incomplete', f'{self.kind} killed at {label}: visible snapshot #{s} does not restore completely ({err or "content differs"})', rp)
            # --- usable: list, restore-all, new snapshot, clean — compared with the model on the crashed state
            err, rows = K.run_list(w.repo(self.ui), None)
            if err is not None:
                self.viol('crash:list-fails', f'{self.kind} killed at {label}: list-snapshots fails afterwards ({err})', rp)
            self.res['model'].append((dict(base, op='repo.list'), {'error': err, 'rows': None if rows is None else self.rows_model(rows)}, 'list', rp))
            err, tree, _files = K.run_restore(w.repo(self.ui), self.sc, None, None)
            if err is not None:
                self.viol('crash:restore-fails', f'{self.kind} killed at {label}: restore fails afterwards ({err})', rp)
            files = None if tree is None else sorted([w.pid(p), w.ver(b)] for p, b in tree.items())
            self.res['model'].append((dict(base, op='repo.restore'), {'error': err, 'files': files}, 'restore', rp))
            try:
                fs2 = {'z': r.randbytes(90), 'a': self.blocks[0]}
                snap2 = w.snapshot(self.ui, fs2, repo=w.repo(self.ui))
                st2 = w.abstract_store(self.others)
                self.res['model'].append(({'op': 'repo.step', 'enc': self.enc, 'store': st, 'cmd': snap2['op']},
                                          {'store': canon_store(st2), 'error': None}, 'step', rp))
                e2, t2 = w.restore(self.ui, snapshot_regex='^' + snap2['name'] + '$')
                if e2 is not None or t2 != w.snap_by_sid[snap2['sid']]['truth']:
                    self.viol('crash:new-snapshot-broken', f'{self.kind} killed at {label}: a snapshot taken afterwards does not restore ({e2})', rp)
            except Exception as e:  # noqa: BLE001
                self.viol('crash:snapshot-fails', f'{self.kind} killed at {label}: a new snapshot fails afterwards ({err_kind(e)})', rp)
                st2 = w.abstract_store(self.others)
            cres = w.clean(self.ui)
            if cres['error'] is not None:
                self.viol('crash:clean-fails', f'{self.kind} killed at {label}: clean fails afterwards ({cres["error"]})', rp)
            st3 = w.abstract_store(self.others)
            self.res['model'].append(({'op': 'repo.step', 'enc': self.enc, 'store': st2, 'cmd': cres['op']},
                                      {'store': canon_store(st3), 'error': cres['error']}, 'step', rp))
            fam = w.users[self.ui].fam
            listing3 = be.real_list('')
            refs = set()
            for s, d in w.snap_by_sid.items():
                if d['location'] in listing3 and d['fam'] == fam:
                    refs.update(d['body']['chunks'])
            objs = {w.chunk_names[loc][1] for loc in listing3 if loc in w.chunk_names and w.chunk_names[loc][0] == fam}
            if objs - refs:
                self.viol('crash:clean-leaves-unreferenced', f'{self.kind} killed at {label}, then clean: {len(objs - refs)} unreferenced chunk(s) of the family remain', rp)
            if refs - objs:
                self.viol('crash:clean-removed-referenced', f'{self.kind} killed at {label}, then clean: {len(refs - objs)} referenced chunk(s) are missing', rp)
            inside = phase is not None or (0 < len(prefix) and status != 0)
            self.res['cases'].append((dict(self.summary, part='crash', point=label, prefix=len(prefix), temps=len(temps)), bool(inside)))
            self.res['dist'] += ['b:crash:' + self.kind, 'b:point:' + ('between' if phase is None else phase), 'b:temps-left:%d' % min(len(temps), 2)]
        finally:
            self.reset_world_snapshot_identity(saved)
            w.backend = self.mem

    def part_b(self, max_points, phase_points):
        d0 = self.sc.dir('D0')
        C.materialize(self.objects0, d0)
        n_total = None
        ks = []
        k = 0
        full_log = None
        while True:
            root = self.sc.dir()
            shutil.rmtree(root)
            shutil.copytree(d0, root)
            log = str(root) + '.log'
            K.settle()
            status = C.run_child(self.child(root, log, k, None))
            if status not in (0, 17):
                self.res['notes'].append((f'child process for crash point {k} ended with status {status}', {'kind': 'scenario', 'idx': self.idx, 'tier': self.tier, 'part': 'crash', 'k': k}))
                break
            self.examine(root, log, k, None, status)
            shutil.rmtree(root, ignore_errors=True)
            if status == 0:
                n_total = k
                full_log = C.read_log(log)[0]
                break
            ks.append(k)
            # all points when few, otherwise a spread
            k += 1 if (max_points is None or k < max_points) else max(1, (len(self.ref_muts) - k) // 3)
            if k > len(self.ref_muts) + 40:
                break
        if full_log is None:
            return
        puts = [i for i, (kd, _n) in enumerate(full_log) if kd == 'put']
        chosen = puts if phase_points is None else sorted(set(([puts[0], puts[len(puts) // 2], puts[-1]] if puts else [])[:phase_points]))
        for k in chosen:
            for phase in C.PHASES:
                root = self.sc.dir()
                shutil.rmtree(root)
                shutil.copytree(d0, root)
                log = str(root) + '.log'
                K.settle()
                status = C.run_child(self.child(root, log, k, phase))
                if status != 17:
                    # the order of mutations can differ from run to run: mutation k may be a delete this time
                    self.res['dist'].append('b:phase-not-reached')
                    shutil.rmtree(root, ignore_errors=True)
                    continue
                self.examine(root, log, k, phase, status)
                shutil.rmtree(root, ignore_errors=True)

    # ------------------------------------------------------------ (c) one permanent failure per backend call
    def part_c(self, max_calls):
        w, r = self.w, self.r
        idxs = list(range(self.ref_calls))
        if max_calls is not None and len(idxs) > max_calls:
            idxs = sorted(r.sample(idxs, max_calls))
        for i in idxs:
            be = type(self.mem)(dict(self.objects0))
            state = {'n': 0, 'failed': None}

            def fault(op, name, state=state, i=i):
                n = state['n']
                state['n'] += 1
                if n == i:
                    state['failed'] = (op, name)
                    return RuntimeError('injected permanent failure')
                return None
            be.fault = fault
            w.backend = be
            FakeDatetime._now = self.ref_now
            err = None
            # a failed call, unlike a kill, leaves the client process alive: in half of the cases the SAME Repository object
            # (a service / library user) issues the follow-up commands, otherwise a fresh one (the CLI)
            same_object = r.random() < 0.5
            if same_object:
                import asyncio
                R.PERSISTENT_LOOP = asyncio.new_event_loop()
            rep = None
            try:
                with C.time_limit(25):
                    rep = K.repo_on(w, self.ui, be)
                    if same_object:
                        K.keep(rep)
                    self.run_command(rep)
            except C.Hang:
                self.viol('fault:command-hangs', f'{self.kind} with a permanently failing {state["failed"]} (call #{i}) did not return within 25 s: a failed call must end the command with an error',
                          {'kind': 'scenario', 'idx': self.idx, 'tier': self.tier, 'part': 'fault', 'call': i})
                del K._KEPT[:]
                R.PERSISTENT_LOOP = None
                raise
            except Exception as e:  # noqa: BLE001
                err = type(e).__name__
            K.settle()
            be.fault = None
            rp = {'kind': 'scenario', 'idx': self.idx, 'tier': self.tier, 'part': 'fault', 'call': i}
            saved = None
            try:
                failed = state['failed']
                if failed is None:
                    self.res['dist'].append('c:index-not-reached')
                    continue
                saved = self.validate_payloads(w.repo(self.ui), self.new_sid)
                st = w.abstract_store(self.others)
                muts = self.dedup([self.mut_json(kd, n, self.new_sid) for kd, n in [(t[0], t[1]) for t in be.mutations()]])
                self.res['model'].append(({'op': 'trace.accepts', 'enc': self.enc, 'store': self.store0, 'cmd': self.op, 'trace': muts},
                                          {'store': canon_store(st), 'full': False}, 'trace', rp))
                label = f'{failed[0]} call #{i}'
                if err is None:
                    self.res['notes'].append((f'{self.kind}: a permanently failing {label} did not make the command fail', rp))
                snaps_now = sorted(loc for loc in be.objects if loc.startswith('snapshots/'))
                if self.kind == 'snapshot' and snaps_now != self.snaps0:
                    self.viol('fault:failed-snapshot-visible', f'snapshot with a permanently failing {label} left a new snapshot object visible', rp)
                if self.kind == 'delete' and failed[0] == 'del' and failed[1].startswith('snapshots/'):
                    gone = [loc for loc in self.objects0 if loc.startswith('data/') and loc not in be.objects]
                    if gone:
                        self.viol('fault:chunks-deleted-after-failed-snapshot-delete', f'delete: a snapshot delete failed for good but {len(gone)} chunk(s) were removed', rp)
                for s, d in w.snap_by_sid.items():
                    if d['location'] in be.objects:
                        owner = next(j for j, uu in enumerate(w.users) if uu.keyid == d['owner'] and uu.fam == d['fam'])
                        e2, tree = w.restore(owner, snapshot_regex='^' + d['name'] + '$')
                        if e2 is not None or tree != d['truth']:
                            self.viol('fault:visible-snapshot-incomplete', f'{self.kind} with a permanently failing {label}: visible snapshot #{s} does not restore completely ({e2 or "content differs"})', rp)
                cres = w.clean(self.ui)
                if cres['error'] is not None:
                    self.viol('fault:clean-fails', f'{self.kind} with a permanently failing {label}: clean fails afterwards ({cres["error"]})', rp)
                st3 = w.abstract_store(self.others)
                self.res['model'].append(({'op': 'repo.step', 'enc': self.enc, 'store': st, 'cmd': cres['op']},
                                          {'store': canon_store(st3), 'error': cres['error']}, 'step', rp))
                # "the repository stays fully usable": the command is issued again (now every call succeeds) and must do its job
                who = 'the same Repository object' if same_object else 'a fresh Repository object'
                if rep is None:
                    same_object, who = False, 'a fresh Repository object'
                    K.close_persistent_loop()
                rep2 = rep if same_object else w.repo(self.ui)
                sid0, names0 = w.next_sid, dict(w.snap_names)
                try:
                    if self.kind == 'snapshot':
                        try:
                            snap_r = w.snapshot(self.ui, self.fileset, repo=rep2)
                        except Exception as e:  # noqa: BLE001
                            self.viol('fault:retry-fails', f'snapshot issued again through {who} after a permanently failing {label} fails: {type(e).__name__}: {str(e)[:80]}', rp)
                        else:
                            d = w.snap_by_sid[snap_r['sid']]
                            e3, tree3 = w.restore(self.ui, snapshot_regex='^' + d['name'] + '$')
                            if e3 is not None or tree3 != d['truth']:
                                self.viol('fault:retried-snapshot-incomplete', f'snapshot issued again through {who} after a permanently failing {label} is visible but does not restore '
                                          f'completely ({e3 or "content differs"})', rp)
                    else:
                        try:
                            self.run_command(rep2)
                        except Exception as e:  # noqa: BLE001
                            if not (self.kind == 'delete' and type(e).__name__ == 'ReplicatError'):      # the failed delete may already have removed the snapshots it names
                                self.viol('fault:retry-fails', f'{self.kind} issued again through {who} after a permanently failing {label} fails: {type(e).__name__}: {str(e)[:80]}', rp)
                        for s2, d in w.snap_by_sid.items():
                            if d['location'] in be.objects:
                                owner = next(j for j, uu in enumerate(w.users) if uu.keyid == d['owner'] and uu.fam == d['fam'])
                                e2, tree = w.restore(owner, snapshot_regex='^' + d['name'] + '$')
                                if e2 is not None or tree != d['truth']:
                                    self.viol('fault:visible-snapshot-incomplete', f'{self.kind} issued again through {who} after a permanently failing {label}: visible snapshot #{s2} does not '
                                              f'restore completely ({e2 or "content differs"})', rp)
                finally:
                    for s2 in [x for x in w.snap_by_sid if x >= sid0]:
                        del w.snap_by_sid[s2]
                    w.next_sid, w.snap_names = sid0, names0
                self.res['cases'].append((dict(self.summary, part='fault', failed=failed[0], call=i, done=len(muts)), failed[0] in ('put', 'del')))
                self.res['dist'] += ['c:fault:' + failed[0], 'c:cmd:' + self.kind, 'c:retry-through:' + ('same-object' if same_object else 'fresh-object')]
            finally:
                self.reset_world_snapshot_identity(saved)
                w.backend = self.mem
                K.close_persistent_loop()


def isolate_tqdm_lock():
    """tqdm's default write lock is a MULTIPROCESSING lock: created once, it is shared by every process forked afterwards (the pool
    workers and the children they fork).  The crash tests kill children at arbitrary instants (`os._exit`); a child killed while it
    holds that lock leaves it held for ever and every worker then blocks in its next `tqdm(...)` — the check hangs until the outer
    timeout.  A per-process thread lock has the semantics replicat needs (its progress bars are used from threads of one process) and
    dies with the process; without the monitor thread nothing else can hold it at the moment a child is forked."""
    import threading
    import tqdm
    tqdm.tqdm.monitor_interval = 0
    tqdm.tqdm.set_lock(threading.RLock())


def run_scenario(arg):
    isolate_tqdm_lock()
    try:
        return _run_scenario(arg)
    except Exception:  # noqa: BLE001
        import traceback
        return worker_failed('scenario', arg, traceback.format_exc())


def _run_scenario(arg):
    seed, idx, tier = arg
    from .. import common
    common.use_rebuilt_chunker()
    C.no_backoff_sleep()
    quick = tier == 'quick'
    with R.Scratch(f'c03_{idx}') as sc:
        s = Scenario(seed, idx, tier, sc)
        s.build()
        s.res['summary'] = s.summary
        try:
            s.part_a(2 if quick else 4)
            s.part_b(14 if quick else None, 3 if quick else None)
            s.part_c(10 if quick else 40)
        except C.Hang:
            pass         # recorded as a violation; the worker's state (parked threads of the real code) is not reusable for this scenario
        return s.res


# ---------------------------------------------------------------------------- (d) the local upload itself
def die_after_temp_creation():
    """(child only) the process dies right after the real upload has created its temporary file — hooked where the file is created
    (`tempfile.NamedTemporaryFile` / `mkstemp`, also under the names replicat.backends.local imported them by), not at a private
    helper of `Local`, so renaming / inlining / splitting that helper does not matter"""
    import tempfile
    import replicat.backends.local as LM

    def dying(f):
        def g(*a, **kw):
            f(*a, **kw)
            os._exit(17)
        return g
    for nm in ('NamedTemporaryFile', 'mkstemp'):
        orig = getattr(tempfile, nm)
        for holder in (tempfile, LM):
            for attr, val in list(vars(holder).items()):
                if val is orig:
                    setattr(holder, attr, dying(orig))


def run_localfs(arg):
    isolate_tqdm_lock()
    try:
        return _run_localfs(arg)
    except Exception:  # noqa: BLE001
        import traceback
        return worker_failed('localfs', arg, traceback.format_exc())


def worker_failed(kind, arg, tb):
    """an exception inside one generated case must not take the whole check down (exit 2): it is reported as a tie that could not be
    established for that case (exit 1, `no-failing-input-found` unless another case yields a concrete input)"""
    seed, idx, tier = arg
    return {'idx': idx, 'model': [], 'violations': [], 'cases': [], 'dist': ['worker-exception:' + kind],
            'notes': [(f'{kind} case {idx}: the harness could not run this case on the tree under test: ' + tb.strip().splitlines()[-1][:200],
                       {'kind': kind, 'idx': idx, 'tier': tier, 'traceback': tb[-1500:]})]}


def _run_localfs(arg):
    seed, idx, tier = arg
    from .. import common
    common.use_rebuilt_chunker()
    C.no_backoff_sleep()
    r = rng_for(seed, 'C03-localfs', idx)
    out = {'idx': idx, 'model': [], 'violations': [], 'cases': [], 'dist': [], 'notes': []}
    Local = C.local_cls()
    with R.Scratch(f'c03fs_{idx}') as sc:
        name = r.choice(['data/ab/cd/' + 'e' * 20, 'snapshots/0f/' + 'a' * 24, 'config', 'data/ab/cd/other'])
        before = {'data/ab/cd/keep': b'k' * 9, 'snapshots/11/zz': b'snap'}
        if r.random() < 0.5:
            before[name] = r.randbytes(r.choice([1, 50, 700]))          # an existing destination: replaced atomically or not at all
        if r.random() < 0.4:
            before[os.path.dirname(name) + ('/' if os.path.dirname(name) else '') + 'stale_x1.tmp'] = b'left by an earlier crash'
        size = r.choice([0, 1, 2, 33, 1000, 4097] + ([300_000] if r.random() < 0.15 else []))
        data = r.randbytes(size)
        method = r.choice(['upload', 'upload_stream'])
        mode = r.choice(C.PHASES + ['complete', 'failed-once', 'failed-for-good'])
        root = sc.dir('fs')
        C.materialize(before, root)
        half = len(data) // 2
        rp = {'kind': 'localfs', 'idx': idx, 'tier': tier}

        def do_upload(be):
            if method == 'upload':
                be.upload(name, data)
            else:
                import io
                be.upload_stream(name, io.BytesIO(data), len(data))
        files0 = [[p, b.hex()] for p, b in sorted(before.items())]
        dirn = os.path.dirname(name)
        chain = []
        if mode in C.PHASES or mode == 'complete':
            def fn():
                C.install_upload_hooks()
                if mode != 'complete':
                    C._Armed.on, C._Armed.phase = True, mode
                    L = Local(str(root))
                    if mode == 'temp-created':
                        die_after_temp_creation()
                    do_upload(L)
                else:
                    do_upload(Local(str(root)))
            status = C.run_child(fn)
            want = 0 if mode == 'complete' else 17
            if mode in C.PHASES and status == 0:
                # the upload completed without passing the instrumented call of this phase (the tree under test creates / fills /
                # renames its temporary through other library calls than the hooked ones): the phase cannot be hit, nothing to compare
                out['dist'].append('d:phase-not-reached')
                return out
            if status != want:
                out['notes'].append((f'localfs child ended with status {status}, expected {want}', rp))
                return out
            kmap = {'temp-created': 2, 'half-written': 3, 'fully-written': 4, 'renamed': 5, 'complete': 5}
            chain.append({'k': kmap[mode], 'cleanup': False})
        else:
            # failed attempts inside the process: the write raises OSError after half of the bytes
            import pathlib
            import replicat.backends.local as L
            fails = {'n': 1 if mode == 'failed-once' else 99}
            ow, osh = pathlib.Path.write_bytes, L.shutil

            def wb(self, d):
                if fails['n'] > 0 and str(self).endswith('.tmp'):
                    fails['n'] -= 1
                    with open(self, 'wb') as fh:
                        fh.write(bytes(d[:len(d) // 2]))
                    raise OSError('injected')
                return ow(self, d)

            class Shim:
                def __getattr__(self, n):
                    return getattr(osh, n)

                @staticmethod
                def copyfileobj(src, dst, length=0):
                    if fails['n'] > 0:
                        fails['n'] -= 1
                        d = src.read()
                        dst.write(d[:len(d) // 2])
                        raise OSError('injected')
                    return osh.copyfileobj(src, dst, length)
            pathlib.Path.write_bytes, L.shutil = wb, Shim()
            err = None
            try:
                do_upload(Local(str(root)))
            except OSError:
                err = 'os_error'
            finally:
                pathlib.Path.write_bytes, L.shutil = ow, osh
            attempts = 1 if mode == 'failed-once' else 5
            chain += [{'k': 3, 'cleanup': True}] * attempts
            if mode == 'failed-once':
                chain.append({'k': 5, 'cleanup': False})
            if (err is None) != (mode == 'failed-once'):
                out['violations'].append(('local:retry-outcome', f'{method} with {attempts} failing write(s): outcome {err}', rp))
        raw = C.raw_files(root)
        temps = [p for p in raw if p.endswith('.tmp') and p not in before]
        be = Local(str(root))
        listing = sorted(be.list_files(''))
        ex = be.exists(name)
        try:
            dl = be.download(name).hex()
        except FileNotFoundError:
            dl = None
        tmpname = temps[0] if temps else (name + '_zz.tmp')
        impl = {'files': [[p, b.hex()] for p, b in sorted(raw.items())], 'listing': listing, 'exists': ex, 'download': dl}
        out['model'].append(({'op': 'localfs.upload', 'files': files0, 'dir': dirn, 'name': name, 'tmp': tmpname,
                              'pieces': [data[:half].hex(), data[half:].hex()], 'chain': chain}, impl, 'localfs', rp))
        # direct oracle: old or new, never anything else; no temporary listed
        old = before.get(name)
        if dl is not None and bytes.fromhex(dl) not in ([old] if old is not None else []) + [data]:
            out['violations'].append(('local:partial-object-visible', f'{method} killed at {mode}: download({name}) returns {len(bytes.fromhex(dl))} bytes that are neither the old nor the new object', rp))
        if dl is None and old is not None:
            out['violations'].append(('local:object-lost', f'{method} killed at {mode}: the existing object disappeared', rp))
        if any(p.endswith('.tmp') for p in listing):
            out['violations'].append(('local:temporary-listed', f'{method} at {mode}: a temporary is listed', rp))
        if mode in ('failed-once', 'failed-for-good', 'complete') and temps:
            out['violations'].append(('local:temporary-left-behind', f'{method} {mode}: temporaries remain: {temps[:2]}', rp))
        out['cases'].append(({'part': 'localfs', 'method': method, 'mode': mode, 'size': size, 'existing': old is not None, 'name': name.split('/')[0]},
                             mode not in ('complete',) and size > 1))
        out['dist'] += ['d:' + mode, 'd:' + method, 'd:size:' + ('0' if size == 0 else '<=2' if size <= 2 else 'small' if size < 100000 else 'multi-chunk')]
    return out


def localfs_model(drv, req):
    """run the chain of attempts through `localfs.upload` (each attempt starts from the files the previous one left)"""
    files = req['files']
    m = None
    for step in req['chain']:
        m = drv.ask({'op': 'localfs.upload', 'files': files, 'dir': req['dir'], 'name': req['name'], 'tmp': req['tmp'], 'pieces': req['pieces'],
                     'k': step['k'], 'cleanup': step['cleanup']})
        if 'files' not in m:
            return m
        files = m['files']
    return m


def compare_model(kind, req, impl, m):
    bad = []
    if kind == 'localfs':
        if m is None or 'files' not in m:
            return ['driver error: %r' % (m,)]
        for k in ('files', 'listing', 'exists', 'download'):
            if m.get(k, '<absent>') != impl[k]:
                bad.append(f'localfs {k}: model {str(m.get(k, "<absent>"))[:120]} implementation {str(impl[k])[:120]}')
        return bad
    if isinstance(m.get('error'), str) and not any(k in m for k in ('store', 'rows', 'files', 'accepts')) and m['error'] not in (
            'corrupted', 'not_available', 'different_key', 'missing'):
        return ['driver error: ' + m['error']]
    need = {'trace': ('store_after_prefix',), 'step': ('store',), 'list': (), 'restore': ()}.get(kind, ())
    missing = [k for k in need if k not in m]
    if missing:
        return [f'model reply to {req.get("op")} has no {missing} (error {m.get("error")!r})']
    if kind == 'trace':
        if not m.get('accepts'):
            bad.append(f'the observed mutation {"trace" if impl["full"] else "prefix"} is not accepted by the model plan: {[(t[0], t[1]) for t in req["trace"]][:6]}')
        if canon_store(m['store_after_prefix']) != impl['store']:
            a, b = set(canon_store(m['store_after_prefix'])), set(impl['store'])
            bad.append(f'state after the prefix differs: only in model {sorted(a - b)[:2]}, only in implementation {sorted(b - a)[:2]}')
    elif kind == 'step':
        if canon_store(m['store']) != impl['store']:
            a, b = set(canon_store(m['store'])), set(impl['store'])
            bad.append(f'object map differs after {req["cmd"]["kind"]}: only in model {sorted(a - b)[:2]}, only in implementation {sorted(b - a)[:2]}')
        if (m['error'] or None) != impl['error']:
            bad.append(f'error kind: model {m["error"]} implementation {impl["error"]}')
    elif kind == 'list':
        if (m.get('error') or None) != impl['error']:
            bad.append(f'list: error model {m.get("error")} implementation {impl["error"]}')
        elif impl['rows'] is not None:
            md = [[x[0], x[2]] for x in m.get('rows') or [] if x[1] is not None]
            mn = sorted(x[0] for x in m.get('rows') or [] if x[1] is None)
            if [md, mn] != impl['rows']:
                bad.append(f'list: rows differ: model {[md, mn]} implementation {impl["rows"]}')
    elif kind == 'restore':
        if (m.get('error') or None) != impl['error']:
            bad.append(f'restore: error model {m.get("error")} implementation {impl["error"]}')
        elif impl['files'] is not None:
            mf = sorted([f[0], f[1]] for f in m.get('files') or [])
            if mf != impl['files']:
                bad.append(f'restore: restored file versions differ: model {mf[:5]} implementation {impl["files"][:5]}')
    return bad


def run(out, drv, info):
    quick = out.tier == 'quick'
    n_scen, n_fs = (40, 200) if quick else (320, 3000)
    out.rule = ('case = one crash state / fault run / completion order / local-upload phase.  Scenario = real repository (encrypted with owner + clone/shared/independent keys, or '
                'unencrypted; 3 chunkings; concurrency 1/2/4) with 2–3 overlapping snapshots, then snapshot | delete | clean (with orphans).  (b) child on the real Local backend '
                'killed before mutation k (all k in thorough; first 14 + spread in quick) and inside an upload (first / middle / last put) at temp-created, half-written, fully-written, '
                'renamed; (c) a permanent failure at each backend call index (exists/put/get/del); (a) randomised completion orders, concurrency 5; (d) Local.upload / upload_stream killed '
                'at each phase or failing once / for good, with an existing destination and stale temporaries.  non-trivial = strictly inside the command (not before its first / after its '
                'last mutation), a failed mutating call, ≥ 2 mutations reordered, or an upload phase with ≥ 2 bytes; distinct = hash of the case summary')
    out.assumptions = ['PARTIAL: power loss below rename / missing fsync (torn or lost directory entries, data not yet durable) and server-side atomicity of S3/B2 PUT are not modelled',
                       'process death is modelled at backend-call granularity and, for the local backend, at the file-system steps mkdir -p / mktemp / write / rename',
                       'POSIX rename atomicity; ideal cryptography (payload validity is decided by the real verification code)',
                       'mutating backend calls of the killed child are serialised by the instrumentation, so that "the first k mutations completed" is well defined']
    isolate_tqdm_lock()
    with mp.get_context('fork').Pool(min(16, os.cpu_count() or 4)) as pool:
        r1 = pool.map_async(run_scenario, [(out.seed, i, out.tier) for i in range(n_scen)], chunksize=1)
        r2 = pool.map_async(run_localfs, [(out.seed, i, out.tier) for i in range(n_fs)], chunksize=4)
        results = r1.get() + r2.get()
    todo = []
    for res in results:
        for summary, nt in res['cases']:
            out.case(summary, nt)
        for d in res['dist']:
            out.count(d)
        if 'summary' in res:
            out.count('scenario:' + res['summary']['cmd'] + (':enc' if res['summary']['enc'] else ':plain'))
        for sig, what, rp in res['violations']:
            out.violation(sig, what, dict(rp, seed=out.seed))
        for what, rp in res['notes']:
            out.disagreement(what, dict(rp, seed=out.seed))
        todo += res['model']
    if drv is not None:
        plain = [(req, impl, kind, rp) for req, impl, kind, rp in todo if kind != 'localfs']
        replies = drv.ask_many([x[0] for x in plain])
        for (req, impl, kind, rp), m in zip(plain, replies):
            bad = compare_model(kind, req, impl, m)
            out.count('tie:' + kind)
            if bad:
                out.disagreement(f'{kind} ({rp.get("part")}): ' + '; '.join(bad[:3]), dict(rp, seed=out.seed, request_digest=digest(req)))
            else:
                out.traces_validated += 1
        for req, impl, kind, rp in todo:
            if kind == 'localfs':
                bad = compare_model(kind, req, impl, localfs_model(drv, req))
                out.count('tie:localfs')
                if bad:
                    out.disagreement('localfs: ' + '; '.join(bad[:3]), dict(rp, seed=out.seed))
                else:
                    out.traces_validated += 1


def replay(path, drv):
    d = json.load(open(path))
    rp = d.get('replay', d)
    fn = {'scenario': run_scenario, 'localfs': run_localfs}.get(rp.get('kind'))
    if fn is None:
        print('replay kind not supported (proof/tie failure without a concrete input: rebuild and re-run the check)')
        return 2
    with mp.get_context('fork').Pool(1) as pool:
        res = pool.apply(fn, ((rp.get('seed', 0), rp['idx'], rp.get('tier', 'quick')),))
    for v in res['violations']:
        print('violation', v[0], v[1])
    bad = 0
    if drv is not None:
        for req, impl, kind, _ in res['model']:
            m = localfs_model(drv, req) if kind == 'localfs' else drv.ask(req)
            b = compare_model(kind, req, impl, m)
            if b:
                bad += 1
                print('disagreement', kind, b[:2])
    for what, _ in res['notes']:
        print('note', what)
    return 1 if (res['violations'] or bad or res['notes']) else 0
