"""C18 — the snapshot cache never changes what a command does.

Tie.  Histories of snapshot / delete / clean / list-snapshots / list-files / restore run on one REAL repository (memory backend,
real adapters) by several clients (owner / clone / shared / independent keys, or unencrypted) whose cache directories are laid
out as {none, fresh per command, one shared directory (also holding another repository's entries), separate directories, mixed}.
Between commands the entries are rewritten to every state an interrupted write, a shared directory or another client can leave:
{missing, empty, a proper prefix at one of 8 cut points, the bytes of another snapshot, the bytes of another repository's
snapshot, garbage, extended, one bit flipped, a valid copy, a stale entry of a deleted snapshot}.
  * `cache.load`  — the real `_load_snapshots` on a copy of the client's cache directory vs `Repo.loadSnapshotsC` on the
                    ABSTRACTED store and cache (bodies / error) and vs `Repo.cacheAfterLoad` (the directory afterwards);
  * `repo.step`, `repo.list`, `repo.listfiles`, `repo.restore` — the command run WITH the cache vs the model command
                    (`command_cache_irrelevant` / `query_cache_irrelevant` make the cache-less model the prediction).
Direct oracle (the property itself): the same command run without a cache (for delete / clean on a copy of the backend) gives the
same stdout rows / restored tree / returned file list / error / resulting object map.
A sweep at the end of every history puts each listed snapshot's entry through all 8 cut points and the other states.

Clients.  Half of the histories are run by LONG-LIVED clients (library use): ONE `Repository` object per (user, cache directory) and
ONE event loop for the whole history, so that whatever such an object remembers from its earlier commands (entries it validated,
downloaded and stored, evicted) meets a cache directory that other clients damaged / replaced / refilled in the meantime; the
other half create a client per command (the CLI).  The model's client is stateless (`runC` folds `stepC` over the caches of the
moment), so the same ties and the same oracle apply unchanged; for a long-lived client the loading stage is also run on the
object itself (directory put back into the damaged state afterwards — the other client's write happened again).  The sweep of a
long-lived history drives one object through all states of an entry, each state following a command in which that very object
validated or wrote the entry.

Kill / pause worlds (impl/c18_kill.py, impl/c18_killcase.py).  The states above are planted AT THE ENTRY PATH.  What a hard kill
(SIGKILL / OOM / power loss — no Python handler runs) leaves depends on HOW `_store_cached` writes: files next to the entry,
half-made directories, a torn temporary.  So the real command also runs in a child process, is killed by SIGKILL before every
file-system operation it performs inside the cache directory (seen through an audit hook; nothing of replicat is patched), or
terminated by the kernel inside a write (RLIMIT_FSIZE), or stopped there while a second client uses the directory; the directory is
kept exactly as left and later commands (same user, a second client sharing it, a destructive command) must equal the cache-less
run.  Ties: the operations of every real store == the plan the extractor read from `_store_cached` (`cachefs.plan`,
`CacheCmd.storePlan`); the files a kill left under the names of the entry == `CacheCmd.killed` (`cachefs.kill`).
"""
import asyncio
import json
import multiprocessing as mp
import os
import random
import shutil

from ..common import rng_for, digest
from ..impl import runner as R
from ..impl import cachekit as K
from ..impl.c18_killcase import run_kill_case
from ..impl.history import gen_world_cfg, gen_fileset
from ..impl.world import World, canon_store

LAYOUTS = ['separate', 'shared', 'shared', 'mixed', 'fresh', 'none']
KINDS = ['missing', 'empty', 'prefix', 'prefix', 'prefix', 'other-snapshot', 'foreign', 'garbage', 'extended', 'bitflip', 'valid']
INVALID = {'empty': 'truncated', 'prefix': 'truncated', 'other-snapshot': 'substituted', 'foreign': 'substituted',
           'garbage': 'garbage', 'extended': 'garbage', 'bitflip': 'garbage'}


def severity(kinds):
    for cls in ('truncated', 'substituted', 'garbage'):
        if any(INVALID.get(k) == cls for k in kinds):
            return cls
    if 'stale' in kinds:
        return 'stale'
    return 'valid-or-missing'


def make_foreign(r):
    """another repository (own keys / settings) with two snapshots: its objects are 'entries of another repository'"""
    be = R.MemBackend()
    enc = r.random() < 0.6
    repo, _ = R.init_repo(be, R.settings_for(enc, chunking={'name': 'gclmulchunker', 'min_length': 8, 'max_length': 32}), password=b'foreign')
    with R.Scratch('foreign_src_%d' % r.randrange(1 << 30)) as sc:
        src = sc.dir('src')
        for i in range(2):
            R.write_tree(src, {'f%d' % i: (r.randbytes(50 + 20 * i), None)})
            R.snapshot(repo, [src])
    return {loc: data for loc, data in be.objects.items() if loc.startswith('snapshots/')}


class Case:
    def __init__(self, seed, idx, tier, sc, long_lived=None):
        self.r = r = rng_for(seed, 'C18', idx)
        self.idx, self.tier, self.sc = idx, tier, sc
        # the kind of client is drawn from its own stream (the histories themselves are the same for both kinds)
        self.rc = rng_for(seed, 'C18-client', idx)
        self.long_lived = self.rc.random() < 0.5
        if long_lived is not None:
            self.long_lived = long_lived       # (the kill / pause worlds of impl/c18_killcase.py: every client is a process of its own)
        if self.long_lived:
            R.PERSISTENT_LOOP = asyncio.new_event_loop()     # one loop for the whole history: the kept Repository objects live on it
        self.clients = {}      # (user, cache directory) -> [Repository, commands run so far]
        self.used = {}         # (user, cache directory) -> entries that object validated / stored itself in an earlier command
        self.cfg = cfg = gen_world_cfg(r)
        self.layout = r.choice(LAYOUTS)
        self.w = w = World(sc, enc=cfg['enc'], chunking=cfg['chunking'], concurrent=cfg['concurrent'], cipher=cfg['cipher'],
                           async_backend=cfg['async_backend'])
        for kind, _ in cfg['users']:
            w.add_user(kind, base=r.randrange(len(w.users)))
        self.A = K.Abstraction(w)
        self.foreign = make_foreign(r)
        self.others = {}
        self.dig2cid = {}
        self.shared = sc.dir('cache_shared')
        for loc, data in self.foreign.items():
            K.write_entry(self.shared, loc, data)
        self.own = {}
        self.mixed = {}
        self.fresh_n = 0
        self.res = {'idx': idx, 'violations': [], 'model': [], 'cases': [], 'dist': [], 'notes': []}
        self.blocks = [r.randbytes(r.choice([24, 40, 64, 100, 130])) for _ in range(5)] + [bytes(64)]
        self.prev = None

    # ------------------------------------------------------------ cache directories
    def cdir(self, ui):
        lay = self.layout
        if lay == 'mixed':
            lay = self.mixed.setdefault(ui, self.r.choice(['none', 'separate', 'shared', 'shared']))
        if lay == 'none':
            return None
        if lay == 'shared':
            return self.shared
        if lay == 'fresh':
            self.fresh_n += 1
            return self.sc.dir('cache_fresh_%d' % self.fresh_n)
        if ui not in self.own:
            self.own[ui] = self.sc.dir('cache_u%d' % ui)
        return self.own[ui]

    # ------------------------------------------------------------ clients
    def client(self, ui, cdir):
        """the client of user `ui` working with `cdir`: per command (CLI), or the ONE object kept for the whole history"""
        if not self.long_lived or cdir is None or self.layout == 'fresh':
            return K.repo_on(self.w, ui, self.w.backend, cdir)
        key = (ui, str(cdir))
        if key not in self.clients:
            self.clients[key] = [K.keep(K.repo_on(self.w, ui, self.w.backend, cdir)), 0]
        K.settle()
        return self.clients[key][0]

    def kept(self, ui, cdir):
        return self.long_lived and cdir is not None and self.layout != 'fresh'

    def listed(self):
        """locations of the listed snapshots, in the order they were taken (names are random under encryption: sorting by name
        would let the run-to-run randomness of nonces decide which snapshot a replayed history tampers with)"""
        locs = [loc for loc in self.w.backend.objects if loc.startswith('snapshots/')]
        return sorted(locs, key=lambda loc: (self.w.snap_names.get(loc, (0, 1 << 30))[1], loc))

    def tamper(self, cdir, loc, kind, cut_index=None):
        # draws whose number depends on the entry's length (which varies from run to run) come from a sub-stream, so that the
        # history's own stream — and with it a replay — does not depend on it
        r, w = random.Random(self.r.getrandbits(64)), self.w
        good = w.backend.objects[loc]
        extra = None
        if kind == 'missing':
            K.remove_entry(cdir, loc)
        elif kind == 'empty':
            K.write_entry(cdir, loc, b'')
        elif kind == 'prefix':
            cuts = K.cut_points(len(good))
            k = cuts[(cut_index if cut_index is not None else r.randrange(len(cuts))) % len(cuts)]
            extra = cuts.index(k)
            K.write_entry(cdir, loc, good[:k])
        elif kind == 'other-snapshot':
            pool = [d for s, d in w.snap_by_sid.items() if d['location'] != loc]
            if not pool:
                return self.tamper(cdir, loc, 'garbage')
            d = r.choice(pool)
            K.write_entry(cdir, loc, next(iter(w.valid_payload[d['location']])))
        elif kind == 'foreign':
            K.write_entry(cdir, loc, self.foreign[r.choice(sorted(self.foreign))])
        elif kind == 'garbage':
            K.write_entry(cdir, loc, r.randbytes(len(good)))
        elif kind == 'extended':
            K.write_entry(cdir, loc, good + r.randbytes(r.choice([1, 16])))
        elif kind == 'bitflip':
            i = r.randrange(len(good))
            K.write_entry(cdir, loc, good[:i] + bytes([good[i] ^ (1 << r.randrange(8))]) + good[i + 1:])
        elif kind == 'valid':
            K.write_entry(cdir, loc, good)
        return (kind, extra)

    # ------------------------------------------------------------ abstraction of what the real code returned
    def visible(self, ui, loc):
        u = self.w.users[ui]
        return (not self.w.enc) or self.w.snap_names[loc][0] == u.fam

    def entry_class(self, entry, good):
        if entry is None:
            return 'missing'
        if entry == good:
            return 'valid'
        if good.startswith(entry):
            return 'truncated'
        if any(entry in v for v in self.w.valid_payload.values()) or entry in self.foreign.values():
            return 'substituted'
        return 'garbage'

    def read_entries(self, cdir, ui, sre, files=None):
        """location -> state of its entry, for the entries the command will read (listed, visible to the user, matching the regex)"""
        import re
        files = K.cache_files(cdir) if files is None else files
        out = {}
        for loc in self.listed():
            nm = self.w.snap_by_sid[self.w.snap_names[loc][1]]['name']
            if self.visible(ui, loc) and (sre is None or re.search(sre, nm)):
                out[loc] = self.entry_class(files.get(loc), self.w.backend.objects[loc])
        return out

    def state_class(self, cdir, ui, sre):
        """the worst state among the entries the command will read"""
        if cdir is None:
            return 'no-cache'
        files = K.cache_files(cdir)
        found = set(self.read_entries(cdir, ui, sre, files).values())
        for cls in ('truncated', 'substituted', 'garbage'):
            if cls in found:
                return cls
        if any(loc.startswith('snapshots/') and loc not in self.w.backend.objects for loc in files):
            return 'stale-or-foreign-only'
        return 'valid-or-missing'

    def abstract_loaded(self, items):
        out = []
        for path, body in items:
            if path not in self.w.snap_names:      # a path the backend never listed for this repository
                out.append({'fam': -1, 'sid': -1, 'chunks': [-1], 'data': None})
                continue
            fam, sid = self.w.snap_names[path]
            d = self.w.snap_by_sid[sid]
            bogus = {'owner': -1, 'ts': -1, 'chunks': [], 'files': []}
            try:
                chunks = [self.dig2cid.get(bytes(x), -1) for x in body['chunks']]
                data = body['data']
                if data is not None:
                    same = data.get('utc_timestamp') == d['ts_string'] and [f['path'] for f in data['files']] == [f['path'] for f in d['result_files']]
                    data = d['body'] if same else bogus
            except Exception:  # noqa: BLE001  (a body that is not even shaped like one)
                chunks, data = [-1], bogus
            out.append({'fam': fam, 'sid': sid, 'chunks': chunks, 'data': data})
        return sorted(out, key=lambda x: (x['fam'], x['sid']))

    def regex(self):
        r = self.r
        present = [d for s, d in self.w.snap_by_sid.items() if d['location'] in self.w.backend.objects]
        if not present or r.random() < 0.55:
            return None
        # a filter may name ANY snapshot the user ever saw — also one that has been deleted since (its entry may still sit in a cache
        # directory) — and may be written as a prefix, as the complete name, or anchored at both ends
        ever = list(self.w.snap_by_sid.values())
        gone = [d for d in ever if d['location'] not in self.w.backend.objects]
        d = r.choice(gone) if gone and r.random() < 0.35 else r.choice(present)
        form = r.choice(['prefix', 'prefix', 'prefix', 'full', 'anchored'])
        if form == 'full':
            return d['name']
        if form == 'anchored':
            return '^' + d['name'] + '$'
        return '^' + d['name'][:r.choice([1, 1, 2, 64])]

    def rows_to_model(self, rows):
        """list-snapshots rows → ([sid, has data, file count] for rows with data in order, sorted sids of rows without)"""
        name2sid = {d['name']: s for s, d in self.w.snap_by_sid.items()}
        with_data, without = [], []
        for row in rows:
            sid = name2sid.get(row[0], -1)
            if row[2] == '--':
                without.append(sid)
            else:
                with_data.append([sid, int(row[3])])
        return [with_data, sorted(without)]

    # ------------------------------------------------------------ one step
    def step(self, no, force=None):
        r, w = self.r, self.w
        K.settle()     # no loader thread of an earlier (failed) command is still writing into a cache directory
        ui = r.randrange(len(w.users))
        u = w.users[ui]
        cdir = self.cdir(ui)
        listed = self.listed()
        kinds = []
        if cdir is not None and listed and r.random() < 0.8:
            for loc in r.sample(listed, min(len(listed), r.choice([1, 1, 2, 3, len(listed)]))):
                k = self.tamper(cdir, loc, r.choice(KINDS))
                kinds.append((loc, k))
        gone = [d for s, d in w.snap_by_sid.items() if d['location'] not in w.backend.objects]
        if cdir is not None and gone and r.random() < 0.35:
            d = r.choice(gone)
            K.write_entry(cdir, d['location'], next(iter(w.valid_payload[d['location']])))
            kinds.append((d['location'], ('stale', None)))
        store0 = w.abstract_store(self.others)
        present = [s for s, d in w.snap_by_sid.items() if d['location'] in w.backend.objects]
        own = [s for s in present if w.snap_by_sid[s]['owner'] == u.keyid and w.snap_by_sid[s]['fam'] == u.fam]
        k = r.random()
        cmd = force or ('snapshot' if (k < 0.25 or not present) else 'delete' if k < 0.43 else 'clean' if k < 0.54 else
                        'list' if k < 0.7 else 'listfiles' if k < 0.8 else 'restore')
        sre = self.regex() if cmd in ('list', 'listfiles', 'restore') else None
        fre = r.choice([None, None, 'a$', 'c/', 'nomatch']) if cmd in ('listfiles', 'restore') else None
        rp = {'kind': 'case', 'idx': self.idx, 'step': no, 'tier': self.tier}
        sev = self.state_class(cdir, ui, sre) if cmd != 'snapshot' else 'not-read'
        if cdir is None:
            sev = 'no-cache'
        # ---- the client: per command, or the one object of this (user, directory) with everything it remembers
        kept = self.kept(ui, cdir)
        ckey = (ui, str(cdir))
        earlier = self.clients[ckey][1] if (kept and ckey in self.clients) else 0
        redamaged = []         # entries this very object validated / stored in an earlier command and that are invalid now
        if kept and cmd != 'snapshot':
            redamaged = sorted(cl for loc, cl in self.read_entries(cdir, ui, sre).items()
                               if loc in self.used.get(ckey, ()) and cl in ('truncated', 'substituted', 'garbage'))
        who = 'per-command' if not kept else 'long-lived'

        def ran():       # commands (and loads) this object has run before the one at hand
            return self.clients[ckey][1] if (kept and ckey in self.clients) else 0

        def tag():
            return ':long-lived-client' if ran() else ''
        summary = {'cmd': cmd, 'enc': w.enc, 'user': u.kind, 'layout': self.layout if cdir is not None else 'none', 'listed': len(listed),
                   'tampered': sorted((kd[0] + ('@%d' % kd[1] if kd[1] is not None else '')) for _, kd in kinds), 'class': sev,
                   'sre': None if sre is None else len(sre) - 1, 'fre': fre, 'client': who, 'earlier_commands': min(earlier, 4),
                   'redamaged': redamaged}
        base = {'enc': w.enc, 'store': store0, 'user': w.model_user(ui)}
        msre = {} if sre is None else {'sre': w.sids_matching(sre)}
        mfre = {} if fre is None else {'fre': w.pids_matching(fre)}

        # ---- the loading stage on a copy of the cache directory  (tie: cache.load)
        if cmd != 'snapshot':
            lre = sre
            cache0 = self.A.cache(cdir)
            tmp = None
            if cdir is not None:
                tmp = self.sc.dir()
                shutil.rmtree(tmp)
                shutil.copytree(cdir, tmp)
            on_object = kept and self.rc.random() < 0.5
            if on_object:
                # the long-lived object itself loads from its own directory; afterwards the directory is put back into the state
                # the other clients left (their write happened again), so the command below meets the damaged entries too
                err, items = K.real_load(self.client(ui, cdir), lre)
                after = None if err is not None else K.canon_cache(self.A.cache(cdir))
                K.settle()
                shutil.rmtree(cdir)
                shutil.copytree(tmp, cdir)
                summary['load_on'] = 'object'
            else:
                err, items = K.real_load(K.repo_on(w, ui, w.backend, tmp), lre)
                after = None if (tmp is None or err is not None) else K.canon_cache(self.A.cache(tmp))
            impl = {'error': err, 'loaded': None if items is None else self.abstract_loaded(items), 'cache_after': after}
            if tmp is not None:
                shutil.rmtree(tmp, ignore_errors=True)
            self.res['model'].append((dict(base, op='cache.load', cache=cache0, **msre), impl, 'load', rp))
            if err is not None:
                self.res['violations'].append((f'cache:{sev}-entry-breaks-load' + (tag() if on_object else ''),
                                               f'_load_snapshots of a {who if on_object else "per-command"} client fails ({err}) with cache entries '
                                               f'{summary["tampered"]} although the repository is intact', dict(rp, summary=summary)))
            if on_object:
                self.clients[ckey][1] += 1

        def differs(what, a, b):
            self.res['violations'].append((f'cache:{sev}-entry-changes-{cmd}{tag()}',
                                           f'{cmd} by {u.kind} user ({who} client' + (f', {ran()} earlier commands of the same object' if kept else '') +
                                           f') with cache [{self.layout}; entries {summary["tampered"]}' +
                                           (f'; damaged after the object used them: {redamaged}' if redamaged else '') +
                                           f'] differs from the cache-less run in {what}: with cache {str(a)[:160]} / without {str(b)[:160]}',
                                           dict(rp, summary=summary)))

        # ---- the command itself, with the client's cache and without any
        if cmd == 'snapshot':
            repeat = self.prev is not None and r.random() < 0.25
            fs = self.prev if repeat else gen_fileset(r, self.blocks, self.prev)
            self.prev = fs
            res = w.snapshot(ui, fs, repo=self.client(ui, cdir), whole_second=r.random() < 0.2, note=r.choice([None, 'n%d' % no]))
            d = w.snap_by_sid[res['sid']]
            d['result_files'] = res['result'].data['files']
            for dg, cid in zip(res['result'].chunks, d['body']['chunks']):
                self.dig2cid[bytes(dg)] = cid
            impl = {'store': canon_store(w.abstract_store(self.others)), 'error': None,
                    'uploaded': sorted({tuple(w.abstract_name(x)) for x in res['uploaded']})}
            self.res['model'].append((dict(base, op='repo.step', cmd=res['op']), impl, 'step', rp))
        elif cmd in ('delete', 'clean'):
            ref = K.copy_backend(w)
            if cmd == 'delete':
                kk = r.random()
                if kk < 0.7 and own:
                    sids = r.sample(own, r.choice([1, 1, 2]) if len(own) > 1 else 1)
                elif kk < 0.85:
                    sids = [r.choice(present)]
                else:
                    sids = [r.choice(present), 999000 + no] if r.random() < 0.5 else [999000 + no]
                names = [w.snap_by_sid[s]['name'] if s in w.snap_by_sid else ('%064x' % s) for s in sids]
                op = {'kind': 'delete', 'user': w.model_user(ui), 'sids': sids}
                err_n = K.run_delete(K.repo_on(w, ui, ref, None), names)
                err_c = K.run_delete(self.client(ui, cdir), names)
                summary['targets'] = len(sids)
            else:
                op = {'kind': 'clean', 'user': w.model_user(ui)}
                err_n = K.run_clean(K.repo_on(w, ui, ref, None))
                err_c = K.run_clean(self.client(ui, cdir))
            if err_c != err_n:
                differs('error', err_c, err_n)
            elif w.backend.objects != ref.objects:
                a, b = set(w.backend.objects), set(ref.objects)
                differs('resulting object map', sorted(b - a)[:3], sorted(a - b)[:3])
            summary['error'] = err_c
            impl = {'store': canon_store(w.abstract_store(self.others)), 'error': err_c, 'uploaded': []}
            self.res['model'].append((dict(base, op='repo.step', cmd=op), impl, 'step', rp))
            if cmd == 'delete' and err_c is None and cdir is not None:
                left = [w.snap_by_sid[s]['location'] for s in sids if os.path.exists(os.path.join(cdir, w.snap_by_sid[s]['location']))]
                if left:
                    self.res['notes'].append(('delete left the cache entry of a deleted snapshot in place', rp))
        elif cmd == 'list':
            err_c, rows_c = K.run_list(self.client(ui, cdir), sre)
            err_n, rows_n = K.run_list(K.repo_on(w, ui, w.backend, None), sre)
            ca = None if rows_c is None else ([x for x in rows_c if x[2] != '--'], sorted(x for x in rows_c if x[2] == '--'))
            cb = None if rows_n is None else ([x for x in rows_n if x[2] != '--'], sorted(x for x in rows_n if x[2] == '--'))
            if (err_c, ca) != (err_n, cb):
                differs('stdout rows / error', (err_c, rows_c), (err_n, rows_n))
            summary['error'] = err_c
            impl = {'error': err_c, 'rows': None if rows_c is None else self.rows_to_model(rows_c)}
            self.res['model'].append((dict(base, op='repo.list', **msre), impl, 'list', rp))
        elif cmd == 'listfiles':
            err_c, rows_c = K.run_list_files(self.client(ui, cdir), sre, fre)
            err_n, rows_n = K.run_list_files(K.repo_on(w, ui, w.backend, None), sre, fre)
            if (err_c, rows_c) != (err_n, rows_n):
                differs('stdout rows / error', (err_c, rows_c), (err_n, rows_n))
            summary['error'] = err_c
            rows = None
            if rows_c is not None:
                name2sid = {d['name']: s for s, d in w.snap_by_sid.items()}
                rows = []
                for row in rows_c:
                    sid = name2sid.get(row[0], -1)
                    d = w.snap_by_sid.get(sid)
                    rows.append([d['ts'] if d else -1, w.pid(row[2]), w.ver(d['truth'].get(row[2], b'?')) if d else -1])
            self.res['model'].append((dict(base, op='repo.listfiles', **msre, **mfre), {'error': err_c, 'rows': rows}, 'listfiles', rp))
        else:
            err_c, tree_c, files_c = K.run_restore(self.client(ui, cdir), self.sc, sre, fre)
            err_n, tree_n, files_n = K.run_restore(K.repo_on(w, ui, w.backend, None), self.sc, sre, fre)
            if (err_c, tree_c, files_c) != (err_n, tree_n, files_n):
                differs('restored tree / returned files / error', (err_c, sorted(tree_c or {})), (err_n, sorted(tree_n or {})))
            summary['error'] = err_c
            files = None if tree_c is None else sorted([w.pid(p), w.ver(b)] for p, b in tree_c.items())
            self.res['model'].append((dict(base, op='repo.restore', **msre, **mfre), {'error': err_c, 'files': files}, 'restore', rp))
        # ---- what the command left in the cache: every listed, visible, matching snapshot has a valid copy
        if cmd != 'snapshot' and cdir is not None and summary.get('error') is None:
            import re
            for loc in self.listed():
                nm = w.snap_by_sid[w.snap_names[loc][1]]['name']
                if self.visible(ui, loc) and (sre is None or re.search(sre, nm)):
                    p = os.path.join(cdir, loc)
                    if not os.path.exists(p) or open(p, 'rb').read() != w.backend.objects[loc]:
                        self.res['notes'].append((f'after {cmd} the cache entry of a loaded snapshot is not a valid copy', rp))
                        break
        if kept:
            self.clients[ckey][1] += 1
            if cmd != 'snapshot' and summary.get('error') is None:
                # what this object has now validated / downloaded and stored itself
                self.used.setdefault(ckey, set()).update(self.read_entries(cdir, ui, sre))
            if cmd == 'delete' and summary.get('error') is None:
                self.used.get(ckey, set()).difference_update(w.snap_by_sid[s]['location'] for s in sids if s in w.snap_by_sid)
        nontrivial = cdir is not None and cmd != 'snapshot' and sev in ('truncated', 'substituted', 'garbage') and len(listed) >= 2
        self.res['cases'].append((summary, nontrivial))
        self.res['dist'] += ['client:' + who] + (['client:long-lived:earlier-commands:' + ('0' if not earlier else '1-3' if earlier < 4 else '4+')] if kept else [])
        self.res['dist'] += ['client:long-lived:reads-entry-damaged-after-own-use:' + cl for cl in sorted(set(redamaged))]
        if kept and cmd != 'snapshot':
            self.res['dist'].append('client:long-lived:' + ('reads-entry-damaged-after-own-use' if redamaged else 'no-own-entry-damaged'))
        self.res['dist'] += ['cmd:' + cmd + ((':' + summary['error']) if summary.get('error') else ''), 'layout:' + summary['layout'], 'class:' + sev,
                             'user:' + u.kind, 'enc' if w.enc else 'plain'] + ['tamper:' + t for t in summary['tampered']]

    # ------------------------------------------------------------ sweep: every state of one entry × read-only commands
    def sweep(self):
        r, w = self.r, self.w
        K.settle()
        listed = self.listed()
        if not listed:
            return
        ui = r.randrange(len(w.users))
        u = w.users[ui]
        vis = [loc for loc in listed if self.visible(ui, loc)]
        if not vis:
            return
        cdir = self.sc.dir('cache_sweep')
        # a long-lived history sweeps with ONE object: every state of the entry follows a command in which that object
        # validated the entry or downloaded and stored it itself
        one = K.keep(K.repo_on(w, ui, w.backend, cdir)) if self.long_lived else None
        who = 'long-lived' if one is not None else 'per-command'

        def cl():
            K.settle()
            return one if one is not None else K.repo_on(w, ui, w.backend, cdir)
        base_list = K.run_list(K.repo_on(w, ui, w.backend, None), None)
        base_lf = K.run_list_files(K.repo_on(w, ui, w.backend, None), None, None)
        base_rs = K.run_restore(K.repo_on(w, ui, w.backend, None), self.sc, None, None)
        n = 0
        states = [('missing', None), ('empty', None)] + [('prefix', i) for i in range(K.CUTS)] + [('other-snapshot', None), ('foreign', None), ('garbage', None)]
        for loc in (vis if self.tier != 'quick' else vis[:2]):
            for kind, ci in states:
                kd = self.tamper(cdir, loc, kind, ci)
                which = n % 4
                n += 1
                rp = {'kind': 'case', 'idx': self.idx, 'step': 'sweep', 'tier': self.tier}
                sev = severity([kd[0]])
                label = kd[0] + ('@%d' % kd[1] if kd[1] is not None else '')
                if which in (0, 2):
                    got, want, cmd = K.run_list(cl(), None), base_list, 'list'
                    split = lambda x: None if x[1] is None else (x[0], [y for y in x[1] if y[2] != '--'], sorted(y for y in x[1] if y[2] == '--'))  # noqa: E731
                    same = split(got) == split(want) and got[0] == want[0]
                elif which == 1:
                    got, want, cmd = K.run_list_files(cl(), None, None), base_lf, 'listfiles'
                    same = got == want
                else:
                    got, want, cmd = K.run_restore(cl(), self.sc, None, None), base_rs, 'restore'
                    same = got == want
                if not same:
                    self.res['violations'].append((f'cache:{sev}-entry-changes-{cmd}' + (':long-lived-client' if (one is not None and n > 1) else ''),
                                                   f'{cmd} by {u.kind} user ({who} client' + (f', command #{n} of the same object' if one is not None else '') +
                                                   f') with the cache entry of one snapshot set to [{label}] '
                                                   f'differs from the cache-less run: {str(got)[:160]} / {str(want)[:160]}', dict(rp, state=label, client=who)))
                p = os.path.join(cdir, loc)
                if got[0] is None and (not os.path.exists(p) or open(p, 'rb').read() != w.backend.objects[loc]):
                    self.res['notes'].append((f'sweep: after {cmd} the entry [{label}] was not replaced by a valid copy', rp))
                summary = {'cmd': cmd, 'enc': w.enc, 'user': u.kind, 'layout': 'sweep', 'listed': len(listed), 'tampered': [label], 'class': sev,
                           'entry_len': len(w.backend.objects[loc]), 'client': who}
                self.res['cases'].append((summary, sev != 'valid-or-missing' and len(listed) >= 2))
                self.res['dist'] += ['sweep:' + label, 'cmd:' + cmd, 'class:' + sev, 'sweep-client:' + who]
                if one is not None and n > 1 and sev != 'valid-or-missing':
                    self.res['dist'].append('client:long-lived:sweep-state-after-own-use:' + sev)


def run_case(arg):
    seed, idx, tier, n_ops = arg
    from .. import common
    common.use_rebuilt_chunker()
    with R.Scratch(f'c18_{idx}') as sc:
        try:
            c = Case(seed, idx, tier, sc)
            c.res['cfg'] = dict(c.cfg, layout=c.layout, users=[u.kind for u in c.w.users], client='long-lived' if c.long_lived else 'per-command')
            for no in range(n_ops):
                c.step(no, force='snapshot' if no < 2 else None)
            c.sweep()
            return c.res
        finally:
            K.close_persistent_loop()


def compare_model(kind, req, impl, m):
    bad = []
    if isinstance(m.get('error'), str) and kind != 'load' and 'store' not in m and 'rows' not in m and 'files' not in m and m['error'] not in (
            'corrupted', 'not_available', 'different_key', 'missing'):
        return ['driver error: ' + m['error']]
    if kind == 'load':
        if 'loaded' not in m and not isinstance(m.get('error'), str):
            return ['driver reply malformed: %r' % (m,)]
        merr = m.get('error')
        if (merr is None) != (impl['error'] is None):
            bad.append(f'load: model error {merr} implementation error {impl["error"]}')
        elif merr is None:
            ml = sorted(m['loaded'], key=lambda x: (x['fam'], x['sid']))
            if ml != impl['loaded']:
                bad.append(f'load: loaded snapshots differ: model {[(x["fam"], x["sid"], x["data"] is not None) for x in ml]} '
                           f'implementation {[(x["fam"], x["sid"], x["data"] is not None) for x in impl["loaded"]]}')
            if impl['cache_after'] is not None and K.canon_cache(m.get('cache_after')) != impl['cache_after']:
                a, b = set(K.canon_cache(m.get('cache_after'))), set(impl['cache_after'])
                bad.append(f'load: cache directory afterwards differs: only model {sorted(a - b)[:2]} only implementation {sorted(b - a)[:2]}')
    elif kind == 'step':
        if canon_store(m['store']) != impl['store']:
            a, b = set(canon_store(m['store'])), set(impl['store'])
            bad.append(f'object map differs: only in model {sorted(a - b)[:2]}, only in implementation {sorted(b - a)[:2]}')
        if (m['error'] or None) != impl['error']:
            bad.append(f'error kind: model {m["error"]} implementation {impl["error"]}')
        if req['cmd']['kind'] == 'snapshot' and sorted(tuple(x) for x in m['uploaded']) != [tuple(x) for x in impl['uploaded']]:
            bad.append('uploaded chunk set differs')
    elif kind == 'list':
        if (m.get('error') or None) != impl['error']:
            bad.append(f'list: error model {m.get("error")} implementation {impl["error"]}')
        elif impl['rows'] is not None:
            md = [[x[0], x[2]] for x in m['rows'] if x[1] is not None]
            mn = sorted(x[0] for x in m['rows'] if x[1] is None)
            if [md, mn] != impl['rows']:
                bad.append(f'list: rows differ: model {[md, mn]} implementation {impl["rows"]}')
    elif kind == 'listfiles':
        if (m.get('error') or None) != impl['error']:
            bad.append(f'listfiles: error model {m.get("error")} implementation {impl["error"]}')
        elif impl['rows'] is not None and m['rows'] != impl['rows']:
            bad.append(f'listfiles: rows differ: model {m["rows"][:4]} implementation {impl["rows"][:4]}')
    elif kind == 'restore':
        if (m.get('error') or None) != impl['error']:
            bad.append(f'restore: error model {m.get("error")} implementation {impl["error"]}')
        elif impl['files'] is not None:
            mf = sorted([f[0], f[1]] for f in m['files'])
            if mf != impl['files']:
                bad.append(f'restore: restored file versions differ: model {mf[:5]} implementation {impl["files"][:5]}')
    return bad


def _events(ops):
    """abstracted operations of one real store → the operations that are visible as events (reads dropped, the mkdir recursion of
    `mkdir(parents=True)` collapsed); None if something outside the vocabulary of the model happened"""
    out = []
    for op in ops:
        if op[0] == 'read':
            continue
        if op[0] == 'mkdir':
            if op[1] != 'dir':
                return None
            if not out or out[-1] != ('mkdir',):
                out.append(('mkdir',))
        elif op[0] in ('create', 'rename', 'unlink') and all(x in ('entry', 'temp') for x in op[1:3 if op[0] == 'rename' else 2]):
            out.append(tuple(op))
        else:
            return None
    return out


def _plan_events(plan):
    """the model's plan → [(index in the plan, event)] for the operations that are visible as events (a write is not)"""
    out = []
    for i, op in enumerate(plan):
        if op[0] == 'mkdir':
            out.append((i, ('mkdir',)))
        elif op[0] == 'create':
            out.append((i, ('create', op[1], op[2])))
        elif op[0] == 'rename':
            out.append((i, ('rename', op[1], op[2])))
        elif op[0] == 'unlink':
            out.append((i, ('unlink', op[1])))
    return out


def report_kill(out, drv, kresults):
    """the kill / pause worlds (impl/c18_killcase.py): cases, counters, violations of the direct oracle, and the ties with the
    store-plan model: `cachefs.plan` (the operations of every real store == the plan the extractor read) and `cachefs.kill`
    (what a kill left under the names of the entry being stored == `CacheCmd.killed`)"""
    ties = []
    for res in kresults:
        for summary, nt in res['cases']:
            out.case(summary, nt)
        for d in res['dist']:
            out.count(d)
        for sig, what, rp in res['violations']:
            out.violation(sig, what, dict(rp, seed=out.seed))
        for what, rp in res['notes']:
            out.disagreement(what, dict(rp, seed=out.seed))
        ties += res['ties']
    if drv is None:
        return
    pl = drv.ask({'op': 'cachefs.plan'})
    plan = pl.get('plan')
    if plan is None:
        stores = [t for t in ties if t[0] == 'plan' and _events(t[1]['ops'])]
        if stores:
            out.disagreement('store plan: the extractor did not recognise _store_cached; a real store performed ' + str(_events(stores[0][1]['ops'])),
                             dict(stores[0][2], seed=out.seed))
        return
    pev = _plan_events(plan)
    reqs, meta = [], []
    for kind, t, rp in ties:
        ev = _events(t['ops'])
        if kind == 'plan':
            if ev == []:
                out.count('tie:fs-plan:entry-read-only')
                continue
            out.count('tie:fs-plan')
            if ev != [e for _, e in pev]:
                out.disagreement(f'store plan: a real store performed {ev} but the plan read from _store_cached is {plan}', dict(rp, seed=out.seed))
            elif t['entry_done'] != 'valid' and pl.get('effective') and not (t['entry_done'] == 'missing' and t.get('evicted')):
                out.disagreement(f'store plan: after a completed store the entry is {t["entry_done"]}', dict(rp, seed=out.seed))
            else:
                out.traces_validated += 1
            continue
        # kind == 'kill': position of the kill in the plan
        if ev is None or not ev:
            out.count('tie:fs-kill:outside-a-store')
            continue
        before, inside_mkdir = ev[:-1], False
        raw = [op for op in t['ops'] if op[0] != 'read']
        if len(raw) >= 2 and raw[-1][0] == 'mkdir' and raw[-2][0] == 'mkdir':
            before, inside_mkdir = ev[:-1], True           # (collapsed: the mkdir at hand is the last element of ev) killed inside the recursion
        if before != [e for _, e in pev][:len(before)] or len(before) >= len(pev):
            out.count('tie:fs-kill:not-comparable')
            continue
        k = pev[len(before)][0]
        tear = None
        if t['mode'] == 'tear':
            if ev[-1][0] != 'create' or t['limit'] >= t['size'] or k + 1 >= len(plan) or plan[k + 1][0] != 'write':
                out.count('tie:fs-kill:not-comparable')
                continue
            k, tear = k + 1, (0 if t['limit'] >= 1 else None)
        base = {'op': 'cachefs.kill', 'entry': t['entry_pre'], 'temp': 'missing', 'parent': bool(t['parent_pre']) and not inside_mkdir, 'k': k}
        variants = [dict(base, tear=tear)]
        if t['mode'] == 'tear':
            # the limit is armed for the whole process just before the open: the write of ANOTHER loader thread may take the signal
            # first — then this store got as far as its open (empty file), or not even that
            variants += [dict(base, tear=None), dict(base, k=k - 1, tear=None)]
        reqs += variants
        meta.append((t, rp, len(variants)))
    replies = drv.ask_many(reqs) if reqs else []
    i = 0
    for t, rp, n in meta:
        ms = replies[i:i + n]
        i += n
        real = (t['entry_left'], t['temp_left'] or 'missing')
        out.count('tie:fs-kill:' + t['mode'])
        if any(m.get('error') is None and (m.get('entry'), m.get('temp')) == real for m in ms):
            out.traces_validated += 1
        else:
            out.disagreement(f'kill state: after a {t["mode"]} at {t["ops"][-1]} (limit {t["limit"]}) the entry / temporary are {real} but the model of the plan gives '
                             f'{[(m.get("entry"), m.get("temp"), m.get("error")) for m in ms]} (entry before: {t["entry_pre"]})', dict(rp, seed=out.seed))


def run(out, drv, info):
    quick = out.tier == 'quick'
    n_hist, n_ops = (96, 12) if quick else (1600, 16)
    out.rule = ('case = one command (snapshot/delete/clean/list-snapshots/list-files/restore, with regexes) of a history on a real repository (encrypted with owner/clone/'
                'shared/independent keys, or unencrypted; 5 chunkings; sync/async backend; concurrency 1–5) run by a client whose cache directory layout is '
                '{none, fresh, shared (+ another repository\'s entries), separate, mixed} after rewriting entries to {missing, empty, prefix at one of 8 cut points, another '
                'snapshot, another repository\'s snapshot, garbage, extended, bit flip, valid, stale}; the client is per-command (a new Repository object for every command, the CLI) '
                'or long-lived (ONE Repository object per (user, cache directory) and one event loop for the whole history — about half of the histories — so that entries the object '
                'validated / downloaded and stored / evicted in its earlier commands are damaged or replaced by other clients before its next command; its loading stage also runs on '
                'the object itself); plus a sweep of one entry through all 13 states (one object for the whole sweep in a long-lived history); '
                'non-trivial = the command reads ≥ 1 invalid (truncated / substituted / garbage) entry of a listed, visible, matching snapshot and ≥ 2 snapshots are listed; '
                'distinct = hash of (command, user kind, layout, tamper multiset with cut index, class, regex shape, #listed, kind of client, #earlier commands of the object capped at 4, '
                'classes of the entries damaged after the object used them).  '
                'KILL / PAUSE WORLDS: case = one later command (or one second-client command) after a real victim command {list-snapshots, list-files, restore, delete, clean} '
                'run in a child process on a {cold, cold + another repository\'s entries, warm, partially damaged} cache directory was (kill) SIGKILLed before mutating '
                'file-system operation #k inside the cache directory, for every k (quick tier: ≤ 6 sampled), (tear) terminated by the kernel after L ∈ {0, 1, half, all-but-1} bytes of '
                'the write that follows an open-for-writing, (pause) SIGSTOPped before operation #k while a second client (another key of the repository, or the same user) ran '
                '{list-snapshots, list-files, restore} on the same directory, then resumed; the directory is kept exactly as left (entries, siblings, temporaries, directories); '
                'later commands = same user, second client sharing the directory, delete / clean; non-trivial = the process was really killed and left something new '
                '(or was really paused before an operation); distinct = hash of (repository shape, pre-state, victim, mode, operation at hand, cut, classes of what was left, later commands)')
    out.assumptions = ['ideal hash: a payload whose digest equals a snapshot name is that snapshot (hypothesis `Agree`/`Ideal` of the theorems)',
                       'the repository objects themselves are intact (WF; corruption of repository objects is C04)',
                       'states of the cache DIRECTORY STRUCTURE that replicat itself cannot produce (unreadable / unwritable directory, a directory where a file is expected, files planted by '
                       'other programs) are outside the property\'s quantifier; whatever a killed / paused run of replicat leaves next to the entries is inside (kill / pause worlds)',
                       'kill points are the file-system operations CPython reports through audit events (open / rename / remove / mkdir / …) plus kernel-terminated writes; '
                       'no fsync / power-loss reordering model (as C03)',
                       'other clients sharing a directory only create, replace or evict entries and their own temporaries (hypothesis `EnvOk` of `store_never_fails`)',
                       'CPython, pathlib, threads, cryptography, hashlib']
    args = [(out.seed, i, out.tier, n_ops) for i in range(n_hist)]
    n_kill = 40 if quick else 480
    kargs = [(out.seed, i, out.tier) for i in range(n_kill)]
    with mp.get_context('fork').Pool(min(16, os.cpu_count() or 4)) as pool:
        kres = pool.map_async(run_kill_case, kargs, chunksize=1)
        results = pool.map(run_case, args, chunksize=1)
        kresults = kres.get()
    report_kill(out, drv, kresults)
    reqs, meta = [], []
    for res in results:
        for summary, nt in res['cases']:
            out.case(summary, nt)
        for d in res['dist']:
            out.count(d)
        out.count('layout-of-history:' + res['cfg']['layout'])
        out.count('client-of-history:' + res['cfg']['client'])
        for sig, what, rp in res['violations']:
            out.violation(sig, what, dict(rp, seed=out.seed))
        for what, rp in res['notes']:
            out.disagreement(what, dict(rp, seed=out.seed))
        for req, impl, kind, rp in res['model']:
            reqs.append(req)
            meta.append((impl, kind, rp))
    if drv is not None:
        replies = drv.ask_many(reqs)
        for req, (impl, kind, rp), m in zip(reqs, meta, replies):
            bad = compare_model(kind, req, impl, m)
            out.count('tie:' + kind)
            if bad:
                out.disagreement(f'{kind}: ' + '; '.join(bad[:3]), dict(rp, seed=out.seed, request_digest=digest(req)))
            else:
                out.traces_validated += 1


def replay_kill(rp, drv):
    """re-run the kill / pause world of the replay (same repository shape, pre-state, victim and users; every kill point, every torn
    write and every pause point is explored again — names of encrypted objects and thread interleavings differ from run to run)"""
    from .. import common
    print('recorded:', rp.get('mode'), 'at operation', rp.get('at'), rp.get('before'), '| files left / seen:',
          {k[-24:]: (None if v is None else len(v) // 2) for k, v in (rp.get('left') or rp.get('seen') or {}).items()})
    with mp.get_context('fork').Pool(1) as pool:
        res = pool.apply(run_kill_case, ((rp.get('seed', 0), rp['idx'], rp.get('tier', 'quick')),))
    print('kill world', res.get('cfg'))
    for v in res['violations']:
        print('violation', v[0], v[1][:600])
    out = common.Outcome('C18', rp.get('tier', 'quick'), rp.get('seed', 0))
    report_kill(out, drv, [dict(res, violations=[])])
    for dis in out.disagreements:
        print('disagreement', dis['what'][:400])
    return 1 if (res['violations'] or out.disagreements) else 0


def replay(path, drv):
    d = json.load(open(path))
    rp = d.get('replay', d)
    if rp.get('kind') == 'kill':
        return replay_kill(rp, drv)
    if rp.get('kind') != 'case':
        print('replay kind not supported (proof/tie failure without a concrete input: rebuild and re-run the check)')
        return 2
    n_ops = 12 if rp.get('tier', 'quick') == 'quick' else 16
    # in a child process: a failing load can leave loader threads of the real code parked for ever, which would block interpreter exit
    with mp.get_context('fork').Pool(1) as pool:
        res = pool.apply(run_case, ((rp.get('seed', 0), rp['idx'], rp.get('tier', 'quick'), n_ops),))
    print('history', res['cfg'])
    for v in res['violations']:
        print('violation', v[0], v[1])
    bad = 0
    if drv is not None:
        for req, impl, kind, _ in res['model']:
            b = compare_model(kind, req, impl, drv.ask(req))
            if b:
                bad += 1
                print('disagreement', kind, b[:2])
    for what, _ in res['notes']:
        print('note', what)
    return 1 if (res['violations'] or bad or res['notes']) else 0
