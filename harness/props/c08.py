"""C08 — garbage collection is complete and confined to the caller's own data.

Tie: (1) the random histories of `impl/history.py` (own seed label): states with orphaned chunks (what an interrupted snapshot
leaves), several key families and a stray object; every real `delete_snapshots` / `clean` is compared with the Lean model
`repo.step` (object map after, error kind) and its backend trace with `trace.accepts`;
(2) the location format: the REAL `Repository.get_chunk_location / parse_chunk_location / get_snapshot_location /
parse_snapshot_location` versus `format.*` of the compiled model on hex and non-hex names/tags of all lengths and on malformed
locations (error class included), and the real digest → location → parse → tag-check path that `clean` uses.
Theorems: Properties/C08.lean (`delete_complete`, `delete_only_requested`, `clean_no_orphans`, `clean_exact`, `gc_frame`,
`clean_keeps_snapshots`, `location_roundtrip`, `snapshot_location_roundtrip`, `location_injective`).

(3) the REAL local backend (`impl/c08_localgc.py`): generated directory trees handed to the real `Local.clean()` and real repositories on
`replicat.backends.local.Local` with foreign objects of every name shape outside the two areas (`*.tmp`, look-alikes of `data` / `snapshots` /
`config`, dot-files, very long names, empty objects, empty and emptied directories), histories in which `clean` really deletes orphans so
that the backend's own clean-up runs; every `Local.clean()` call is compared with `localclean.run` (ReplicatModel/LocalClean.lean), every
command with `repo.step`.  Theorems `local_clean_keeps_files`, `local_clean_removes_exactly_fileless_dirs`, `local_clean_keeps_ancestors`,
`local_clean_idempotent`, `local_clean_scan_order_irrelevant`, `local_gc_frame` (they consume `Gen.localCleanFileRemovers / DirRemovers / NonDirFlags`).

Direct oracles on the REAL backend after every delete / clean: chunks referenced only by the deleted snapshots are gone, exactly
the requested snapshot objects are gone, nothing unrelated is removed; after clean the caller's chunk objects are exactly the
previously stored ones that a remaining snapshot references; config, stray objects and (encrypted) other families' objects are
bit-identical; `parse(build(name, tag)) == (name, tag)` for hex strings with |tag| ≥ 4 (chunks) / ≥ 2 (snapshots); on the local backend
every foreign file is still a regular file with identical bytes after every command and after every `Local.clean()`, and `clean` completes.

(4) delete / clean over a LISTING THAT FAILS OR IS SILENTLY PARTIAL (`impl/c02_listing.py`, own cases): real local backend with one directory
that cannot be scanned (interposed OSError of every class, once or every time; iteration cut after k entries; entry type tests failing; REAL
chmod 000 under another uid) and memory backends whose `list_files` raises; tie `repolist.step`.  Oracle: a `clean` that reports success although
the fault fired has left no chunk object of the caller's family that no stored snapshot references (`gc:listing-fault:clean-reported-complete-
but-orphans-left:*`), and every stored snapshot still restores (`history:listing-fault:*`).
"""
import json

from ..common import rng_for
from ..impl import c02_listing as LS
from ..impl import c08_localgc as LG
from ..impl import histx as X
from ..impl import runner as R

ORACLES = {'c08'}
EXTRA = [X.c08_oracles]
HEX = '0123456789abcdef'


def gen_str(r, kind):
    if kind == 'hex':
        n = r.choice([0, 1, 2, 3, 4, 5, 6, 8, 32, 64, 128])
        return ''.join(r.choice(HEX) for _ in range(n))
    n = r.choice([0, 1, 2, 3, 4, 5, 7, 12])
    return ''.join(r.choice(HEX + '-/-/gZ._') for _ in range(n))


def gen_location(r, prefix):
    k = r.random()
    body = ''.join(r.choice('0123456789abcdef--//') for _ in range(r.choice([0, 1, 3, 6, 10, 20])))
    if k < 0.6:
        return prefix + body
    if k < 0.75:
        return prefix[:-1] + body
    if k < 0.85:
        return body
    return '/' + prefix + body


def impl_parse(fn, loc):
    try:
        p = fn(loc)
        return {'name': p.name, 'tag': p.tag, 'error': None}
    except ValueError:
        return {'error': 'value_error'}
    except IndexError:
        return {'error': 'index_error'}
    except Exception as e:  # noqa: BLE001
        return {'error': 'other:' + type(e).__name__}


def format_cases(out, drv, n):
    """→ number of disagreements"""
    r = rng_for(out.seed, 'C08-format')
    repo = R.new_repo(R.MemBackend())
    reqs, meta = [], []
    for i in range(n):
        kind = 'hex' if r.random() < 0.7 else 'any'
        name, tag = gen_str(r, kind), gen_str(r, kind)
        if kind == 'hex' and r.random() < 0.5:
            tag = ''.join(r.choice(HEX) for _ in range(r.choice([4, 6, 32, 64, 128])))
        for which, build, parse, minlen in (('chunk', repo.get_chunk_location, repo.parse_chunk_location, 4),
                                            ('snapshot', repo.get_snapshot_location, repo.parse_snapshot_location, 2)):
            loc = build(name=name, tag=tag)
            back = impl_parse(parse, loc)
            ishex = all(c in HEX for c in name + tag)
            case = {'which': which, 'name': name, 'tag': tag}
            nontrivial = ishex and len(tag) >= minlen and len(name) > 0
            out.case(case, nontrivial)
            out.count(f'format:{which}:' + ('hex' if ishex else 'non-hex') + (':tag>=%d' % minlen if len(tag) >= minlen else ':short-tag'))
            if ishex and len(tag) >= minlen:
                # direct oracle: the property's own statement on the real functions
                if back.get('error') or back.get('name') != name or back.get('tag') != tag:
                    out.violation(f'format:{which}-location-roundtrip', f'parse({which} location of name={name!r}, tag={tag!r}) = {back}, location {loc!r}',
                                  {'kind': 'format', 'which': which, 'name': name, 'tag': tag})
                if not loc.startswith(repo.CHUNK_PREFIX if which == 'chunk' else repo.SNAPSHOT_PREFIX):
                    out.violation(f'format:{which}-location-outside-area', f'location {loc!r} does not start with the area prefix', {'kind': 'format', 'which': which, 'name': name, 'tag': tag})
            reqs.append({'op': f'format.{which}_location', 'name': name, 'tag': tag})
            meta.append(('build', case, {'location': loc}))
            reqs.append({'op': 'format.parse_' + which, 'location': loc})
            meta.append(('parse', {'which': which, 'location': loc}, back))
        for which, parse, prefix in (('chunk', repo.parse_chunk_location, repo.CHUNK_PREFIX), ('snapshot', repo.parse_snapshot_location, repo.SNAPSHOT_PREFIX)):
            if r.random() < 0.5:
                loc = gen_location(r, prefix)
                out.count(f'format:{which}:malformed-location')
                reqs.append({'op': 'format.parse_' + which, 'location': loc})
                meta.append(('parse', {'which': which, 'location': loc}, impl_parse(parse, loc)))
    bad = 0
    if drv is not None:
        for req, (kind, case, impl), m in zip(reqs, meta, drv.ask_many(reqs)):
            if kind == 'build':
                ok = m.get('location') == impl['location']
            else:
                ok = (m.get('error') or None) == impl.get('error') and (impl.get('error') is not None or (m.get('name') == impl['name'] and m.get('tag') == impl['tag']))
            if ok:
                out.traces_validated += 1
            else:
                bad += 1
                out.disagreement(f'format {kind} {case}: model {m} implementation {impl}', {'kind': 'format-tie', 'request': req})
    return bad


def own_chunk_cases(out, n):
    """what `clean` relies on: for a real unlocked repository, the location built for a digest parses back to (name, tag) and the
    tag verifies under the repository's MAC key; under an independent key it does not"""
    r = rng_for(out.seed, 'C08-own')
    with R.Scratch('c08_own') as sc:
        from ..impl.world import World
        w = World(sc, enc=True, chunking=(8, 32))
        other = w.add_user('independent', 0)
        shared = w.add_user('shared', 0)
        repos = [w.repo(0), w.repo(other), w.repo(shared)]
        for i in range(n):
            digest = r.randbytes(r.choice([16, 32, 64]))
            for which in ('chunk', 'snapshot'):
                a = repos[0]
                loc = a._chunk_digest_to_location(digest) if which == 'chunk' else a.get_snapshot_location(**a._snapshot_digest_to_location_parts(digest)._asdict())
                out.case({'own': which, 'digest_len': len(digest)}, True)
                out.count(f'format:{which}:real-digest-location')
                for k, rp in enumerate(repos):
                    try:
                        name, tag = (rp.parse_chunk_location if which == 'chunk' else rp.parse_snapshot_location)(loc)
                        ok = rp.props.mac(bytes.fromhex(name)) == bytes.fromhex(tag)
                    except Exception as e:  # noqa: BLE001
                        ok = 'error:' + type(e).__name__
                    want = k != 1
                    if ok is not want:
                        out.violation(f'format:own-{which}-recognition', f'{which} location {loc!r} of family 1: tag check by user #{k} gives {ok}, expected {want}',
                                      {'kind': 'own', 'digest': digest.hex(), 'which': which})


def faulty_delete_case(arg):
    """"when delete COMPLETES, every chunk referenced only by the deleted snapshots is gone": one backend deletion of such a chunk
    fails for good — then delete must not report completion (it may raise), or the chunk must be gone after all."""
    seed, idx = arg
    from .. import common
    from ..impl import runner as R
    from ..impl.world import World
    common.use_rebuilt_chunker()
    r = rng_for(seed, 'C08-fault', idx)
    res = {'idx': idx, 'violations': [], 'summary': {}}
    with R.Scratch('c08f_%d' % idx) as sc:
        enc = r.random() < 0.7
        w = World(sc, enc=enc, chunking=r.choice([(8, 32), (16, 64)]), concurrent=r.choice([1, 2, 5]), async_backend=r.random() < 0.3)
        shared = r.randbytes(r.choice([40, 90, 200]))
        a = w.snapshot(0, {'shared': shared, 'only_a': r.randbytes(r.choice([60, 150, 300]))})
        b = w.snapshot(0, {'shared': shared})
        ref_a = set(w.snap_by_sid[a['sid']]['body']['chunks'])
        ref_b = set(w.snap_by_sid[b['sid']]['body']['chunks'])
        only_a = sorted(ref_a - ref_b)
        if not only_a:
            res['summary'] = {'fault': None}
            return res
        victim_cid = r.choice(only_a)
        victim = next(loc for loc, (f, c) in w.chunk_names.items() if c == victim_cid and loc in w.backend.objects)
        state = {'n': 0}
        # ---- the same on the REAL local backend with a failure of the operating system: the file of ONE object — a chunk of the deleted
        #      snapshot, or the snapshot object itself — cannot be unlinked, for good (EPERM: an immutable file, a sticky directory of another
        #      owner; EACCES: a read-only directory; EBUSY; EROFS)
        rk = rng_for(seed, 'C08-fault-kind', idx)
        variant = rk.choice(['mem', 'local-chunk', 'local-snapshot', 'local-snapshot']) if not isinstance(w.backend, R.AsyncMemBackend) else 'mem'
        if variant != 'mem':
            import errno
            import os as _os
            from ..impl import crashkit as C
            C.no_backoff_sleep()
            root = sc.dir('repo')
            C.materialize(dict(w.backend.objects), root)
            w.backend = C.make_dir_backend(root)
            snap_loc = w.snap_by_sid[a['sid']]['location']
            target = victim if variant == 'local-chunk' else snap_loc
            tpath = _os.path.realpath(_os.path.join(str(root), target))
            en = rk.choice(['EPERM', 'EACCES', 'EBUSY', 'EROFS'])
            real_unlink, real_remove = _os.unlink, _os.remove

            def refusing(real):
                def f(path, *a_, **kw):
                    try:
                        same = _os.path.realpath(_os.fsdecode(_os.fspath(path))) == tpath
                    except (TypeError, ValueError):
                        same = False
                    if same:
                        state['n'] += 1
                        raise OSError(getattr(errno, en), _os.strerror(getattr(errno, en)), _os.fspath(path))
                    return real(path, *a_, **kw)
                return f
            _os.unlink, _os.remove = refusing(real_unlink), refusing(real_remove)
            try:
                out = w.delete(0, [a['sid']])
            finally:
                _os.unlink, _os.remove = real_unlink, real_remove
            left = sorted(c for loc, (f, c) in w.chunk_names.items() if loc in w.backend.objects and c in only_a)
            snap_left = snap_loc in w.backend.objects
            res['summary'] = {'fault': variant + ':' + en, 'enc': enc, 'only_a': len(only_a), 'delete_error': out['error'], 'left': len(left), 'fault_hits': state['n'],
                              'snapshot_left': snap_left}
            if out['error'] is None and state['n']:
                if variant == 'local-chunk' and left:
                    res['violations'].append(('gc:delete-reported-complete-but-chunks-left',
                                              f'delete on the local backend returned normally although unlink of a chunk file fails with {en}; {len(left)} chunk(s) referenced only by the deleted snapshot remain'))
                if snap_left:
                    e2, tree = w.restore(0, snapshot_regex='^' + w.snap_by_sid[a['sid']]['name'] + '$')
                    res['violations'].append(('gc:delete-reported-complete-but-snapshot-left',
                                              f'delete on the local backend returned normally although unlink of the snapshot object fails with {en}: the snapshot is still stored and listed'
                                              + (f', {len(only_a) - len(left)} of its {len(only_a)} exclusive chunks are gone and it no longer restores ({e2 or "content differs"})'
                                                 if (e2 is not None or tree != w.snap_by_sid[a['sid']]['truth']) else ' (it still restores)')))
            return res

        def fault(op, name):
            if op == 'del' and name == victim:
                state['n'] += 1
                return RuntimeError('injected: backend refuses to delete %s' % name[:16])
            return None
        w.backend.fault = fault
        out = w.delete(0, [a['sid']])
        w.backend.fault = None
        left = sorted(c for loc, (f, c) in w.chunk_names.items() if loc in w.backend.objects and c in only_a)
        res['summary'] = {'fault': 'chunk-delete', 'enc': enc, 'only_a': len(only_a), 'delete_error': out['error'], 'left': len(left), 'fault_hits': state['n']}
        if out['error'] is None and left:
            res['violations'].append(('gc:delete-reported-complete-but-chunks-left',
                                      f'delete returned normally although the backend refused to remove a chunk referenced only by the deleted snapshot; {len(left)} such chunk(s) remain'))
    return res


def faulty_load_case(arg):
    """a destructive command whose view of the snapshots is incomplete because ONE snapshot download returned wrong bytes (a
    transient short read): it must fail, or leave every chunk referenced by a stored snapshot in place — never garbage-collect
    the chunks of a snapshot it could not read."""
    seed, idx = arg
    from .. import common
    from ..impl import runner as R
    from ..impl.world import World
    common.use_rebuilt_chunker()
    r = rng_for(seed, 'C08-load', idx)
    res = {'idx': idx, 'violations': [], 'summary': {}}
    with R.Scratch('c08l_%d' % idx) as sc:
        enc = r.random() < 0.7
        w = World(sc, enc=enc, chunking=r.choice([(8, 32), (16, 64)]), concurrent=r.choice([1, 2, 5]), async_backend=False)
        shared = r.randbytes(r.choice([40, 90, 200]))
        a = w.snapshot(0, {'shared': shared, 'only_a': r.randbytes(r.choice([60, 150, 300]))})
        b = w.snapshot(0, {'shared': shared, 'only_b': r.randbytes(r.choice([30, 80]))})
        victim = w.snap_by_sid[a['sid']]['location']
        state = {'n': 0}
        orig = w.backend.download

        def download(name):
            data = orig(name)
            if name == victim and state['n'] == 0:
                state['n'] += 1
                return data[:max(1, len(data) // 2)]       # short read, once
            return data
        w.backend.download = download
        cmd = r.choice(['clean', 'delete'])
        out = w.clean(0) if cmd == 'clean' else w.delete(0, [b['sid']])
        w.backend.download = orig
        need = set(w.snap_by_sid[a['sid']]['body']['chunks'])
        have = {c for loc, (f, c) in w.chunk_names.items() if loc in w.backend.objects}
        lost = sorted(need - have)
        res['summary'] = {'fault': 'snapshot-short-read', 'cmd': cmd, 'enc': enc, 'error': out['error'], 'lost': len(lost), 'fault_hits': state['n']}
        if victim in w.backend.objects and lost:
            res['violations'].append(('gc:removed-chunks-of-unreadable-snapshot',
                                      f'{cmd} ran while one snapshot download returned a short read (outcome: {out["error"] or "completed"}); {len(lost)} chunk(s) referenced by that still stored snapshot were removed'))
    return res


def run(out, drv, info):
    quick = out.tier == 'quick'
    n_hist, n_ops = (120, 12) if quick else (1000, 30)
    out.rule = ('history cases as in C02 (own seed label); non-trivial = a successful delete or clean in a state with ≥ 1 orphaned chunk or ≥ 1 object of another key family; '
                'format cases = (name, tag) from hex strings of length 0–128 and strings with - / and non-hex characters, both location kinds, plus malformed locations '
                '(missing / shifted prefix, random - and /); non-trivial = non-empty hex name and hex tag of the stated minimum length; distinct = hash of the case; '
                'local-backend cases = directory trees (area content, emptied fan-out directories, stray files / directories drawn from the name-shape universe of '
                'impl/c08_localgc.py) given to the real Local.clean(), non-trivial = ≥ 1 stray object and ≥ 1 directory without a file below it; and histories on the real '
                'Local backend with strays planted before and during the history, non-trivial = the backend clean-up ran (a clean deleted ≥ 1 orphan) with ≥ 1 stray present')
    out.assumptions = ['ideal cryptography: MAC names injective per key family, tags unforgeable (DESIGN.md §4)',
                       'the chunk and snapshot areas contain only objects written by replicat (well-formed object map)',
                       'destructive commands do not overlap with other commands', 'unencrypted repository = one family: every object under data/ is the caller\'s',
                       'local backend: the repository directory holds regular files and directories only (no symbolic links, devices, other mount points); '
                       'a directory is not an object — empty directories of the user are removed by the clean-up (counted as an observation)']
    X.run(out, drv, 'C08', n_hist, n_ops, ORACLES, X.c08_nontrivial, EXTRA)
    format_cases(out, drv, 400 if quick else 6000)
    own_chunk_cases(out, 40 if quick else 400)
    import multiprocessing as mp
    import os
    with mp.get_context('fork').Pool(min(16, os.cpu_count() or 4)) as pool:
        fres = pool.map(faulty_delete_case, [(out.seed, i) for i in range(24 if quick else 300)], chunksize=2)
        lres = pool.map(faulty_load_case, [(out.seed, i) for i in range(24 if quick else 300)], chunksize=2)
    for res in fres:
        out.case(res['summary'], res['summary'].get('fault') is not None)
        out.count('faulty-delete:' + str(res['summary'].get('delete_error') if res['summary'].get('fault') else 'no-exclusive-chunk'))
        for sig, what in res['violations']:
            out.violation(sig, what, {'kind': 'faulty-delete', 'seed': out.seed, 'idx': res['idx']})
    for res in lres:
        out.case(res['summary'], True)
        out.count('faulty-load:%s:%s' % (res['summary'].get('cmd'), res['summary'].get('error')))
        for sig, what in res['violations']:
            out.violation(sig, what, {'kind': 'faulty-load', 'seed': out.seed, 'idx': res['idx']})
    # delete / clean over a listing that fails or is silently partial (the stream of impl/c02_listing.py on its own cases): a clean that
    # reports success must have been complete, and whatever the outcome nothing of anybody else's may be gone
    with mp.get_context('fork').Pool(min(16, os.cpu_count() or 4)) as pool:
        gres = pool.map(LS.listing_case, [(out.seed, 100000 + i, out.tier) for i in range(24 if quick else 200)], chunksize=1)
    for res in gres:
        LS.account(res, out, drv, gc=True)
    # the REAL local backend with foreign objects of every name shape outside the two areas (its own clean-up walks the whole directory)
    n_trees, n_lh, n_lops = (200, 40, 9) if quick else (3000, 400, 14)
    LG.run(out, drv, n_trees, n_lh, n_lops)


def replay(path, drv):
    return X.hard_exit(_replay(path, drv))


def _replay(path, drv):
    d = json.load(open(path))
    rp = d.get('replay', d)
    if rp.get('kind') == 'history':
        return X.replay_history(rp, drv, ORACLES, EXTRA)
    if rp.get('kind') == 'format':
        repo = R.new_repo(R.MemBackend())
        build, parse = ((repo.get_chunk_location, repo.parse_chunk_location) if rp['which'] == 'chunk' else (repo.get_snapshot_location, repo.parse_snapshot_location))
        loc = build(name=rp['name'], tag=rp['tag'])
        back = impl_parse(parse, loc)
        print('location', loc, 'parsed', back)
        return 0 if (back.get('name') == rp['name'] and back.get('tag') == rp['tag']) else 1
    if rp.get('kind') == 'listing':
        return LS.replay_listing(rp, drv)
    if rp.get('kind') in ('local-tree', 'local-history'):
        return LG.replay(rp, drv)
    if rp.get('kind') == 'format-tie':
        print('model', drv.ask(rp['request']) if drv is not None else None)
        return 1
    print('replay kind not supported:', rp.get('kind'))
    return 2
