"""Entry point:  /venv/bin/python -m harness.check <ID> --tier quick|thorough [--replay file]"""
import argparse
import importlib
import os
import sys
import traceback

from . import build, common


def _exit(code):
    """replicat leaves non-daemon worker threads blocked after a failed command; never wait for them at interpreter exit"""
    sys.stdout.flush()
    sys.stderr.flush()
    os._exit(code)


def main():
    ap = argparse.ArgumentParser()
    ap.add_argument('prop')
    ap.add_argument('--tier', default=os.environ.get('VERIF_TIER', 'quick'), choices=['quick', 'thorough'])
    ap.add_argument('--replay')
    a = ap.parse_args()
    prop = a.prop.upper()
    seed = common.seed_from_env()
    common.use_rebuilt_chunker()
    out = common.Outcome(prop, a.tier, seed)
    try:
        info = build.ensure(prop)
    except Exception:
        traceback.print_exc()
        print(f'INFRA-ERROR property={prop}: build step crashed')
        _exit(2)
    if not info.get('native_ok', True):
        print(f'INFRA-NOTE property={prop}: native rebuild failed:\n{info.get("native_log", "")[-800:]}')
    mod = importlib.import_module(f'harness.props.{prop.lower()}')
    drv = None
    try:
        if info['driver_ok']:
            drv = common.Driver()
        if a.replay:
            rc = mod.replay(a.replay, drv)
            if drv is not None:
                drv.close()
            _exit(rc)
        mod.run(out, drv, info)
        if a.tier == 'thorough' and info.get('proof_ok'):
            ok, log = mod.leanchecker(prop) if hasattr(mod, 'leanchecker') else build_leanchecker(prop)
            out.extra['leanchecker'] = 'ok' if ok else ('failed: ' + log[-500:])
            if not ok:
                info['proof_ok'] = False
                info['broken'] = ['leanchecker rejected the compiled proofs']
    except Exception:
        traceback.print_exc()
        print(f'INFRA-ERROR property={prop}: harness crashed')
        _exit(2)
    finally:
        if drv is not None:
            info['driver_requests'] = dict(drv.ops)
            drv.close()
    _exit(common.finish(out, info))


def build_leanchecker(prop):
    rc, o = build._run(['lake', 'env', 'leanchecker', f'ReplicatProofs.Properties.{prop}'], cwd=common.LEAN, timeout=3000)
    return rc == 0, o


if __name__ == '__main__':
    main()
