"""symflow.py — a small symbolic path executor over Python ASTs, shared by the extractor plug-ins
tools/sections/{05_snapqueue,06_access,14_format,15_c04_session}.py.

Why: the shape facts those plug-ins emit into `Generated.lean` must depend on WHAT the code computes (which value reaches which call,
under which conditions, after which comparison), not on HOW it is spelled (names of locals / private helpers, if/else orientation,
early returns, conditional expressions, helper methods, hoisted constants, comprehension vs loop, extra logging …).

What it does: `Analyzer.paths(fn)` enumerates the control-flow paths of one function (loops: zero or one iteration; `try`: the body,
or a handler entered from the state at the `try`; `if` / `and` / `or` / conditional expressions / `assert`: one path per outcome, a
condition already decided on a path is not forked again).  Values are TERMS (nested tuples) built from the parameters of the root
function, constants, attribute / subscript / call constructors; locals are substituted away, calls to functions whose body is known
(methods of the same class through `self`, methods and properties of `RepositoryProps` through a typed receiver, nested functions,
module-level functions, lambdas) are INLINED (bounded depth), everything else stays an uninterpreted `call` term and is logged as
an event.  Each path = ordered events (`call`, `cond`, `ret`, `raise`, `yield`, `setattr`, `try`/`except`, `loop` markers) + outcome.
`norm` rewrites terms to a handful of primitives (HASH, ENC, DEC, MAC, SUBKEY, HEX, FROMHEX, SER, DESER, BACKEND, ENCRYPTED, EQ …)
so that `self.props.hash_digest(x)`, `self.props.hasher.digest(x)` and a helper wrapping either are the same term.

Soundness stance: anything not understood raises `Unsupported` / `Budget`; the plug-ins turn that into `false` / `opaque`.
Known approximations (all in the direction "a recogniser may say false for exotic but harmless code", except where noted in the
plug-ins): one loop iteration; exceptions enter a handler from the state at `try` entry (explicit `raise` in the body: from the raise);
aliasing of mutable locals is not tracked; impure calls are equal terms unless they are randomness sources (those are numbered).
"""
import ast
import hashlib
from pathlib import Path


class Unsupported(Exception):
    pass


class Budget(Exception):
    pass


class T(tuple):
    """a term: a tuple with a cached hash; terms are interned (`I`) so that the heavy sharing produced by substituting locals
    (the same sub-term occurs many times) costs neither time nor memory"""

    def __hash__(self):
        try:
            return self._h
        except AttributeError:
            self._h = h = tuple.__hash__(self)
            return h


_TABLE = {}


def I(x):
    if type(x) is T:
        return x
    if isinstance(x, tuple):
        t = T(I(y) for y in x)
        return _TABLE.setdefault(t, t)
    return x


NONE = I(('c', None))
TRUE = I(('cb', True))
FALSE = I(('cb', False))
BOT = I(('bot',))

# public, documented extension points / serialisation entry points of Repository: never inlined, they are primitives of the model
OPAQUE_METHODS = {'get_chunk_location', 'get_snapshot_location', 'parse_chunk_location', 'parse_snapshot_location',
                  'serialize', 'deserialize', 'display_status', 'display_danger', 'read_metadata', 'restore_metadata'}
FRESH_FUNCS = ('os.urandom', 'secrets.', 'random.', 'uuid.', 'time.time', 'time.monotonic', 'time.perf_counter')
# methods of the adapter / props / bytes API whose result is a byte string (so `<result> is None` is decided)
NEVER_NONE = {'encrypt', 'decrypt', 'derive', 'digest', 'mac', 'hash_digest', 'derive_shared_subkey', 'hex', 'getvalue', 'serialize'}
SOURCE_METHODS = {'download', 'getvalue', 'getbuffer', 'read', 'read1', 'readall', 'readinto', 'read_bytes', 'read_text', 'recv'}
MUTATORS = {'append', 'add', 'update', 'setdefault', 'pop', 'extend', 'remove', 'discard', 'clear', 'insert', 'popitem', 'sort', 'reverse'}


# ----------------------------------------------------------------------------------------------------------------- module tables
class ClassInfo:
    def __init__(self, node, mod):
        self.node, self.name, self.mod = node, node.name, mod
        self.bases = [ast.unparse(b) for b in node.bases]
        self.methods, self.props, self.statics, self.classmethods, self.consts, self.fields, self.defaults = {}, {}, set(), set(), {}, [], {}
        decs = [ast.unparse(d) for d in node.decorator_list]
        self.kind = 'namedtuple' if any(b.split('.')[-1] == 'NamedTuple' for b in self.bases) else \
            ('dataclass' if any('dataclass' in d for d in decs) else 'plain')
        # a record whose fields can be assigned: reading a field gives its CURRENT value, which is not the constructor argument
        self.mutable = self.kind == 'dataclass' and not any('frozen=True' in d.replace(' ', '') for d in decs)
        for st in node.body:
            if isinstance(st, (ast.FunctionDef, ast.AsyncFunctionDef)):
                ds = [ast.unparse(d).split('(')[0].split('.')[-1] for d in st.decorator_list]
                if 'property' in ds or 'cached_property' in ds:
                    self.props[st.name] = st
                elif 'setter' in ds or 'deleter' in ds:
                    continue
                else:
                    self.methods[st.name] = st
                    if 'staticmethod' in ds:
                        self.statics.add(st.name)
                    if 'classmethod' in ds:
                        self.classmethods.add(st.name)
            elif isinstance(st, ast.AnnAssign) and isinstance(st.target, ast.Name):
                self.fields.append(st.target.id)
                if st.value is not None:
                    self.defaults[st.target.id] = st.value
            elif isinstance(st, ast.Assign) and len(st.targets) == 1 and isinstance(st.targets[0], ast.Name):
                self.consts[st.targets[0].id] = st.value


def _is_generator(fn):
    """fn's own body (not nested defs / lambdas) contains yield"""
    stack = list(fn.body)
    while stack:
        n = stack.pop()
        if isinstance(n, (ast.Yield, ast.YieldFrom)):
            return True
        if isinstance(n, (ast.FunctionDef, ast.AsyncFunctionDef, ast.Lambda, ast.ClassDef)):
            continue
        stack.extend(ast.iter_child_nodes(n))
    return False


class ModuleInfo:
    def __init__(self, key, tree):
        self.key, self.tree = key, tree
        self.funcs, self.classes, self.consts, self.imports = {}, {}, {}, {}
        self._lex = {}
        for st in tree.body:
            if isinstance(st, (ast.FunctionDef, ast.AsyncFunctionDef)):
                self.funcs[st.name] = st
            elif isinstance(st, ast.ClassDef):
                self.classes[st.name] = ClassInfo(st, self)
            elif isinstance(st, ast.Assign) and len(st.targets) == 1 and isinstance(st.targets[0], ast.Name):
                self.consts[st.targets[0].id] = st.value
            elif isinstance(st, ast.AnnAssign) and isinstance(st.target, ast.Name) and st.value is not None:
                self.consts[st.target.id] = st.value
            elif isinstance(st, (ast.Import, ast.ImportFrom)):
                self.imports.update(import_names(st))
        # parents (lexical) of every function / lambda
        self.parent = {}
        for node in ast.walk(tree):
            for ch in ast.iter_child_nodes(node):
                self.parent[ch] = node

    def lexical_funcs(self, node):
        """enclosing FunctionDefs of node, innermost first"""
        c = self._lex.get(id(node))
        if c is not None:
            return c
        c = self._lex[id(node)] = self._lexical_funcs(node)
        return c

    def _lexical_funcs(self, node):
        out = []
        n = self.parent.get(node)
        while n is not None:
            if isinstance(n, (ast.FunctionDef, ast.AsyncFunctionDef)):
                out.append(n)
            n = self.parent.get(n)
        return out

    def enclosing_class(self, node):
        n = self.parent.get(node)
        while n is not None:
            if isinstance(n, ast.ClassDef):
                return self.classes.get(n.name) if self.parent.get(n) is self.tree else None
            n = self.parent.get(n)
        return None


def import_names(st):
    """Import / ImportFrom → {local name: canonical dotted name} (relative package prefixes dropped)"""
    out = {}
    if isinstance(st, ast.Import):
        for a in st.names:
            if a.asname:
                out[a.asname] = a.name
            else:
                out[a.name.split('.')[0]] = a.name.split('.')[0]
    else:
        base = st.module or ''
        for a in st.names:
            out[a.asname or a.name] = (base + '.' if base else '') + a.name
    return out


# ----------------------------------------------------------------------------------------------------------------- state
class Frame:
    __slots__ = ('env', 'fn', 'cls', 'mod', 'parent', 'imports')

    def __init__(self, fn, cls, mod, parent):
        self.env, self.fn, self.cls, self.mod, self.parent, self.imports = {}, fn, cls, mod, parent, {}

    def copy(self):
        f = Frame(self.fn, self.cls, self.mod, self.parent)
        f.env = dict(self.env)
        f.imports = dict(self.imports)
        return f


class St:
    __slots__ = ('frames', 'events', 'known', 'heap', 'exc', 'fresh', 'tries', 'muts')

    def __init__(self):
        self.frames, self.events, self.known, self.heap, self.exc, self.fresh, self.tries = [], [], {}, {}, None, 0, 0
        self.muts = {}      # term of a mutable object before an in-place update → term after (for write-back to the caller's names)

    def fork(self):
        s = St()
        s.frames = [f.copy() for f in self.frames]
        s.events = list(self.events)
        s.known = dict(self.known)
        s.heap = dict(self.heap)
        s.exc, s.fresh, s.tries = self.exc, self.fresh, self.tries
        s.muts = dict(self.muts)
        return s


class PathResult:
    """one control-flow path of a root function"""
    __slots__ = ('kind', 'value', 'events', 'known')

    def __init__(self, kind, value, events, known):
        self.kind, self.value, self.events, self.known = kind, value, events, known

    def conds(self):
        return [(e[1], e[2]) for e in self.events if e[0] == 'cond']

    def calls(self):
        return [e[1] for e in self.events if e[0] == 'CALL']


# ----------------------------------------------------------------------------------------------------------------- the executor
class Analyzer:
    def __init__(self, modules, attr_types=None, budget=400000, max_depth=14, opaque=OPAQUE_METHODS):
        """modules: {key: ast.Module}; the FIRST key is the main module.  attr_types: {class: {attribute: class}}"""
        self.mods = {k: ModuleInfo(k, t) for k, t in modules.items()}
        self.budget, self.max_depth, self.opaque = budget, max_depth, set(opaque)
        self.attr_types = attr_types if attr_types is not None else {}
        self._cache = {}
        self._uids = {}
        self._steps = 0
        for m in self.mods.values():
            for c in m.classes.values():
                self.attr_types.setdefault(c.name, {}).update(self._infer_attr_types(c))

    # ------------------------------------------------------------------ crude attribute typing: self.a = <instance of a known class>
    def _class_named(self, name):
        for m in self.mods.values():
            if name in m.classes:
                return m.classes[name]
        return None

    def _infer_attr_types(self, cinfo):
        out = {}

        def ret_class(meth, seen):
            if meth in seen or meth not in cinfo.methods:
                return None
            fn = cinfo.methods[meth]
            cs = {expr_class(n.value, fn, seen | {meth}) for n in ast.walk(fn) if isinstance(n, ast.Return) and n.value is not None}
            return cs.pop() if len(cs) == 1 else None

        def expr_class(e, fn, seen):
            if isinstance(e, ast.Await):
                e = e.value
            if isinstance(e, ast.Call):
                f = e.func
                if isinstance(f, ast.Name) and self._class_named(f.id) is not None:
                    return f.id
                if ast.unparse(f) in ('dataclasses.replace', 'replace') and e.args:
                    return expr_class(e.args[0], fn, seen)
                if isinstance(f, ast.Attribute) and isinstance(f.value, ast.Name) and f.value.id == 'self':
                    return ret_class(f.attr, seen)
                return None
            if isinstance(e, ast.Name):
                key = ('n', e.id, id(fn))
                if key in seen:
                    return None
                cs = set()
                for n in ast.walk(fn):
                    if isinstance(n, ast.Assign) and any(isinstance(t, ast.Name) and t.id == e.id for t in n.targets):
                        cs.add(expr_class(n.value, fn, seen | {key}))
                cs.discard(None)
                return cs.pop() if len(cs) == 1 else None
            if isinstance(e, ast.Attribute) and isinstance(e.value, ast.Name) and e.value.id == 'self':
                return out.get(e.attr)
            return None

        for _ in range(2):
            for fn in cinfo.methods.values():
                for n in ast.walk(fn):
                    if isinstance(n, ast.Assign):
                        for t in n.targets:
                            if isinstance(t, ast.Attribute) and isinstance(t.value, ast.Name) and t.value.id == 'self':
                                c = expr_class(n.value, fn, frozenset())
                                if c is not None:
                                    out[t.attr] = c
        return out

    # ------------------------------------------------------------------ entry
    def uid(self, node):
        return self._uids.setdefault(id(node), len(self._uids))

    def module_of(self, node):
        for m in self.mods.values():
            if node in m.parent or node is m.tree:
                return m
        raise Unsupported('node outside known modules')

    def paths(self, fn, normalise=True):
        """all paths of fn run as a ROOT: parameters are ('p', name); free variables of nested functions are ('free', name)"""
        key = (id(fn), normalise)
        if key in self._cache:
            r = self._cache[key]
            if isinstance(r, Exception):
                raise r
            return r
        try:
            r = self._paths(fn, normalise)
        except (Unsupported, Budget, RecursionError) as e:
            self._cache[key] = e if not isinstance(e, RecursionError) else Unsupported('recursion')
            raise self._cache[key]
        self._cache[key] = r
        return r

    def _paths(self, fn, normalise):
        mod = self.module_of(fn)
        cinfo = mod.enclosing_class(fn) if mod.parent.get(fn) is not mod.tree else None
        direct_method = cinfo is not None and mod.parent.get(fn) is cinfo.node
        st = St()
        fr = Frame(fn, cinfo.name if cinfo else None, mod, None)
        st.frames.append(fr)
        a = fn.args
        names = [x.arg for x in a.posonlyargs + a.args] + ([a.vararg.arg] if a.vararg else []) + [x.arg for x in a.kwonlyargs] + ([a.kwarg.arg] if a.kwarg else [])
        for n in names:
            fr.env[n] = ('p', n)
        self._self_types = {}
        if direct_method and names and fn.name not in cinfo.statics:
            self._self_types[('p', names[0])] = cinfo.name
        elif cinfo is not None:
            # nested function inside a method: `self` is a free variable of the method's class
            self._self_types[('free', 'self')] = cinfo.name
        self._steps = 0
        if isinstance(fn, ast.Lambda):
            outs = [(s, 'raise', s.exc) if s.exc is not None else (s, 'return', v) for s, v in self.ev(fn.body, st)]
        else:
            outs = self.block(fn.body, st)
        res = []
        for s, kind, val in outs:
            if kind == 'next':
                kind, val = 'return', NONE
            ev = s.events + [('ret', val)] if kind == 'return' else s.events
            if normalise:
                ev = [norm(e) for e in ev]
                val = norm(val) if val is not None else None
            res.append(PathResult(kind, val, ev, dict(s.known)))
        return res

    def apply_paths(self, f, nargs, like):
        """paths of `f(x0, …)` for a function VALUE f (bound method, closure, lambda, ('g', dotted) reference to a function of a
        known module) taken from a path of the root function `like`"""
        if f[0] == 'g':
            for key, m in self.mods.items():
                for nm, fn in m.funcs.items():
                    if f[1] in (nm, key + '.' + nm) or f[1].endswith('.' + key + '.' + nm):
                        return self.paths(fn), [x.arg for x in fn.args.posonlyargs + fn.args.args][:nargs]
            raise Unsupported('unknown function ' + f[1])
        if f[0] not in ('fn', 'bound'):
            raise Unsupported('not a function value')
        node = self.node(f[1])
        names = [x.arg for x in node.args.posonlyargs + node.args.args]
        if f[0] == 'bound' and f[2] is not None:
            names = names[1:]
        return self.paths(node), names[:nargs]

    def tick(self, n=1):
        self._steps += n
        if self._steps > self.budget:
            raise Budget('path budget exceeded')

    # ------------------------------------------------------------------ types of terms
    def cls_of(self, t):
        if t in self._self_types:
            return self._self_types[t]
        if t[0] == 'new':
            return t[1]
        if t[0] == 'replace':
            return self.cls_of(t[1])
        if t[0] == 'attr':
            c = self.cls_of(t[1])
            if c is not None:
                return self.attr_types.get(c, {}).get(t[2])
        return None

    def find_member(self, cname, name, seen=()):
        """→ (kind, node, ClassInfo) for method / property / const looked up through the bases known in the modules"""
        c = self._class_named(cname)
        if c is None or cname in seen:
            return None
        if name in c.props:
            return ('prop', c.props[name], c)
        if name in c.methods:
            return ('method', c.methods[name], c)
        if name in c.consts:
            return ('const', c.consts[name], c)
        for b in c.bases:
            r = self.find_member(b.split('.')[-1], name, seen + (cname,))
            if r:
                return r
        return None

    # ------------------------------------------------------------------ names
    def lookup(self, st, name, fi=None):
        fi = len(st.frames) - 1 if fi is None else fi
        f = st.frames[fi]
        seen = 0
        while f is not None and seen < 32:
            seen += 1
            if name in f.env:
                return f.env[name]
            if name in f.imports:
                return ('g', f.imports[name])
            if f.parent is not None and f.parent < len(st.frames) and f.fn is not None and st.frames[f.parent].fn in f.mod.lexical_funcs(f.fn):
                f = st.frames[f.parent]
            else:
                break
        # static lexical scope: defs nested in an enclosing function, other locals of enclosing functions are free variables
        fr = st.frames[fi]
        if fr.fn is not None:
            chain = [fr.fn] + fr.mod.lexical_funcs(fr.fn)
            for enc in chain:
                n = _direct_defs(enc, fr.mod).get(name)
                if n is not None:
                    return ('fn', self.reg(n), None, None)
            for enc in chain[1:]:
                if name in _bound_names(enc):
                    return ('free', name)
        m = fr.mod
        if name in m.funcs:
            return ('fn', self.reg(m.funcs[name]), None, None)
        if name in m.classes:
            return ('cls', name)
        if name in m.imports:
            return ('g', m.imports[name])
        if name in m.consts:
            v = m.consts[name]
            if isinstance(v, ast.Constant):
                return ('c', v.value)
            return ('g', name)
        return ('g', name)

    def reg(self, node):
        self._nodes = getattr(self, '_nodes', {})
        self._nodes[id(node)] = node
        return id(node)

    def node(self, nid):
        return self._nodes[nid]

    # ------------------------------------------------------------------ statements
    def block(self, stmts, st):
        """→ [(state, kind, value)], kind ∈ next | return | raise | break | continue"""
        live = [st]
        done = []
        for stmt in stmts:
            nxt = []
            for s in live:
                for r in self.stmt(stmt, s):
                    if r[1] == 'next':
                        nxt.append(r[0])
                    else:
                        done.append(r)
            live = nxt
            if not live:
                break
        return done + [(s, 'next', None) for s in live]

    def _raise_or(self, pairs, k):
        """helper: for expression results (state, value): states carrying an exception become ('raise') outcomes"""
        out = []
        for s, v in pairs:
            if s.exc is not None:
                e, s.exc = s.exc, None
                out.append((s, 'raise', e))
            else:
                out.extend(k(s, v))
        return out

    def stmt(self, n, st):
        self.tick()
        fr = st.frames[-1]
        if isinstance(n, ast.Expr):
            if isinstance(n.value, ast.Constant):
                return [(st, 'next', None)]
            return self._raise_or(self.ev(n.value, st), lambda s, v: [(s, 'next', None)])
        if isinstance(n, ast.Assign):
            def k(s, v):
                for t in n.targets:
                    outs = self.assign(t, v, s)
                    if len(outs) != 1:
                        raise Unsupported('forking assignment target')
                    s = outs[0]
                    if s.exc is not None:
                        e, s.exc = s.exc, None
                        return [(s, 'raise', e)]
                return [(s, 'next', None)]
            return self._raise_or(self.ev(n.value, st), k)
        if isinstance(n, ast.AnnAssign):
            if n.value is None:
                return [(st, 'next', None)]
            return self._raise_or(self.ev(n.value, st), lambda s, v: [(x, 'next', None) for x in self.assign(n.target, v, s)])
        if isinstance(n, ast.AugAssign):
            op = type(n.op).__name__
            def k(s, v):
                t = n.target
                if isinstance(t, ast.Name):
                    old = self.lookup(s, t.id)
                    s.frames[-1].env[t.id] = ('bin', op, old, v)
                    return [(s, 'next', None)]
                if isinstance(t, ast.Attribute):
                    def k2(s2, b):
                        olds = self.getattr(s2, b, t.attr)
                        old = olds[0][1] if len(olds) == 1 and olds[0][0] is s2 and s2.exc is None else ('attr', b, t.attr)
                        s2.heap[(b, t.attr)] = ('bin', op, old, v)
                        s2.events.append(('augattr', b, t.attr, op, v, ('bin', op, old, v)))
                        return [(s2, 'next', None)]
                    return self._raise_or(self.ev(t.value, s), k2)
                if isinstance(t, ast.Subscript):
                    def k3(s2, bv):
                        s2.events.append(('augitem', bv[0], bv[1], op, v))
                        return [(s2, 'next', None)]
                    return self._raise_or(self.evs([t.value, t.slice], s), k3)
                raise Unsupported('augassign target')
            return self._raise_or(self.ev(n.value, st), k)
        if isinstance(n, ast.Return):
            if n.value is None:
                return [(st, 'return', NONE)]
            return self._raise_or(self.ev(n.value, st), lambda s, v: [(s, 'return', v)])
        if isinstance(n, ast.Raise):
            if n.exc is None:
                st.events.append(('raise', ('reraise',)))
                return [(st, 'raise', ('reraise',))]
            def k(s, v):
                s.events.append(('raise', v))
                return [(s, 'raise', v)]
            return self._raise_or(self.ev(n.exc, st), k)
        if isinstance(n, ast.If):
            out = []
            for s, b in self.truth(n.test, st):
                if s.exc is not None:
                    e, s.exc = s.exc, None
                    out.append((s, 'raise', e))
                else:
                    out.extend(self.block(n.body if b else n.orelse, s))
            return out
        if isinstance(n, (ast.For, ast.AsyncFor)):
            return self.for_(n, st)
        if isinstance(n, ast.While):
            return self.while_(n, st)
        if isinstance(n, (ast.With, ast.AsyncWith)):
            return self.with_(n, st, 0)
        if isinstance(n, ast.Try):
            return self.try_(n, st)
        if isinstance(n, (ast.FunctionDef, ast.AsyncFunctionDef)):
            fr.env[n.name] = ('fn', self.reg(n), len(st.frames) - 1, None)
            return [(st, 'next', None)]
        if isinstance(n, (ast.Pass, ast.Global, ast.Nonlocal)):
            return [(st, 'next', None)]
        if isinstance(n, ast.ClassDef):
            fr.env[n.name] = ('localcls', n.name)
            return [(st, 'next', None)]
        if isinstance(n, ast.Break):
            return [(st, 'break', None)]
        if isinstance(n, ast.Continue):
            return [(st, 'continue', None)]
        if isinstance(n, (ast.Import, ast.ImportFrom)):
            fr.imports.update(import_names(n))
            for k_ in import_names(n):
                fr.env.pop(k_, None)
            return [(st, 'next', None)]
        if isinstance(n, ast.Assert):
            out = []
            for s, b in self.truth(n.test, st):
                if s.exc is not None:
                    e, s.exc = s.exc, None
                    out.append((s, 'raise', e))
                elif b:
                    out.append((s, 'next', None))
                # the failing side of an assertion is not a path of interest
            return out
        if isinstance(n, ast.Delete):
            for t in n.targets:
                if isinstance(t, ast.Name):
                    fr.env[t.id] = ('deleted', t.id)
                else:
                    st.events.append(('del', ('src', ast.unparse(t))))
            return [(st, 'next', None)]
        raise Unsupported('statement ' + type(n).__name__)

    def assign(self, t, v, st):
        """bind target t to value v → [state]"""
        fr = st.frames[-1]
        if isinstance(t, ast.Name):
            fr.env[t.id] = v
            return [st]
        if isinstance(t, (ast.Tuple, ast.List)):
            if any(isinstance(e, ast.Starred) for e in t.elts):
                for e in t.elts:
                    tgt = e.value if isinstance(e, ast.Starred) else e
                    self.assign(tgt, ('unpack*', v, ast.unparse(tgt)), st)
                return [st]
            for i, e in enumerate(t.elts):
                self.assign(e, self.project(v, i, len(t.elts)), st)
            return [st]
        if isinstance(t, ast.Attribute):
            out = []
            for s, b in self.ev(t.value, st):
                if s.exc is None:
                    s.heap[(b, t.attr)] = v
                    s.events.append(('setattr', b, t.attr, v))
                out.append(s)
            return out
        if isinstance(t, ast.Subscript):
            out = []
            for s, bv in self.evs([t.value, t.slice], st):
                if s.exc is None:
                    b, k = bv
                    s.events.append(('setitem', b, k, v))
                    if isinstance(t.value, ast.Name) and t.value.id in s.frames[-1].env:
                        new = I(self.updated(b, k, v))
                        s.frames[-1].env[t.value.id] = new
                        s.muts[I(b)] = new
                out.append(s)
            return out
        raise Unsupported('assignment target ' + type(t).__name__)

    def updated(self, b, k, v):
        if b[0] == 'dict' and k[0] == 'c' and all(kk[0] == 'c' for kk, _ in b[1]):
            items = [(kk, vv) for kk, vv in b[1] if kk != k] + [(k, v)]
            if any(kk == k for kk, _ in b[1]):
                items = [(kk, (v if kk == k else vv)) for kk, vv in b[1]]
            return ('dict', tuple(items))
        return ('upd', b, k, v)

    def project(self, v, i, n):
        if v[0] in ('tuple', 'list') and len(v[1]) == n:
            return v[1][i]
        if v[0] == 'new':
            c = self._class_named(v[1])
            if c is not None and c.kind == 'namedtuple' and len(c.fields) == n:
                d = dict(v[2])
                if c.fields[i] in d:
                    return d[c.fields[i]]
        return ('sub', v, ('c', i))

    def for_(self, n, st):
        out = []
        uid = self.uid(n)
        for s, it in self.ev(n.iter, st):
            if s.exc is not None:
                e, s.exc = s.exc, None
                out.append((s, 'raise', e))
                continue
            # zero iterations
            s0 = s.fork()
            s0.events.append(('loop0', uid))
            out.extend(self.block(n.orelse, s0) if n.orelse else [(s0, 'next', None)])
            # one iteration
            s.events.append(('loop', uid))
            elems = [(s, ('elem', it))]
            if it[0] == 'call' and it[1] == ('g', 'iter') and len(it[2]) == 2:
                elems = self.apply(it[2][0], [], [], s)
            for s1, el in elems:
                if s1.exc is not None:
                    e, s1.exc = s1.exc, None
                    out.append((s1, 'raise', e))
                    continue
                for s2 in self.assign(n.target, el, s1):
                    out.extend(self._loop_body(n, s2, uid))
        return out

    def _loop_body(self, n, st, uid):
        out = []
        for s, kind, v in self.block(n.body, st):
            if kind in ('next', 'continue'):
                s.events.append(('endloop', uid))
                out.extend(self.block(n.orelse, s) if n.orelse else [(s, 'next', None)])
            elif kind == 'break':
                s.events.append(('endloop', uid))
                out.append((s, 'next', None))
            else:
                out.append((s, kind, v))
        return out

    def while_(self, n, st):
        out = []
        uid = self.uid(n)
        for s, b in self.truth(n.test, st):
            if s.exc is not None:
                e, s.exc = s.exc, None
                out.append((s, 'raise', e))
            elif not b:
                s.events.append(('loop0', uid))
                out.extend(self.block(n.orelse, s) if n.orelse else [(s, 'next', None)])
            else:
                s.events.append(('loop', uid))
                out.extend(self._loop_body(n, s, uid))
        return out

    def with_(self, n, st, i):
        if i == len(n.items):
            out = []
            for s, kind, v in self.block(n.body, st):
                s.events.append(('endwith', self.uid(n)))
                out.append((s, kind, v))
            return out
        item = n.items[i]
        out = []
        for s, c in self.ev(item.context_expr, st):
            if s.exc is not None:
                e, s.exc = s.exc, None
                out.append((s, 'raise', e))
                continue
            s.events.append(('with', self.uid(n), c))
            if item.optional_vars is not None:
                for s2 in self.assign(item.optional_vars, ('enter', c), s):
                    out.extend(self.with_(n, s2, i + 1))
            else:
                out.extend(self.with_(n, s, i + 1))
        return out

    def try_(self, n, st):
        uid = self.uid(n)
        out = []

        def fin(results):
            if not n.finalbody:
                return results
            o = []
            for s, kind, v in results:
                for s2, k2, v2 in self.block(n.finalbody, s):
                    o.append((s2, kind, v) if k2 == 'next' else (s2, k2, v2))
            return o

        def handler_paths(s, exc, explicit):
            """enter every handler that may catch exc from state s"""
            res = []
            certain = False
            for h in n.handlers:
                ht = ('c', None)
                if h.type is not None:
                    hts = self.ev(h.type, s.fork())
                    ht = hts[0][1]
                s2 = s.fork()
                s2.events.append(('except', uid, ht))
                if h.name:
                    s2.frames[-1].env[h.name] = ('exc', ht)
                res.extend(self.block(h.body, s2))
                if h.type is None or (ht[0] == 'g' and ht[1] in ('Exception', 'BaseException')) or (explicit and _exc_class(exc) == ht):
                    certain = True
                    break
            # a bare `raise` inside a handler re-raises what was caught
            return res, certain

        if n.handlers:
            pre = st.fork()
            res, _ = handler_paths(pre, None, False)
            out.extend(fin(res))
        st.events.append(('try', uid))
        st.tries += 1 if n.handlers else 0
        body = []
        for s, kind, v in self.block(n.body, st):
            s.tries -= 1 if n.handlers else 0
            if kind == 'next':
                s.events.append(('endtry', uid))
                body.extend(self.block(n.orelse, s) if n.orelse else [(s, 'next', None)])
            elif kind == 'raise' and n.handlers:
                res, certain = handler_paths(s, v, True)
                body.extend(res)
                if not certain:
                    body.append((s, kind, v))
            else:
                body.append((s, kind, v))
        out.extend(fin(body))
        return out

    # ------------------------------------------------------------------ expressions
    def evs(self, exprs, st):
        outs = [(st, [])]
        for e in exprs:
            new = []
            for s, vs in outs:
                if s.exc is not None:
                    new.append((s, vs + [BOT]))
                    continue
                for s2, v in self.ev(e, s):
                    new.append((s2, vs + [v]))
            outs = new
        return outs

    def truth(self, e, st):
        """evaluate e for its truth value → [(state, bool)]; forks on undecided atoms, short-circuits and / or / not"""
        if isinstance(e, ast.BoolOp):
            is_and = isinstance(e.op, ast.And)
            live, out = [st], []
            for sub in e.values:
                nxt = []
                for s in live:
                    for s2, b in self.truth(sub, s):
                        if s2.exc is not None:
                            out.append((s2, False))
                        elif b == is_and:
                            nxt.append(s2)
                        else:
                            out.append((s2, b))
                live = nxt
            return out + [(s, is_and) for s in live]
        if isinstance(e, ast.UnaryOp) and isinstance(e.op, ast.Not):
            return [(s, (not b) if s.exc is None else b) for s, b in self.truth(e.operand, st)]
        out = []
        for s, v in self.ev(e, st):
            if s.exc is not None:
                out.append((s, False))
            else:
                out.extend(self.decide(s, v))
        return out

    def decide(self, st, v):
        atom, pol = canon_cond(v)
        if atom[0] in ('c', 'cb'):
            return [(st, bool(atom[1]) == pol)]
        if atom[0] in ('new', 'fn', 'cls', 'lambda', 'bound'):
            return [(st, pol)]
        if atom[0] in ('dict', 'tuple', 'list', 'set'):
            return [(st, bool(atom[1]) == pol)]
        if atom[0] == 'cmp' and atom[1] == 'is' and atom[3] == NONE and atom[2][0] in ('new', 'dict', 'tuple', 'list', 'set', 'fn', 'cls', 'lambda', 'bound', 'fstr'):
            return [(st, not pol)]
        if atom[0] == 'cmp' and atom[1] == 'is' and atom[3] == NONE and atom[2][0] == 'call' and atom[2][1][0] == 'attr' \
                and atom[2][1][2] in NEVER_NONE:
            return [(st, not pol)]
        if atom in st.known:
            return [(st, st.known[atom] == pol)]
        self.tick(4)
        s2 = st.fork()
        st.known[atom] = True
        st.events.append(('cond', atom, True))
        s2.known[atom] = False
        s2.events.append(('cond', atom, False))
        return [(st, pol), (s2, not pol)]

    def ev(self, e, st):
        """→ [(state, term)]"""
        if st.exc is not None:
            return [(st, BOT)]
        self.tick()
        m = getattr(self, 'ev_' + type(e).__name__, None)
        if m is None:
            raise Unsupported('expression ' + type(e).__name__)
        return [(s, I(v)) for s, v in m(e, st)]

    def ev_Constant(self, e, st):
        # bools get their own tag: ('c', 0) == ('c', False) in Python and would be merged by the intern table
        return [(st, ('cb', e.value) if isinstance(e.value, bool) else ('c', e.value))]

    def ev_Name(self, e, st):
        return [(st, self.lookup(st, e.id))]

    def ev_Await(self, e, st):
        self._awaited = e.value
        out = []
        for s, v in self.ev(e.value, st):
            if s.exc is None and v[0] == 'coro':
                out.extend(self.apply(v[1], list(v[2]), list(v[3]), s, awaited=True))
            else:
                out.append((s, v))
        return out

    def ev_NamedExpr(self, e, st):
        out = []
        for s, v in self.ev(e.value, st):
            if s.exc is None:
                s.frames[-1].env[e.target.id] = v
            out.append((s, v))
        return out

    def ev_Attribute(self, e, st):
        out = []
        for s, b in self.ev(e.value, st):
            if s.exc is not None:
                out.append((s, BOT))
            else:
                out.extend(self.getattr(s, b, e.attr))
        return out

    def getattr(self, st, b, name):
        """→ [(state, term)] for b.name"""
        if (b, name) in st.heap:
            return [(st, st.heap[(b, name)])]
        if b[0] == 'g':
            return [(st, ('g', b[1] + '.' + name))]
        if b[0] == 'new':
            d = dict(b[2])
            c_ = self._class_named(b[1])
            if name in d and c_ is not None and c_.mutable:
                return [(st, ('attr', b, name))]
            if name in d:
                return [(st, d[name])]
            if '**' in d:
                c = self.find_member(b[1], name)
                if c is None or c[0] == 'const':
                    return [(st, ('attr', b, name))]
        if b[0] == 'replace':
            d = dict(b[2])
            if name in d:
                return [(st, d[name])]
            c = self._class_named(self.cls_of(b) or '')
            if c is not None and name in c.fields:
                return self.getattr(st, b[1], name)
        cname = self.cls_of(b)
        if b[0] == 'cls':
            cname = None
            mem = self.find_member(b[1], name)
            if mem is not None and mem[0] == 'method':
                return [(st, ('bound', self.reg(mem[1]), None if name in mem[2].statics else b, mem[2].name))]
            if mem is not None and mem[0] == 'const' and isinstance(mem[1], ast.Constant):
                return [(st, ('c', mem[1].value))]
        if cname is not None:
            mem = self.find_member(cname, name)
            if mem is not None:
                kind, node, ci = mem
                if kind == 'prop':
                    if len(st.frames) < self.max_depth and not any(f.fn is node for f in st.frames):
                        return self.inline(node, ci, {node.args.args[0].arg: b}, st)
                    return [(st, ('attr', b, name))]
                if kind == 'const' and isinstance(node, ast.Constant) and not isinstance(node.value, bool):
                    # a literal class attribute read through an instance (a value hoisted into a class constant)
                    return [(st, ('c', node.value))]
                if kind == 'method':
                    if name in self.opaque:
                        return [(st, ('attr', b, name))]
                    return [(st, ('bound', self.reg(node), None if name in ci.statics else (('cls', ci.name) if name in ci.classmethods else b), ci.name))]
        return [(st, ('attr', b, name))]

    def ev_Subscript(self, e, st):
        out = []
        for s, bv in self.evs([e.value, e.slice], st):
            if s.exc is not None:
                out.append((s, BOT))
                continue
            v = self.getitem(bv[0], bv[1])
            if s.tries > 0:
                s.events.append(('load', v if v[0] == 'sub' else ('sub', bv[0], bv[1])))
            out.append((s, v))
        return out

    def getitem(self, b, k):
        if b[0] == 'dict' and k[0] == 'c':
            for kk, vv in b[1]:
                if kk == k:
                    return vv
            if all(kk[0] == 'c' for kk, _ in b[1]):
                return ('sub', b, k)
        if b[0] == 'upd':
            if b[2] == k:
                return b[3]
            if b[2][0] == 'c' and k[0] == 'c':
                return self.getitem(b[1], k)
        if b[0] in ('tuple', 'list') and k[0] == 'c' and isinstance(k[1], int) and -len(b[1]) <= k[1] < len(b[1]):
            return b[1][k[1]]
        if b[0] == 'new' and k[0] == 'c' and isinstance(k[1], int):
            c = self._class_named(b[1])
            if c is not None and c.kind == 'namedtuple' and 0 <= k[1] < len(c.fields):
                d = dict(b[2])
                if c.fields[k[1]] in d:
                    return d[c.fields[k[1]]]
        return ('sub', b, k)

    def ev_Slice(self, e, st):
        parts = [e.lower, e.upper, e.step]
        out = []
        for s, vs in self.evs([p for p in parts if p is not None], st):
            it = iter(vs)
            out.append((s, ('slice',) + tuple(next(it) if p is not None else NONE for p in parts)))
        return out

    def _seq(self, tag, elts, st):
        out = []
        plain = [x.value if isinstance(x, ast.Starred) else x for x in elts]
        for s, vs in self.evs(plain, st):
            items = []
            for x, v in zip(elts, vs):
                if isinstance(x, ast.Starred):
                    if v[0] in ('tuple', 'list'):
                        items.extend(v[1])
                    else:
                        items.append(('star', v))
                else:
                    items.append(v)
            out.append((s, (tag, tuple(items))))
        return out

    def ev_Tuple(self, e, st):
        return self._seq('tuple', e.elts, st)

    def ev_List(self, e, st):
        return self._seq('list', e.elts, st)

    def ev_Set(self, e, st):
        return self._seq('set', e.elts, st)

    def ev_Dict(self, e, st):
        keys = [k for k in e.keys]
        out = []
        exprs = []
        for k, v in zip(keys, e.values):
            if k is not None:
                exprs.append(k)
            exprs.append(v)
        for s, vs in self.evs(exprs, st):
            it = iter(vs)
            items = []
            for k in keys:
                if k is None:
                    d = next(it)
                    if d[0] == 'dict':
                        items.extend(d[1])
                    else:
                        items.append((('c', '**'), d))
                else:
                    kk = next(it)
                    items.append((kk, next(it)))
            out.append((s, ('dict', tuple(items))))
        return out

    def ev_BinOp(self, e, st):
        return [(s, ('bin', type(e.op).__name__, vs[0], vs[1]) if s.exc is None else BOT) for s, vs in self.evs([e.left, e.right], st)]

    def ev_UnaryOp(self, e, st):
        # `not x` used as a VALUE stays symbolic (tests go through `truth`)
        if isinstance(e.op, ast.Not):
            return [(s, BOT if s.exc is not None else ('notv', v)) for s, v in self.ev(e.operand, st)]
        return [(s, BOT if s.exc is not None else ('un', type(e.op).__name__, v)) for s, v in self.ev(e.operand, st)]

    def ev_BoolOp(self, e, st):
        """`a and b` / `a or b` as a VALUE: fork on the truth of the left operands"""
        is_and = isinstance(e.op, ast.And)
        live, out = [st], []
        for i, sub in enumerate(e.values):
            last = i == len(e.values) - 1
            nxt = []
            for s in live:
                for s2, v in self.ev(sub, s):
                    if s2.exc is not None or last:
                        out.append((s2, v))
                        continue
                    for s3, b in self.decide(s2, v):
                        if b == is_and:
                            nxt.append(s3)
                        else:
                            out.append((s3, v))
            live = nxt
        return out

    def ev_Compare(self, e, st):
        exprs = [e.left] + list(e.comparators)
        out = []
        for s, vs in self.evs(exprs, st):
            if s.exc is not None:
                out.append((s, BOT))
                continue
            parts = [('cmp', _CMP[type(op).__name__], vs[i], vs[i + 1]) for i, op in enumerate(e.ops)]
            out.append((s, parts[0] if len(parts) == 1 else ('and', tuple(parts))))
        return out

    def ev_IfExp(self, e, st):
        out = []
        for s, b in self.truth(e.test, st):
            if s.exc is not None:
                out.append((s, BOT))
            else:
                out.extend(self.ev(e.body if b else e.orelse, s))
        return out

    def ev_JoinedStr(self, e, st):
        exprs = [v.value for v in e.values if isinstance(v, ast.FormattedValue)]
        out = []
        for s, vs in self.evs(exprs, st):
            it = iter(vs)
            parts = tuple(('c', v.value) if isinstance(v, ast.Constant) else ('fmt', next(it), v.conversion, ast.unparse(v.format_spec) if v.format_spec else '')
                          for v in e.values)
            out.append((s, ('fstr', parts)))
        return out

    def ev_Lambda(self, e, st):
        return [(st, ('fn', self.reg(e), len(st.frames) - 1, None))]

    def ev_Starred(self, e, st):
        return [(s, ('star', v)) for s, v in self.ev(e.value, st)]

    def ev_Yield(self, e, st):
        if e.value is None:
            st.events.append(('yield', NONE))
            return [(st, ('sent',))]
        out = []
        for s, v in self.ev(e.value, st):
            if s.exc is None:
                s.events.append(('yield', v))
            out.append((s, ('sent',)))
        return out

    def ev_YieldFrom(self, e, st):
        out = []
        for s, v in self.ev(e.value, st):
            if s.exc is None:
                s.events.append(('yieldfrom', v))
            out.append((s, ('sent',)))
        return out

    def _comp(self, kind, e, elts, st):
        """comprehension: like a loop body executed once (events of the element expression are logged), value = ('comp', kind, elt…, iters)"""
        fr = st.frames[-1]
        saved = dict(fr.env)
        states = [(st, [])]
        for g in e.generators:
            nxt = []
            for s, its in states:
                for s2, it in self.ev(g.iter, s):
                    if s2.exc is not None:
                        nxt.append((s2, its))
                        continue
                    for s3 in self.assign(g.target, ('elem', it), s2):
                        conds = [(s3, [])]
                        for c in g.ifs:
                            conds = [(s5, cs + [v]) for s4, cs in conds for s5, v in self.ev(c, s4)]
                        for s6, cs in conds:
                            nxt.append((s6, its + [('gen', it, tuple(cs))]))
            states = nxt
        out = []
        for s, its in states:
            for s2, vs in self.evs(elts, s):
                # comprehension variables do not leak
                env = s2.frames[-1].env
                for k in _comp_targets(e):
                    if k in saved:
                        env[k] = saved[k]
                    else:
                        env.pop(k, None)
                out.append((s2, ('comp', kind, tuple(vs), tuple(its))))
        return out

    def ev_ListComp(self, e, st):
        return self._comp('list', e, [e.elt], st)

    def ev_SetComp(self, e, st):
        return self._comp('set', e, [e.elt], st)

    def ev_GeneratorExp(self, e, st):
        return self._comp('gen', e, [e.elt], st)

    def ev_DictComp(self, e, st):
        return self._comp('dict', e, [e.key, e.value], st)

    # ------------------------------------------------------------------ calls
    def ev_Call(self, e, st):
        out = []
        plain_args = [a.value if isinstance(a, ast.Starred) else a for a in e.args]
        for s, vs in self.evs([e.func] + plain_args + [k.value for k in e.keywords], st):
            if s.exc is not None:
                out.append((s, BOT))
                continue
            f = vs[0]
            args = []
            for a, v in zip(e.args, vs[1:1 + len(e.args)]):
                if isinstance(a, ast.Starred):
                    if v[0] in ('tuple', 'list') and not any(x[0] == 'star' for x in v[1]):
                        args.extend(v[1])
                    else:
                        args.append(('star', v))
                else:
                    args.append(v)
            kws = []
            for k, v in zip(e.keywords, vs[1 + len(e.args):]):
                if k.arg is None:
                    if v[0] == 'dict' and all(kk[0] == 'c' and isinstance(kk[1], str) and kk[1] != '**' for kk, _ in v[1]):
                        kws.extend((kk[1], vv) for kk, vv in v[1])
                    else:
                        kws.append(('**', v))
                else:
                    kws.append((k.arg, v))
            res = self.apply(f, args, kws, s, awaited=getattr(self, '_awaited', None) is e)
            if isinstance(e.func, ast.Attribute) and e.func.attr in MUTATORS and isinstance(e.func.value, ast.Name):
                for s2, v in res:
                    env = s2.frames[-1].env
                    cur = env.get(e.func.value.id)
                    if cur is not None and cur[0] in ('dict', 'list', 'set', 'mut', 'upd'):
                        new = I(('mut', cur, e.func.attr, tuple(args)))
                        env[e.func.value.id] = new
                        s2.muts[I(cur)] = new
            out.extend(res)
        return out

    def opaque_call(self, f, args, kws, st):
        t = ('call', f, tuple(args), tuple(sorted(kws, key=lambda kv: kv[0])))
        # results that differ from call to call (randomness, data read from outside) are numbered: two downloads are two values
        if f[0] == 'g' and any(f[1] == p or (p.endswith('.') and f[1].startswith(p)) for p in FRESH_FUNCS) or \
                (f[0] == 'attr' and (f[2].startswith('generate_') or f[2] in SOURCE_METHODS)) or \
                any(a[0] == 'attr' and a[2] in SOURCE_METHODS for a in args):
            st.fresh += 1
            t = ('fresh', st.fresh, t)
        st.events.append(('CALL', t))
        return [(st, t)]

    def apply(self, f, args, kws, st, awaited=True):
        """call term f with evaluated arguments → [(state, value)]; a coroutine function that is called but not awaited on the
        spot only creates a coroutine object (its body is not part of this path)"""
        self.tick()
        star = any(a[0] == 'star' for a in args) or any(k == '**' for k, _ in kws)
        if f[0] == 'g':
            r = self.builtin(f[1], args, kws, st, star)
            if r is not None:
                return r
            return self.opaque_call(f, args, kws, st)
        if f[0] == 'cls':
            c = self._class_named(f[1])
            if c is not None and c.kind in ('namedtuple', 'dataclass') and '__init__' not in c.methods:
                if star:
                    if not args and all(k == '**' for k, _ in kws) and len(kws) == 1:
                        return [(st, ('new', c.name, (('**', kws[0][1]),)))]
                    return self.opaque_call(f, args, kws, st)
                if len(args) > len(c.fields) or any(k not in c.fields for k, _ in kws):
                    return self.opaque_call(f, args, kws, st)
                d = dict(zip(c.fields, args))
                d.update(kws)
                res = [(st, None)]
                for fld in c.fields:
                    if fld not in d and fld in c.defaults:
                        dv = c.defaults[fld]
                        d[fld] = (('cb', dv.value) if isinstance(dv.value, bool) else ('c', dv.value)) if isinstance(dv, ast.Constant) else ('default', c.name, fld)
                return [(st, ('new', c.name, tuple((fld, d[fld]) for fld in c.fields if fld in d)))]
            return self.opaque_call(f, args, kws, st)
        if f[0] == 'attr' and f[2] == '_asdict' and f[1][0] == 'new' and not args and not kws and not any(k == '**' for k, _ in f[1][2]):
            return [(st, ('dict', tuple((('c', k), v) for k, v in f[1][2])))]
        if f[0] == 'partial':
            return self.apply(f[1], list(f[2]) + list(args), list(f[3]) + list(kws), st, awaited)
        if f[0] in ('fn', 'bound'):
            node = self.node(f[1])
            selfv = f[2] if f[0] == 'bound' else None
            parent = f[2] if f[0] == 'fn' else None
            deco_ok = isinstance(node, ast.Lambda) or all(
                ast.unparse(d).split('(')[0].split('.')[-1] in ('staticmethod', 'classmethod', 'lru_cache', 'cache', 'wraps') for d in node.decorator_list)
            if isinstance(node, ast.AsyncFunctionDef) and not awaited and not _is_generator(node):
                return [(st, ('coro', f, tuple(args), tuple(kws)))]
            if (star or not deco_ok or len(st.frames) >= self.max_depth or any(fr.fn is node for fr in st.frames)
                    or (not isinstance(node, ast.Lambda) and _is_generator(node))):
                return self.opaque_call(_fn_ref(self, f), args, kws, st)
            mod = self.module_of(node)
            cinfo = self._class_named(f[3]) if f[0] == 'bound' else None
            binding = self.bind(node, ([selfv] if selfv is not None else []) + list(args), kws, st, parent)
            if binding is None:
                return self.opaque_call(_fn_ref(self, f), args, kws, st)
            return self.inline(node, cinfo, binding, st, parent)
        return self.opaque_call(f, args, kws, st)

    def bind(self, node, args, kws, st, parent):
        a = node.args
        pos = [x.arg for x in a.posonlyargs + a.args]
        env = {}
        if len(args) > len(pos) and a.vararg is None:
            return None
        for nme, v in zip(pos, args):
            env[nme] = v
        if a.vararg is not None:
            env[a.vararg.arg] = ('tuple', tuple(args[len(pos):]))
        extra = []
        ponly = {x.arg for x in a.posonlyargs}
        konly = [x.arg for x in a.kwonlyargs]
        for k, v in kws:
            if (k in pos and k not in ponly and k not in env) or k in konly:
                if k in env:
                    return None
                env[k] = v
            elif a.kwarg is not None:
                extra.append((('c', k), v))
            else:
                return None
        if a.kwarg is not None:
            env[a.kwarg.arg] = ('dict', tuple(extra))
        # defaults
        defaults = dict(zip(pos[len(pos) - len(a.defaults):], a.defaults))
        defaults.update({k.arg: d for k, d in zip(a.kwonlyargs, a.kw_defaults) if d is not None})
        for nme in pos + konly:
            if nme not in env:
                if nme not in defaults:
                    return None
                d = defaults[nme]
                if isinstance(d, ast.Constant):
                    env[nme] = ('cb', d.value) if isinstance(d.value, bool) else ('c', d.value)
                else:
                    # evaluated where the function was defined: module / class level names
                    tmp = St()
                    tmp.frames.append(Frame(None, None, self.module_of(node), None))
                    r = self.ev(d, tmp)
                    env[nme] = r[0][1] if len(r) == 1 else ('default', ast.unparse(d))
        return env

    def inline(self, node, cinfo, binding, st, parent=None):
        mod = self.module_of(node)
        fr = Frame(node, cinfo.name if cinfo else (st.frames[parent].cls if parent is not None and parent < len(st.frames) else None), mod, parent)
        fr.env.update(binding)
        st.frames.append(fr)
        if not isinstance(node, ast.Lambda):
            st.events.append(('inl', id(node)))
        depth = len(st.frames)
        if isinstance(node, ast.Lambda):
            res = [(s, 'return', v) for s, v in self.ev(node.body, st)]
            res = [(s, 'raise', s.exc) if s.exc is not None else (s, k, v) for s, k, v in res]
        else:
            res = self.block(node.body, st)
        out = []
        for s, kind, v in res:
            del s.frames[depth - 1:]
            # an argument object the callee updated in place (d[k] = v, l.append(x)): the caller's names for it see the update
            if s.muts and s.frames:
                for a in binding.values():
                    b, n = I(a), 0
                    while b in s.muts and n < 16:
                        b, n = s.muts[b], n + 1
                    if n:
                        env = s.frames[-1].env
                        for k_, v_ in list(env.items()):
                            if v_ is a or v_ == a:
                                env[k_] = b
            if kind == 'raise':
                s.exc = v
                out.append((s, BOT))
            elif kind == 'return':
                out.append((s, v))
            elif kind == 'next':
                out.append((s, NONE))
            else:
                raise Unsupported('break/continue outside loop')
        return out

    def builtin(self, name, args, kws, st, star):
        """models of a few library functions; None → treat as opaque"""
        if star:
            if name in ('dataclasses.replace', 'replace') and len(args) == 1 and len(kws) == 1 and kws[0][0] == '**':
                return [(st, ('replace', args[0], (('**', kws[0][1]),)))]
            return None
        if name in ('dataclasses.replace', 'replace') and len(args) == 1:
            return [(st, ('replace', args[0], tuple(kws)))]
        if name == 'dict':
            if not args:
                return [(st, ('dict', tuple((('c', k), v) for k, v in kws)))]
            if len(args) == 1 and args[0][0] == 'dict' and all(kk[0] == 'c' for kk, _ in args[0][1]):
                d = args[0]
                for k, v in kws:
                    d = self.updated(d, ('c', k), v)
                return [(st, d)]
            return None
        if name in ('functools.partial', 'partial') and args and args[0][0] in ('fn', 'bound', 'partial', 'attr', 'g'):
            return [(st, ('partial', args[0], tuple(args[1:]), tuple(kws)))]
        if name in ('asyncio.wait_for', 'asyncio.shield') and args and args[0][0] == 'coro':
            # awaited wrappers around a coroutine of ours: the value is the coroutine's
            return self.apply(args[0][1], list(args[0][2]), list(args[0][3]), st, awaited=True)
        if name == 'getattr' and len(args) == 2 and args[1][0] == 'c' and isinstance(args[1][1], str):
            return self.getattr(st, args[0], args[1][1])
        if name == 'isinstance' or name == 'issubclass':
            return None
        return None


_CMP = {'Eq': '==', 'NotEq': '!=', 'Lt': '<', 'LtE': '<=', 'Gt': '>', 'GtE': '>=', 'Is': 'is', 'IsNot': 'is not', 'In': 'in', 'NotIn': 'not in'}


def _fn_ref(an, f):
    node = an.node(f[1])
    name = getattr(node, 'name', '<lambda>')
    if f[0] == 'bound' and f[2] is not None:
        return ('attr', f[2], name)
    return ('fnref', name, f[1])


def _exc_class(exc):
    if exc is None:
        return None
    if exc[0] == 'call':
        return exc[1]
    return exc


def _bound_names(fn):
    """names bound in fn's own scope (params, assignments, for targets, with-as, defs, imports, walrus)"""
    cached = getattr(fn, '_sym_bound', None)
    if cached is not None:
        return cached
    out = set()
    a = fn.args
    for x in a.posonlyargs + a.args + a.kwonlyargs:
        out.add(x.arg)
    if a.vararg:
        out.add(a.vararg.arg)
    if a.kwarg:
        out.add(a.kwarg.arg)
    stack = list(fn.body) if not isinstance(fn, ast.Lambda) else []
    while stack:
        n = stack.pop()
        if isinstance(n, (ast.FunctionDef, ast.AsyncFunctionDef, ast.ClassDef)):
            out.add(n.name)
            continue
        if isinstance(n, ast.Lambda):
            continue
        if isinstance(n, ast.Name) and isinstance(n.ctx, ast.Store):
            out.add(n.id)
        if isinstance(n, (ast.Import, ast.ImportFrom)):
            out.update(import_names(n))
        if isinstance(n, ast.ExceptHandler) and n.name:
            out.add(n.name)
        stack.extend(ast.iter_child_nodes(n))
    fn._sym_bound = out
    return out


def _direct_defs(enc, mod):
    """functions defined directly in the scope of enc (not in a function nested deeper): {name: node}"""
    d = getattr(enc, '_sym_defs', None)
    if d is None:
        d = {}
        for n in ast.walk(enc):
            if n is not enc and isinstance(n, (ast.FunctionDef, ast.AsyncFunctionDef)) and mod.lexical_funcs(n)[:1] == [enc]:
                d.setdefault(n.name, n)
        enc._sym_defs = d
    return d


def _comp_targets(e):
    out = set()
    for g in e.generators:
        for n in ast.walk(g.target):
            if isinstance(n, ast.Name):
                out.add(n.id)
    return out


# ----------------------------------------------------------------------------------------------------------------- conditions
def canon_cond(v):
    """term used as a condition → (atom, polarity): atom is what a path records as decided"""
    pol = True
    while True:
        if v[0] == 'notv':
            v, pol = v[1], not pol
            continue
        if v[0] == 'call' and v[1] == ('g', 'bool') and len(v[2]) == 1 and not v[3]:
            v = v[2][0]
            continue
        if v[0] == 'cmp' and v[1] in ('is', '==', 'is not', '!=') and v[3][0] == 'cb' and v[2][0] != 'cb':
            # x is True / x == False / x is not True …
            pol = pol == ((v[1] in ('is', '==')) == bool(v[3][1]))
            v = v[2]
            continue
        if v[0] == 'cmp':
            op, l, r = v[1], v[2], v[3]
            if op == '!=':
                op, pol = '==', not pol
            elif op == 'is not':
                op, pol = 'is', not pol
            elif op == 'not in':
                op, pol = 'in', not pol
            elif op == '>':
                op, l, r = '<', r, l
            elif op == '>=':
                op, l, r = '<=', r, l
            if op in ('==', 'is'):
                if l[0] in ('c', 'cb') and r[0] in ('c', 'cb'):
                    return ('cb', (l == r) if op == '==' else (l[0] == r[0] and l[1] is r[1])), pol
                if r != NONE and (l == NONE or repr(l) > repr(r)):
                    l, r = r, l
            return ('cmp', op, l, r), pol
        return v, pol


# ----------------------------------------------------------------------------------------------------------------- normal forms
def _last_attr(t):
    return t[2] if t[0] == 'attr' else None


_NORM = {}


def norm(t):
    """rewrite a term (or an event tuple) bottom-up to the primitives the recognisers speak about (memoised on interned terms)"""
    if not isinstance(t, tuple) or not t:
        return t
    t = I(t)
    r = _NORM.get(t)
    if r is None:
        r = _NORM[t] = I(_norm(t))
    return r


def _norm(t):
    tag = t[0]
    if tag in ('c', 'cb', 'p', 'g', 'free', 'bot', 'fn', 'cls', 'fnref', 'sent', 'inl', 'localcls'):
        return t
    if tag == 'cond':
        a = norm(t[1])
        pol = t[2]
        a2, p2 = canon_cond(a)
        if not p2:
            pol = not pol
        a = a2
        if a[0] == 'cmp' and a[1] == 'is' and a[3] == NONE and _last_attr(a[2]) == 'cipher':
            return ('cond', ('ENCRYPTED', a[2][1]), not pol)
        return ('cond', a, pol)
    t = tuple(norm(x) if isinstance(x, tuple) else x for x in t)
    if tag == 'fresh':
        return t
    if tag == 'bound':
        return t
    if tag == 'attr':
        if t[2] == 'encrypted':
            return ('ENCRYPTED', t[1])
        return t
    if tag == 'cmp':
        a, pol = canon_cond(t)
        if a[0] == 'cmp' and a[1] == 'is' and a[3] == NONE and _last_attr(a[2]) == 'cipher':
            a, pol = ('ENCRYPTED', a[2][1]), not pol
        return a if pol else ('notv', a)
    if tag == 'call':
        f, args, kws = t[1], t[2], t[3]
        kw = dict(kws)
        if f[0] == 'attr':
            recv, m = f[1], f[2]
            # RepositoryProps primitives, inlined or not
            if m == 'digest' and len(args) == 1 and not kws and _last_attr(recv) == 'hasher':
                return ('HASH', args[0])
            if m == 'hash_digest' and len(args) == 1 and not kws:
                return ('HASH', args[0])
            if m in ('encrypt', 'decrypt') and len(args) + len(kws) == 2 and set(kw) <= {'data', 'key'}:
                d = args[0] if args else kw.get('data')
                k = args[1] if len(args) > 1 else kw.get('key')
                if d is not None and k is not None:
                    return ('ENC' if m == 'encrypt' else 'DEC', d, k)
            if m == 'mac' and len(args) == 1 and _last_attr(recv) == 'authenticator' and set(kw) == {'params'} \
                    and kw['params'] == ('sub', ('attr', recv[1], 'private'), ('c', 'mac_params')):
                return ('MAC', args[0])
            if m == 'mac' and len(args) == 1 and not kws and _last_attr(recv) != 'authenticator':
                return ('MAC', args[0])
            if m == 'derive' and _last_attr(recv) == 'shared_kdf' and len(args) == 1 and set(kw) == {'context', 'params'} \
                    and args[0] == ('sub', ('attr', recv[1], 'private'), ('c', 'shared_key')) \
                    and kw['params'] == ('sub', ('attr', recv[1], 'private'), ('c', 'shared_kdf_params')):
                return ('SUBKEY', kw['context'])
            if m == 'derive_shared_subkey' and len(args) == 1 and not kws:
                return ('SUBKEY', args[0])
            if m == 'hex' and not args and not kws:
                return ('HEX', recv)
            if m == 'decode' and recv[0] == 'call' and recv[1] == ('g', 'binascii.hexlify') and len(recv[2]) == 1:
                return ('HEX', recv[2][0])
            if m == 'serialize' and len(args) == 1 and not kws:
                return ('SER', args[0])
            if m == 'deserialize' and len(args) == 1 and not kws:
                return ('DESER', args[0])
            # backend operations, direct or through an executor / the event loop
            if _last_attr(recv) == 'backend':
                return ('BACKEND', m, args, kws)
            if m == 'run_in_executor' and len(args) >= 2 and args[1][0] == 'attr' and _last_attr(args[1][1]) == 'backend':
                return ('BACKEND', args[1][2], args[2:], kws)
            if m == 'result' and not args and recv[0] == 'call' and recv[1] == ('g', 'asyncio.run_coroutine_threadsafe') and recv[2] \
                    and unfresh(recv[2][0])[0] == 'BACKEND':
                return recv[2][0]
        if f[0] == 'g':
            if f[1] in ('bytes.fromhex', 'binascii.unhexlify', 'binascii.a2b_hex', 'bytearray.fromhex') and len(args) == 1:
                return ('FROMHEX', args[0])
            if f[1] in ('hmac.compare_digest', 'secrets.compare_digest') and len(args) == 2:
                return norm(('cmp', '==', args[0], args[1]))
            if f[1] in ('memoryview', 'bytes', 'bytearray') and len(args) == 1 and not kws:
                return ('VIEW', args[0])
            if f[1] == 'operator.ne' and len(args) == 2:
                return norm(('cmp', '!=', args[0], args[1]))
            if f[1] == 'operator.eq' and len(args) == 2:
                return norm(('cmp', '==', args[0], args[1]))
        return t
    return t


def unfresh(t):
    """the call behind a numbered (call-to-call different) result"""
    return t[2] if t[0] == 'fresh' else t


def strip_views(t):
    """the byte string a view / copy / slice of bytes is taken from"""
    while True:
        if t[0] == 'VIEW':
            t = t[1]
        elif t[0] == 'sub' and t[2][0] == 'slice':
            t = t[1]
        elif t[0] == 'call' and t[1][0] == 'attr' and t[1][2] in ('tobytes', 'toreadonly', 'copy') and not t[2]:
            t = t[1][1]
        elif t[0] == 'enter':
            t = t[1]
        else:
            return t


def subterms(t):
    """every distinct sub-term (the term is a DAG in memory: visit shared nodes once)"""
    stack = [t]
    seen = set()
    while stack:
        x = stack.pop()
        if isinstance(x, tuple) and x and id(x) not in seen:
            seen.add(id(x))
            yield x
            stack.extend(y for y in x if isinstance(y, tuple))


def contains(t, sub):
    sub = I(sub)
    return any(x is sub or x == sub for x in subterms(I(t)))


def subst(t, old, new, _memo=None):
    memo = {} if _memo is None else _memo
    t, old, new = I(t), I(old), I(new)

    def go(x):
        if x is old:
            return new
        if not isinstance(x, tuple):
            return x
        r = memo.get(id(x))
        if r is None:
            r = memo[id(x)] = I(tuple(go(y) for y in x))
        return r
    return go(t)


def is_enc(t):
    return isinstance(t, tuple) and t and t[0] == 'ENCRYPTED'


def enc_polarity(path_or_events):
    """True / False when the path has decided `encrypted`, None when it has not (or inconsistently)"""
    events = path_or_events.events if isinstance(path_or_events, PathResult) else path_or_events
    pols = {e[2] for e in events if e[0] == 'cond' and is_enc(e[1])}
    return pols.pop() if len(pols) == 1 else None


def mac_depth(t, src):
    """t = MAC^k(src) → k, else None"""
    k = 0
    while t != src:
        if t[0] != 'MAC':
            return None
        t, k = t[1], k + 1
    return k


def show(t, depth=0):
    """compact rendering for notes / debugging"""
    if not isinstance(t, tuple) or not t:
        return repr(t)
    tag = t[0]
    if not isinstance(tag, str):
        return '[' + ', '.join(show(x) for x in t) + ']'
    if tag in ('c', 'cb'):
        return repr(t[1])
    if tag == 'fnref':
        return '<' + t[1] + '>'
    if tag in ('p', 'free'):
        return t[1]
    if tag == 'g':
        return t[1]
    if tag == 'attr':
        return f'{show(t[1])}.{t[2]}'
    if tag == 'sub':
        return f'{show(t[1])}[{show(t[2])}]'
    if tag == 'call':
        a = [show(x) for x in t[2]] + [f'{k}={show(v)}' for k, v in t[3]]
        return f'{show(t[1])}({", ".join(a)})'
    if tag in ('tuple', 'list', 'set'):
        return '(' + ', '.join(show(x) for x in t[1]) + ')'
    if tag == 'dict':
        return '{' + ', '.join(f'{show(k)}: {show(v)}' for k, v in t[1]) + '}'
    if tag == 'new':
        return f'{t[1]}(' + ', '.join(f'{k}={show(v)}' for k, v in t[2]) + ')'
    if tag == 'fn' or tag == 'bound':
        return f'<{tag}>'
    return tag + '(' + ', '.join(show(x) if isinstance(x, tuple) else repr(x) for x in t[1:]) + ')'


# ----------------------------------------------------------------------------------------------------------------- shared instance
_SHARED = {}


def analyzer_for(repo):
    """one Analyzer per checkout (the four plug-ins share parse trees and path caches)"""
    repo = Path(repo)
    files = {'repository': repo / 'replicat' / 'repository.py', 'adapters': repo / 'replicat' / 'utils' / 'adapters.py',
             'utils': repo / 'replicat' / 'utils' / '__init__.py'}
    texts = {k: p.read_text() for k, p in files.items()}
    key = hashlib.sha256('\0'.join(texts[k] for k in sorted(texts)).encode()).hexdigest()
    if key not in _SHARED:
        _SHARED.clear()
        _SHARED[key] = Analyzer({k: ast.parse(v) for k, v in texts.items()})
    return _SHARED[key]


def functions_in(cnode):
    """every function (methods and nested functions, no lambdas) inside a class / function node, outermost first"""
    return [n for n in ast.walk(cnode) if isinstance(n, (ast.FunctionDef, ast.AsyncFunctionDef)) and n is not cnode]
