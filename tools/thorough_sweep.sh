#!/bin/bash
# runs every property's thorough command in turn (from the directory it is started in); one line per property
cd "$(dirname "$0")/.."
python3 -m harness.build --all > /dev/null 2>&1
for p in ${@:-C01 C02 C03 C04 C05 C06 C07 C08 C09 C10 C11 C12 C13 C14 C15 C16 C17 C18 C19 C20}; do
  s=$(date +%s); /venv/bin/python -m harness.check $p --tier thorough > .work/thorough_$p.log 2>&1; rc=$?
  echo "$p rc=$rc $(( $(date +%s)-s ))s viol=$(grep -c '^VIOLATION' .work/thorough_$p.log) known=$(grep -c '^KNOWN' .work/thorough_$p.log)"
done
