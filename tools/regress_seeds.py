#!/usr/bin/env python3
"""regress_seeds.py <PID> [seed ids…] — run THIS tree's quick check of PID against every kept seeded change that PID is recorded to catch
(seeded/*/meta.json: caught_by), one after the other; prints one line per seed; exit 1 if one is no longer reported with a concrete input."""
import glob, json, os, subprocess, sys
root = os.path.dirname(os.path.dirname(os.path.abspath(__file__)))
pid = sys.argv[1]; only = set(sys.argv[2:])
bad = 0
for mf in sorted(glob.glob(os.path.join(root, 'seeded', '*', 'meta.json'))):
    m = json.load(open(mf))
    if pid not in (m.get('caught_by') or []) or (only and m['id'] not in only):
        continue
    r = subprocess.run([os.path.join(root, 'tools', 'try_patch.sh'), os.path.join(os.path.dirname(mf), 'patch.diff'), pid], capture_output=True, text=True)
    lines = [l for l in r.stdout.splitlines() if l.startswith(('VIOLATION', 'INFRA', 'PATCH', 'exit='))]
    concrete = [l for l in lines if l.startswith('VIOLATION') and 'no-failing-input-found' not in l]
    status = 'concrete' if concrete else ('ONLY-BROKEN-OBLIGATION' if any(l.startswith('VIOLATION') for l in lines) else ('PATCH-DOES-NOT-APPLY' if any(l.startswith('PATCH') for l in lines) else 'MISSED'))
    if status not in ('concrete', 'PATCH-DOES-NOT-APPLY'):
        bad = 1
    print(m['id'], status, '|', '; '.join(l.split('::')[-1].strip() for l in concrete[:3]), flush=True)
sys.exit(bad)
