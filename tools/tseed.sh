#!/bin/bash
# usage: tseed.sh <tester verif tree> <seed worktree> <ID> <prop> [<prop>...]
# parallel-safe variant of try_seed.sh: verifies a seeded change (tests, demo with / without) and runs the given quick checks against it
# from a SEPARATE checkout of /verif (its own lean build, Generated.lean, evidence), so /verif itself and other runs are not disturbed.
T=$1; W=$2; ID=$3; shift 3
git -C $T checkout -q -f --detach $(git -C /verif rev-parse HEAD) 2>/dev/null
cd $W || exit 2
echo "--- tests with change"; /venv/bin/python -m pytest -q -p no:cacheprovider --timeout=900 -x 2>&1 | tail -1
echo "--- demo with change"; /venv/bin/python demo_$ID.py >$W/.demo_with.log 2>&1; echo "exit=$?"
git diff > $W/.seed_patch.diff; git checkout -q -- .
echo "--- demo without change"; /venv/bin/python demo_$ID.py >$W/.demo_without.log 2>&1; echo "exit=$?"
git apply $W/.seed_patch.diff
cd $T
for P in "$@"; do
  echo "--- check $P against the change"
  mkdir -p .work; REPLICAT_REPO=$W timeout 1500 /venv/bin/python -m harness.check $P --tier quick > .work/tseed_$P.log 2>&1; RC=$?; grep -E "VIOLATION|INFRA" .work/tseed_$P.log | cut -c1-400 | head -4; echo "exit=$RC"
  grep -E "^VIOLATION" .work/tseed_$P.log 2>/dev/null | head -4 | while read -r l; do
    f=$(echo "$l" | sed -n 's/.*replay=\([^ ]*\).*/\1/p')
    python3 -c "import json,sys; d=json.load(open(sys.argv[1])); print('   ', d.get('sig') or ('broken: '+', '.join((d.get('broken_proof_obligations') or [])[:3]+[str(x.get('what'))[:90] for x in (d.get('correspondence_disagreements') or [])[:2]])))" "$f" 2>/dev/null
  done
done
