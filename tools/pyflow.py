"""Small symbolic executor for Python function bodies (path enumeration over the `ast`).

The extractor's Boolean "shape" facts used to be decided by matching statement text and the names of local variables.
This module gives them a semantic footing instead: a function (method, nested function, module-level function) is
executed symbolically, every control-flow path separately,

  * local names are resolved through their assignments (a rename or a value hoisted into a local changes nothing),
  * calls of helpers that are visible in the same module (methods through `self`, nested functions, module-level
    functions) are followed by inlining their bodies, a few levels deep,
  * `if a: X else: Y`, `if not a: Y else: X`, early `return` / `continue`, conditional expressions and `try / except /
    else` all become the same thing: a set of paths, each with the literals (condition, polarity) that hold on it,
  * `while c`, `while True … break`, walrus loops and `for … in iter(f, sentinel)` become one loop form whose body
    paths end in fall-through / `break`; `for` loops are summarised by the paths of ONE iteration with the
    loop-carried variables as `phi` symbols (initial value / value after one iteration are kept),
  * added logging, counters and annotations are just more events on a path — queries ignore what they do not ask for.

A path is a list of events (`Ev`): call, cond, bind, store, aug, del, yield, return, raise, loop, enter, exit, raised,
break, continue.  Values are nested tuples ("syms"):

  ('const', v) ('name', id) ('param', name) ('self',) ('ctor', param)            leaves
  ('attr', base, name) ('sub', base, index) ('item', base, i) ('slice', lo, hi, step)
  ('call', uid, func, args, kwargs)      uid = identity of THIS evaluation (two reads of one local share it)
  ('tuple', elts) ('list', uid, elts) ('set', uid, elts) ('dict', uid, ((key, value), …))
  ('bin', op, l, r) ('un', op, x) ('not', x) ('cmp', op, l, r) ('bool', 'and'|'or', operands)
  ('lambda', nparams, body) with ('bound', depth, k) parameters; ('comp', uid, kind, elt, gens)
  ('elem', loop_uid) ('phi', loop_uid, name) ('loopout', loop_uid, name) ('func', key, frame) ('class', name)
  ('fstr', parts) ('star', x) ('unknown', uid)

Anything outside the supported subset raises `Unsupported`; callers turn that into `false` / `opaque` (never a guess).
"""
import ast
import itertools

MAX_STATES = 6000        # live paths per unit
MAX_DEPTH = 5            # helper calls followed this deep


class Unsupported(Exception):
    pass


def const_eval(node, env=None):
    """value of a constant expression: literals, + - * // % ** << on ints, tuples, names bound to earlier constants"""
    env = env or {}
    if isinstance(node, ast.Constant):
        return node.value
    if isinstance(node, ast.Name) and node.id in env:
        return env[node.id]
    if isinstance(node, ast.UnaryOp) and isinstance(node.op, ast.USub):
        v = const_eval(node.operand, env)
        if isinstance(v, (int, float)):
            return -v
    if isinstance(node, ast.BinOp):
        a, b = const_eval(node.left, env), const_eval(node.right, env)
        if type(a) is int and type(b) is int:
            ops = {ast.Add: lambda: a + b, ast.Sub: lambda: a - b, ast.Mult: lambda: a * b, ast.FloorDiv: lambda: a // b if b else None,
                   ast.Mod: lambda: a % b if b else None, ast.Pow: lambda: a ** b if 0 <= b < 64 else None,
                   ast.LShift: lambda: a << b if 0 <= b < 64 else None}
            f = ops.get(type(node.op))
            if f is not None and f() is not None:
                return f()
        if isinstance(a, str) and isinstance(b, str) and isinstance(node.op, ast.Add):
            return a + b
        if isinstance(a, (int, float)) and isinstance(b, (int, float)) and not isinstance(a, bool) and not isinstance(b, bool):
            if isinstance(node.op, ast.Add):
                return a + b
            if isinstance(node.op, ast.Sub):
                return a - b
            if isinstance(node.op, ast.Mult):
                return a * b
            if isinstance(node.op, ast.Div) and b:
                return a / b
    if isinstance(node, ast.Tuple):
        return tuple(const_eval(e, env) for e in node.elts)
    raise ValueError('not a constant expression')


_uid = itertools.count(1)


def new_uid():
    return next(_uid)


class Ev:
    __slots__ = ('kind', 'a', 'b', 'c', 'ctx', 'node')

    def __init__(self, kind, a=None, b=None, c=None, ctx=(), node=None):
        self.kind, self.a, self.b, self.c, self.ctx, self.node = kind, a, b, c, ctx, node

    def __repr__(self):
        return f'Ev({self.kind}, {show(self.a)}{", " + show(self.b) if self.b is not None else ""}{", " + show(self.c) if self.c is not None else ""})'


class LoopInfo:
    """One `for` / `while` loop on a path: the paths of one iteration."""
    def __init__(self, uid, kind, iter_sym, elem, init, node):
        self.uid, self.kind, self.iter, self.elem, self.init, self.node = uid, kind, iter_sym, elem, init, node
        self.paths = []          # list of State (events = events of this iteration only)
        self.carried = []
        self.foreign = {}        # key 'name@frame' -> (frame id, name): variables of the function whose `for` drives this loop

    def next_of(self, name):
        """values of a carried variable after one iteration, one per body path that goes round again"""
        if name in self.foreign:
            fid, n = self.foreign[name]
            return [p.envs[fid].get(n) if fid in p.envs else None for p in self.paths if p.status in ('run', 'continue')]
        return [p.lookup_frame0(name) for p in self.paths if p.status in ('run', 'continue')]


class State:
    def __init__(self):
        self.envs = {}           # frame id -> dict name -> sym   (frames owned by this path)
        self.frozen = {}         # frame id -> dict (shared, read-only: closure / module frames)
        self.cur = None          # current frame id
        self.stack = []          # saved frame ids of callers (inlining)
        self.events = []
        self.ctx = ()            # enclosing with / loop / inline / try frames
        self.status = 'run'      # run | return | raise | break | continue | exc
        self.value = None
        self.exc_frame = None
        self.exc_info = None
        self.tries = ()          # uids of enclosing try statements that have handlers
        self.depth = 0
        self.inlining = ()
        self.loop0 = None        # frame id in which a loop body started (for LoopInfo.next_of)
        self.handlers = ()       # `for … in <generator followed in place>`: what runs at each of its yields
        self.unwind_to = None    # a return / raise of such a loop body: the frame whose function it leaves
        self.genstop = None      # a break of such a loop body: the handler it stops

    def fork(self):
        s = State()
        s.envs = {k: dict(v) for k, v in self.envs.items()}
        s.frozen = self.frozen
        s.cur, s.stack = self.cur, list(self.stack)
        s.events = list(self.events)
        s.ctx, s.status, s.value = self.ctx, self.status, self.value
        s.exc_frame, s.exc_info, s.tries = self.exc_frame, self.exc_info, self.tries
        s.depth, s.inlining, s.loop0 = self.depth, self.inlining, self.loop0
        s.handlers, s.unwind_to, s.genstop = self.handlers, self.unwind_to, self.genstop
        return s

    def frame(self, fid):
        return self.envs[fid] if fid in self.envs else self.frozen.get(fid)

    def lookup_frame0(self, name):
        return self.envs[self.loop0].get(name) if self.loop0 in self.envs else None

    def emit(self, kind, a=None, b=None, c=None, node=None):
        e = Ev(kind, a, b, c, self.ctx, node)
        self.events.append(e)
        return e

    # queries -------------------------------------------------------------------------------------------------
    def lits(self, upto=None):
        """(sym, polarity) of the cond events of this path (optionally only before event index `upto`)"""
        evs = self.events if upto is None else self.events[:upto]
        return [(e.a, e.b) for e in evs if e.kind == 'cond']

    def calls(self):
        return [e for e in self.events if e.kind == 'call']


PARENT = {}      # frame id -> lexical parent frame id
FUNCS = {}       # key -> (ast node, class name or None, Module)


def show(x, depth=0):
    """compact text of a sym (for notes / debugging)"""
    if x is None:
        return 'None'
    if isinstance(x, LoopInfo):
        return f'<loop {x.uid} over {show(x.iter)}>'
    if not isinstance(x, tuple) or not x:
        return repr(x)
    k = x[0]
    if depth > 12:
        return '…'
    d = depth + 1
    if not isinstance(k, str):
        return '(' + ', '.join(show(a, d) if isinstance(a, tuple) else str(a) for a in x) + ')'
    if k == 'const':
        return repr(x[1])
    if k in ('name', 'param') and isinstance(x[1], str):
        return x[1]
    if k == 'self':
        return 'self'
    if k == 'ctor':
        return f'self.<{x[1]}>'
    if k == 'attr':
        return f'{show(x[1], d)}.{x[2]}'
    if k == 'sub':
        return f'{show(x[1], d)}[{show(x[2], d)}]'
    if k == 'item':
        return f'{show(x[1], d)}[{x[2]}]'
    if k == 'call':
        args = [show(a, d) for a in x[3]] + [f'{kk}={show(v, d)}' for kk, v in x[4]]
        return f'{show(x[2], d)}({", ".join(args)})#{x[1]}'
    if k == 'tuple':
        return '(' + ', '.join(show(a, d) for a in x[1]) + ')'
    if k in ('list', 'set'):
        return ('[' if k == 'list' else '{') + ', '.join(show(a, d) for a in x[2]) + (']' if k == 'list' else '}') + f'#{x[1]}'
    if k == 'dict':
        return '{' + ', '.join(f'{show(a, d)}: {show(b, d)}' for a, b in x[2]) + '}' + f'#{x[1]}'
    if k == 'bin':
        return f'({show(x[2], d)} {x[1]} {show(x[3], d)})'
    if k == 'cmp':
        return f'({show(x[2], d)} {x[1]} {show(x[3], d)})'
    if k == 'un':
        return f'({x[1]}{show(x[2], d)})'
    if k == 'not':
        return f'(not {show(x[1], d)})'
    if k == 'bool':
        return '(' + f' {x[1]} '.join(show(a, d) for a in x[2]) + ')'
    if k in ('func', 'method'):
        return f'<fn {FUNCS[x[1]][0].name}>' if x[1] in FUNCS else '<fn ?>'
    if k in ('elem', 'phi', 'loopout', 'unknown', 'bound', 'class'):
        return '<' + ' '.join(str(a) for a in x) + '>'
    if k == 'lambda':
        return f'(λ{x[1]}. {show(x[2], d)})'
    return '<' + k + ' ' + ' '.join(show(a, d) if isinstance(a, tuple) else str(a) for a in x[1:]) + '>'


# ---------------------------------------------------------------------------------------------- structural helpers
_STRIP = {}


def strip(x):
    """the sym with every evaluation identity (uid) set to 0: two evaluations of the same expression compare equal"""
    if isinstance(x, LoopInfo):
        return ('loopinfo', x.uid)
    if not isinstance(x, tuple) or not x:
        return x
    hit = _STRIP.get(id(x))
    if hit is not None and hit[0] is x:
        return hit[1]
    k = x[0]
    if k == 'call':
        r = ('call', 0, strip(x[2]), tuple(strip(a) for a in x[3]), tuple((kk, strip(v)) for kk, v in x[4]))
    elif k in ('list', 'set'):
        r = (k, 0, tuple(strip(a) for a in x[2]))
    elif k == 'dict':
        r = ('dict', 0, tuple((strip(a), strip(b)) for a, b in x[2]))
    elif k == 'comp':
        r = ('comp', 0) + tuple(strip(a) for a in x[2:])
    elif k == 'unknown':
        r = x
    else:
        r = tuple(strip(a) if isinstance(a, tuple) else a for a in x)
    _STRIP[id(x)] = (x, r)
    _STRIP[id(r)] = (r, r)
    return r


def children(x):
    """direct sub-syms of a sym"""
    k = x[0]
    if k in ('const', 'name', 'param', 'self', 'ctor', 'elem', 'phi', 'loopout', 'func', 'method', 'class', 'unknown', 'bound'):
        return ()
    if k == 'attr':
        return (x[1],)
    if k == 'item':
        return (x[1],)
    if k == 'call':
        return (x[2],) + tuple(x[3]) + tuple(v for _, v in x[4])
    if k in ('tuple', 'fstr'):
        return tuple(x[1])
    if k in ('list', 'set'):
        return tuple(x[2])
    if k == 'dict':
        return tuple(a for kv in x[2] for a in kv)
    if k in ('bin', 'cmp'):
        return (x[2], x[3])
    if k == 'un':
        return (x[2],)
    if k in ('not', 'star'):
        return (x[1],)
    if k == 'bool':
        return tuple(x[2])
    if k == 'lambda':
        return (x[2],)
    if k == 'comp':
        return tuple(x[3]) + tuple(a for g in x[4] for a in (g[0], g[1]) + tuple(g[2]))
    if k in ('sub', 'slice'):
        return tuple(a for a in x[1:] if isinstance(a, tuple))
    return tuple(a for a in x[1:] if isinstance(a, tuple) and a and isinstance(a[0], str))


def subterms(x):
    """all sub-syms (pre-order), the sym itself first"""
    if isinstance(x, tuple) and x and isinstance(x[0], str):
        yield x
        for a in children(x):
            yield from subterms(a)
    elif isinstance(x, tuple):
        for a in x:
            yield from subterms(a)


def contains(x, pred):
    return any(pred(t) for t in subterms(x))


def mentions(x, y):
    """y (a sym) occurs in x, compared up to evaluation identity unless y carries one"""
    uid = sym_uid(y)
    if uid is not None:
        return any(sym_uid(t) == uid and t[0] == y[0] for t in subterms(x))
    sy = strip(y)
    return any(strip(t) == sy for t in subterms(x))


def sym_uid(x):
    if isinstance(x, tuple) and x and x[0] in ('call', 'list', 'set', 'dict', 'comp', 'unknown'):
        return x[1] or None
    return None


def same(x, y):
    """same value: same evaluation when both carry an identity, else structurally equal"""
    ux, uy = sym_uid(x), sym_uid(y)
    if ux is not None and uy is not None:
        return ux == uy
    return strip(x) == strip(y)


def func_tail(f):
    """last name of a callee sym: functools.partial → 'partial'"""
    if f[0] == 'attr':
        return f[2]
    if f[0] == 'name':
        return f[1]
    if f[0] == 'method':
        return f[2]
    return None


def is_const(x, v=None):
    if not (isinstance(x, tuple) and x and x[0] == 'const'):
        return False
    return v is None or (x[1] == v and type(x[1]) is type(v))


NEG_CMP = {'==': '!=', '!=': '==', '<': '>=', '>=': '<', '>': '<=', '<=': '>', 'is': 'is not', 'is not': 'is',
           'in': 'not in', 'not in': 'in'}
SWAP_CMP = {'>': '<', '>=': '<=', '<': '>', '<=': '>=', '==': '==', '!=': '!='}


def canon_lit(sym, pol=True):
    """canonical (literal, polarity): negations folded into the polarity, `!=`/`is not`/`not in`/`>=`/`>`/`<=` expressed
    through `==`/`is`/`in`/`<`, operands of symmetric comparisons ordered, uids stripped"""
    s = strip(sym)
    while True:
        if s[0] == 'not':
            s, pol = s[1], not pol
            continue
        if s[0] == 'cmp':
            op, l, r = s[1], s[2], s[3]
            if op in ('!=', 'is not', 'not in'):
                op, pol = NEG_CMP[op], not pol
            if op == '>':
                op, l, r = '<', r, l
            elif op == '>=':           # l >= r  ==  not (l < r)
                op, pol = '<', not pol
            elif op == '<=':           # l <= r  ==  not (r < l)
                op, l, r, pol = '<', r, l, not pol
            if op in ('==', 'is') and repr(l) > repr(r):
                l, r = r, l
            s = ('cmp', op, l, r)
        return s, pol


def fold(c):
    """constant-fold the few tests whose outcome is known from the syms alone (prunes impossible paths)"""
    if c[0] == 'not':
        x = fold(c[1])
        return ('const', not x[1]) if x[0] == 'const' else c
    if c[0] == 'cmp' and c[2][0] == 'const' and c[3][0] == 'const':
        a, b = c[2][1], c[3][1]
        if c[1] in ('is', 'is not') and (a is None or b is None or isinstance(a, bool) or isinstance(b, bool)):
            return ('const', (a is b) == (c[1] == 'is'))
        if c[1] in ('==', '!=') and type(a) is type(b):
            return ('const', (a == b) == (c[1] == '=='))
    if c[0] == 'cmp' and c[1] in ('is', 'is not') and is_const(c[3]) and c[3][1] is None and c[2][0] in ('list', 'dict', 'set', 'tuple', 'fstr', 'lambda', 'func', 'method'):
        return ('const', c[1] == 'is not')
    if c[0] == 'bool':
        vals = [fold(a) for a in c[2]]
        if c[1] == 'and' and any(v[0] == 'const' and not v[1] for v in vals):
            return ('const', False)
        if c[1] == 'or' and any(v[0] == 'const' and v[1] for v in vals):
            return ('const', True)
        rest = tuple(v for v in vals if v[0] != 'const')
        if not rest:
            return ('const', c[1] == 'and')
        return rest[0] if len(rest) == 1 else ('bool', c[1], rest)
    return c


def known(lits):
    """closure of a set of path literals under unit propagation: {(canonical literal, polarity)}.
    not (a and b) together with a gives not b; (a or b) together with not a gives b."""
    out = set()
    pending = []
    for s, p in lits:
        for l, q in flatten_conj(strip(s), p):
            c = canon_lit(l, q)
            out.add(c)
            if c[0][0] == 'bool':
                pending.append(c)
    changed = True
    while changed:
        changed = False
        for c, pol in pending:
            # c = and(…) known false, or or(…) known true
            if (c[1] == 'and' and pol) or (c[1] == 'or' and not pol):
                continue
            want = c[1] == 'and'            # the value the other operands must have for the last one to be decided
            rest = []
            for a in c[2]:
                ca = canon_lit(a, True)
                if (ca[0], ca[1] if want else not ca[1]) in out:
                    continue                 # operand known true (and) / false (or)
                rest.append(ca)
            if len(rest) == 1:
                new = (rest[0][0], (not rest[0][1]) if want else rest[0][1])
                if new not in out:
                    out.add(new)
                    if new[0][0] == 'bool':
                        pending.append(new)
                    changed = True
    return out


def lit_set(lits):
    return {canon_lit(s, p) for s, p in lits}


def flatten_conj(sym, pol):
    """the literals that certainly hold when `sym` evaluated to `pol` (conjunctions on the true side, disjunctions on the
    false side are split; anything else is one literal)"""
    if sym[0] == 'not':
        return flatten_conj(sym[1], not pol)
    if sym[0] == 'bool' and ((sym[1] == 'and' and pol) or (sym[1] == 'or' and not pol)):
        out = []
        for a in sym[2]:
            out += flatten_conj(a, pol)
        return out
    return [(sym, pol)]


# ---------------------------------------------------------------------------------------------- pattern matching
class Cap:
    """capture variable of `match`"""
    def __init__(self, name, pred=None):
        self.name, self.pred = name, pred


ANY = Cap(None)


def match(x, pat, caps=None):
    """structural match of a STRIPPED sym against a pattern (tuples with `Cap` holes); returns the capture dict or None"""
    caps = {} if caps is None else caps
    if isinstance(pat, Cap):
        if pat.pred is not None and not pat.pred(x):
            return None
        if pat.name is not None:
            if pat.name in caps:
                return caps if caps[pat.name] == x else None
            caps[pat.name] = x
        return caps
    if isinstance(pat, tuple):
        if not isinstance(x, tuple) or len(x) != len(pat):
            return None
        for a, b in zip(x, pat):
            if match(a, b, caps) is None:
                return None
        return caps
    return caps if (x == pat and type(x) is type(pat)) else None


# ---------------------------------------------------------------------------------------------- the module
class Module:
    def __init__(self, path=None, src=None, inline_methods=True):
        self.src = src if src is not None else open(path).read()
        self.tree = ast.parse(self.src)
        self.fid = new_uid()
        PARENT[self.fid] = None
        self.env = {}
        self.classes = {}
        self.ctor = {}            # class -> {attr: ('ctor', param)}
        self.class_consts = {}    # class -> {name: sym}
        self.inline_methods = inline_methods
        self.no_inline = set()    # function names never followed
        self.records = {}         # immutable record classes: name -> (field names, is a tuple)
        for st in self.tree.body:
            self._module_stmt(st)
        for st in self.tree.body:
            if isinstance(st, ast.ClassDef):
                self._class(st)

    def _module_stmt(self, st):
        if isinstance(st, (ast.FunctionDef, ast.AsyncFunctionDef)):
            self.env[st.name] = self._reg(st, None)
        elif isinstance(st, ast.ClassDef):
            self.env[st.name] = ('class', st.name)
            bases = [ast.unparse(b).split('.')[-1] for b in st.bases]
            frozen = any(isinstance(d, ast.Call) and ast.unparse(d.func).split('.')[-1] == 'dataclass'
                         and any(k.arg == 'frozen' and isinstance(k.value, ast.Constant) and k.value.value is True for k in d.keywords)
                         for d in st.decorator_list)
            if 'NamedTuple' in bases or frozen:
                # immutable records: <Class>(a, b).field is the constructor argument
                fields = [x.target.id for x in st.body if isinstance(x, ast.AnnAssign) and isinstance(x.target, ast.Name)]
                if not any(isinstance(x, ast.FunctionDef) and x.name in ('__init__', '__new__', '__post_init__', '__getattr__', '__getattribute__')
                           for x in st.body):
                    self.records[st.name] = (fields, 'NamedTuple' in bases)
        elif isinstance(st, ast.Assign) and len(st.targets) == 1 and isinstance(st.targets[0], ast.Name):
            try:
                known = {k: v[1] for k, v in self.env.items() if v[0] == 'const'}
                self.env[st.targets[0].id] = ('const', const_eval(st.value, known))
            except Exception:  # noqa: BLE001
                pass
        elif isinstance(st, (ast.If, ast.Try)):
            for s in ast.iter_child_nodes(st):
                if isinstance(s, ast.stmt):
                    self._module_stmt(s)

    def _reg(self, node, cls):
        key = id(node)
        FUNCS[key] = (node, cls, self)
        return ('func', key, self.fid)

    def _class(self, c):
        meths, consts = {}, {}
        for st in c.body:
            if isinstance(st, (ast.FunctionDef, ast.AsyncFunctionDef)):
                meths[st.name] = st
                self._reg(st, c.name)
            elif isinstance(st, ast.Assign) and len(st.targets) == 1 and isinstance(st.targets[0], ast.Name):
                try:
                    known = {k: v[1] for k, v in self.env.items() if v[0] == 'const'}
                    known.update({k: v[1] for k, v in consts.items()})
                    consts[st.targets[0].id] = ('const', const_eval(st.value, known))
                except Exception:  # noqa: BLE001
                    pass
        self.classes[c.name] = meths
        self.class_consts[c.name] = consts
        # attributes that are set exactly once in the class, in __init__, from a constructor parameter
        ctor = {}
        init = meths.get('__init__')
        stores = {}
        for m in meths.values():
            for n in ast.walk(m):
                if isinstance(n, ast.Attribute) and isinstance(n.ctx, (ast.Store, ast.Del)) and isinstance(n.value, ast.Name) \
                        and n.value.id == 'self':
                    stores.setdefault(n.attr, []).append(m.name)
        if init is not None:
            params = {a.arg for a in init.args.args[1:] + init.args.kwonlyargs}
            for st in init.body:
                if isinstance(st, ast.Assign) and len(st.targets) == 1 and isinstance(st.targets[0], ast.Attribute) \
                        and isinstance(st.targets[0].value, ast.Name) and st.targets[0].value.id == 'self' \
                        and isinstance(st.value, ast.Name) and st.value.id in params \
                        and stores.get(st.targets[0].attr) == ['__init__']:
                    ctor[st.targets[0].attr] = ('ctor', st.value.id)
        self.ctor[c.name] = ctor

    # ------------------------------------------------------------------------------------------ entry points
    def method(self, cls, name):
        return self.classes.get(cls, {}).get(name)

    def run(self, node, cls=None, closure=None, args=None):
        """all paths of the function `node` executed on symbolic parameters.  `closure` = State of the enclosing
        function's path that defined it (its frames become read-only), for nested functions."""
        st = State()
        if closure is not None:
            st.frozen = dict(closure.frozen)
            for k, v in closure.envs.items():
                st.frozen[k] = v
            parent = closure_parent(closure, node)
        else:
            parent = self.fid
        st.frozen.setdefault(self.fid, self.env)
        fid = new_uid()
        PARENT[fid] = parent
        st.envs[fid] = {}
        st.cur = fid
        ex = Exec(self, cls)
        ex.bind_params(node, st, args)
        out = ex.block(node.body, [st])
        for s in out:
            if s.status == 'run':
                s.status, s.value = 'return', ('const', None)
        return out


def closure_parent(state, node):
    for envs in (state.envs, state.frozen):
        for fid, env in envs.items():
            for v in env.values():
                if isinstance(v, tuple) and v and v[0] == 'func' and v[1] == id(node):
                    return v[2]
    return state.cur


_FUNCS_IN = {}


def funcs_in(sym):
    """keys of the local functions mentioned anywhere in the sym (memoised on the sym object)"""
    if not isinstance(sym, tuple) or not sym:
        return frozenset()
    hit = _FUNCS_IN.get(id(sym))
    if hit is not None and hit[0] is sym:
        return hit[1]
    if sym[0] == 'func' and len(sym) == 3 and sym[1] in FUNCS:
        r = frozenset([sym[1]])
    else:
        r = frozenset()
        for a in sym:
            if isinstance(a, tuple):
                r = r | funcs_in(a)
    _FUNCS_IN[id(sym)] = (sym, r)
    return r


def escaping_funcs(paths):
    """the local functions that are handed on as values (callbacks) somewhere on these paths, i.e. that are not only
    called directly: {key: node}"""
    keys = set()

    def events(evs):
        for e in evs:
            if e.kind == 'call' and e.a[0] == 'call':
                for a in e.a[3]:
                    keys.update(funcs_in(a))
                for _, v in e.a[4]:
                    keys.update(funcs_in(v))
                if e.a[2][0] != 'func':
                    keys.update(funcs_in(e.a[2]))
            elif e.kind == 'call':
                keys.update(funcs_in(e.a))      # comprehension value
            elif e.kind in ('store', 'return', 'yield'):
                keys.update(funcs_in(e.b if e.kind == 'store' else e.a))
            elif e.kind == 'loop':
                for q in e.a.paths:
                    events(q.events)
    for p in paths:
        events(p.events)
    return {k: FUNCS[k][0] for k in keys}


def closure_signature(state):
    """two paths with the same signature give the same analysis of the functions nested in them"""
    sig = []
    for fid in sorted(state.envs):
        for name in sorted(state.envs[fid]):
            v = state.envs[fid][name]
            sig.append((name, strip(v) if not (v and v[0] == 'func') else ('func', v[1])))
    return tuple(sig)


def nested_funcs(state):
    """(name, node, sym) of the functions defined on this path (any frame it owns)"""
    out = []
    for fid, env in state.envs.items():
        for name, v in env.items():
            if isinstance(v, tuple) and v and v[0] == 'func' and v[1] in FUNCS:
                out.append((name, FUNCS[v[1]][0], v))
    return out


def assigned_names(stmts):
    """names (re)bound anywhere in the statements, nested function bodies excluded"""
    out = set()

    def visit(n):
        if isinstance(n, (ast.FunctionDef, ast.AsyncFunctionDef, ast.Lambda, ast.ClassDef)):
            if not isinstance(n, ast.Lambda):
                out.add(n.name)
            return
        if isinstance(n, (ast.ListComp, ast.SetComp, ast.DictComp, ast.GeneratorExp)):
            # comprehension targets are local to it, walrus targets are not
            for m in ast.walk(n):
                if isinstance(m, ast.NamedExpr) and isinstance(m.target, ast.Name):
                    out.add(m.target.id)
            return
        if isinstance(n, ast.Name) and isinstance(n.ctx, (ast.Store, ast.Del)):
            out.add(n.id)
        for ch in ast.iter_child_nodes(n):
            visit(ch)
    for s in stmts:
        visit(s)
    return out


def is_generator(node):
    def visit(n, top):
        if not top and isinstance(n, (ast.FunctionDef, ast.AsyncFunctionDef, ast.Lambda, ast.ClassDef)):
            return False
        if isinstance(n, (ast.Yield, ast.YieldFrom)):
            return True
        return any(visit(ch, False) for ch in ast.iter_child_nodes(n))
    return visit(node, True)


BINOPS = {ast.Add: '+', ast.Sub: '-', ast.Mult: '*', ast.Div: '/', ast.FloorDiv: '//', ast.Mod: '%', ast.Pow: '**',
          ast.BitAnd: '&', ast.BitOr: '|', ast.BitXor: '^', ast.LShift: '<<', ast.RShift: '>>', ast.MatMult: '@'}
CMPOPS = {ast.Eq: '==', ast.NotEq: '!=', ast.Lt: '<', ast.LtE: '<=', ast.Gt: '>', ast.GtE: '>=', ast.Is: 'is',
          ast.IsNot: 'is not', ast.In: 'in', ast.NotIn: 'not in'}
UNOPS = {ast.USub: '-', ast.UAdd: '+', ast.Invert: '~'}


class Exec:
    def __init__(self, mod, cls):
        self.mod, self.cls = mod, cls

    # ------------------------------------------------------------------------------------------ environment
    def lookup(self, st, name):
        fid = st.cur
        while fid is not None:
            fr = st.frame(fid)
            if fr is not None and name in fr:
                return fr[name]
            fid = PARENT.get(fid)
        return ('name', name)

    def setvar(self, st, name, sym, node=None):
        st.envs[st.cur][name] = sym
        st.emit('bind', name, sym, node=node)

    def bind_params(self, fn, st, args):
        a = fn.args
        pos = a.posonlyargs + a.args
        env = st.envs[st.cur]
        for i, p in enumerate(pos):
            if i == 0 and p.arg == 'self' and FUNCS.get(id(fn), (None, None))[1] is not None:
                env[p.arg] = ('self',)
            else:
                env[p.arg] = (args or {}).get(p.arg, ('param', p.arg))
        for p in a.kwonlyargs:
            env[p.arg] = (args or {}).get(p.arg, ('param', p.arg))
        if a.vararg:
            env[a.vararg.arg] = ('param', '*' + a.vararg.arg)
        if a.kwarg:
            env[a.kwarg.arg] = ('param', '**' + a.kwarg.arg)

    # ------------------------------------------------------------------------------------------ statements
    def block(self, stmts, states):
        for s in stmts:
            running = [x for x in states if x.status == 'run']
            if not running:
                break
            done = [x for x in states if x.status != 'run']
            nxt = []
            for x in running:
                nxt += self.stmt(s, x)
            states = done + nxt
            if len(states) > MAX_STATES:
                raise Unsupported('too many paths')
        return states

    def may_raise(self, node):
        return any(isinstance(n, (ast.Call, ast.Subscript, ast.Await)) for n in ast.walk(node))

    def stmt(self, s, st):
        out = []
        # a statement inside a `try` with handlers may raise instead of completing
        if st.tries and isinstance(s, (ast.Assign, ast.AugAssign, ast.AnnAssign, ast.Expr, ast.Return, ast.Delete)) and self.may_raise(s):
            for (x, _v) in self.ev(s.value, st.fork()) if getattr(s, 'value', None) is not None else [(st.fork(), None)]:
                if x.status != 'run':
                    out.append(x)      # raised further inside (an inlined helper): already on its way
                    continue
                x.status, x.exc_frame = 'exc', x.tries[-1]
                x.exc_info = s
                x.emit('raised', s, _v, node=s)      # b = the value whose computation (or use) failed
                out.append(x)
            if any(x.status == 'exc' and x.exc_info is not s for x in out):
                # the statement's own calls were followed: the raise points inside them stand for it
                out = [x for x in out if x.exc_info is not s]
        m = getattr(self, 'st_' + type(s).__name__, None)
        if m is None:
            raise Unsupported(f'statement {type(s).__name__} at line {s.lineno}')
        return out + m(s, st)

    def st_Pass(self, s, st):
        return [st]

    def st_Global(self, s, st):
        return [st]

    st_Nonlocal = st_Global
    st_Import = st_Global
    st_ImportFrom = st_Global

    def st_Expr(self, s, st):
        out = []
        for x, v in self.ev(s.value, st):
            if x.status == 'run' and v[0] in ('sub', 'item', 'attr'):
                x.emit('eval', v, node=s)        # evaluated for its possible exception (`d[k]` inside try)
            out.append(x)
        return out

    def st_Assign(self, s, st):
        out = []
        for x, v in self.ev(s.value, st):
            if x.status == 'run':
                for t in s.targets:
                    self.assign(t, v, x, s)
            out.append(x)
        return out

    def st_AnnAssign(self, s, st):
        if s.value is None:
            return [st]
        out = []
        for x, v in self.ev(s.value, st):
            if x.status == 'run':
                self.assign(s.target, v, x, s)
            out.append(x)
        return out

    def st_AugAssign(self, s, st):
        out = []
        op = BINOPS[type(s.op)]
        for x, v in self.ev(s.value, st):
            if x.status != 'run':
                out.append(x)
                continue
            if isinstance(s.target, ast.Name):
                old = self.lookup(x, s.target.id)
                self.setvar(x, s.target.id, ('bin', op, old, v), s)
                if sym_uid(old) is not None or old[0] in ('param', 'name', 'attr', 'sub', 'item', 'elem'):
                    x.emit('aug', old, op, v, node=s)       # in-place on a possibly shared object (`buffer += chunk`)
                out.append(x)
            else:
                for y, t in self.ev_target(s.target, x):
                    y.emit('aug', t, op, v, node=s)
                    out.append(y)
        return out

    def ev_target(self, t, st):
        if isinstance(t, ast.Attribute):
            return [(x, self.mk_attr(b, t.attr)) for x, b in self.ev(t.value, st)]
        if isinstance(t, ast.Subscript):
            out = []
            for x, b in self.ev(t.value, st):
                for y, i in self.ev(t.slice, x):
                    out.append((y, self.mk_sub(b, i)))
            return out
        raise Unsupported(f'target {type(t).__name__}')

    def assign(self, t, v, st, node):
        if isinstance(t, ast.Name):
            self.setvar(st, t.id, v, node)
        elif isinstance(t, (ast.Tuple, ast.List)):
            if any(isinstance(e, ast.Starred) for e in t.elts):
                for e in t.elts:
                    self.assign(e.value if isinstance(e, ast.Starred) else e, ('unknown', new_uid()), st, node)
                return
            for i, e in enumerate(t.elts):
                self.assign(e, self.mk_item(v, i), st, node)
        elif isinstance(t, (ast.Attribute, ast.Subscript)):
            res = self.ev_target(t, st)
            if len(res) != 1 or res[0][0] is not st:
                raise Unsupported('forking assignment target')
            st.emit('store', res[0][1], v, node=node)
        else:
            raise Unsupported(f'assignment target {type(t).__name__}')

    def st_Delete(self, s, st):
        states = [st]
        for t in s.targets:
            nxt = []
            for x in states:
                if isinstance(t, ast.Name):
                    x.envs[x.cur].pop(t.id, None)
                    nxt.append(x)
                else:
                    for y, tt in self.ev_target(t, x):
                        y.emit('del', tt, node=s)
                        nxt.append(y)
            states = nxt
        return states

    def st_Return(self, s, st):
        out = []
        for x, v in (self.ev(s.value, st) if s.value is not None else [(st, ('const', None))]):
            if x.status == 'run':
                x.emit('return', v, node=s)
                x.status, x.value = 'return', v
            out.append(x)
        return out

    def st_Raise(self, s, st):
        out = []
        for x, v in (self.ev(s.exc, st) if s.exc is not None else [(st, ('const', None))]):
            if x.status == 'run':
                x.emit('raise', v, node=s)
                if x.tries:
                    x.status, x.exc_frame, x.exc_info = 'exc', x.tries[-1], s
                else:
                    x.status, x.value = 'raise', v
            out.append(x)
        return out

    def st_Break(self, s, st):
        st.status = 'break'
        return [st]

    def st_Continue(self, s, st):
        st.status = 'continue'
        return [st]

    def st_Assert(self, s, st):
        out = []
        for x, c in self.ev(s.test, st):
            if x.status == 'run':
                for l, p in flatten_conj(c, True):
                    x.emit('cond', l, p, 'assert', node=s)
            out.append(x)
        return out

    def branch(self, st, c, node):
        """fork on the truth of sym c: returns (state_true | None, state_false | None)"""
        c = fold(c)
        if c[0] == 'const':
            return (st, None) if c[1] else (None, st)
        f = st.fork()
        for l, p in flatten_conj(c, True):
            st.emit('cond', l, p, node=node)
        for l, p in flatten_conj(c, False):
            f.emit('cond', l, p, node=node)
        return st, f

    def st_If(self, s, st):
        out = []
        for x, c in self.ev(s.test, st):
            if x.status != 'run':
                out.append(x)
                continue
            t, f = self.branch(x, c, s)
            if t is not None:
                out += self.block(s.body, [t])
            if f is not None:
                out += self.block(s.orelse, [f])
        return out

    def st_With(self, s, st):
        states = [st]
        uids = []
        for item in s.items:
            nxt = []
            uid = new_uid()
            uids.append(uid)
            for x in states:
                if x.status != 'run':
                    nxt.append(x)
                    continue
                for y, c in self.ev(item.context_expr, x):
                    if y.status == 'run':
                        y.emit('enter', c, uid, node=s)
                        y.ctx = y.ctx + (('with', uid, c),)
                        if item.optional_vars is not None:
                            self.assign(item.optional_vars, c, y, s)
                    nxt.append(y)
            states = nxt
        out = self.block(s.body, states)
        for x in out:
            # leave the contexts that were entered (whatever the way out)
            keep = tuple(f for f in x.ctx if not (f[0] == 'with' and f[1] in uids))
            if keep != x.ctx:
                for f in reversed(x.ctx):
                    if f[0] == 'with' and f[1] in uids:
                        x.ctx = tuple(g for g in x.ctx if g is not f)
                        x.emit('exit', f[2], f[1], node=s)
        return out

    st_AsyncWith = st_With

    def st_FunctionDef(self, s, st):
        key = id(s)
        FUNCS[key] = (s, None, self.mod)
        st.envs[st.cur][s.name] = ('func', key, st.cur)
        return [st]

    st_AsyncFunctionDef = st_FunctionDef

    def st_ClassDef(self, s, st):
        st.envs[st.cur][s.name] = ('class', s.name)
        return [st]

    def st_Try(self, s, st):
        uid = new_uid()
        has_handlers = bool(s.handlers)
        saved_tries = st.tries
        if has_handlers:
            st.tries = st.tries + (uid,)
        st.ctx = st.ctx + (('try', uid),)
        body = self.block(s.body, [st])
        after = []
        for x in body:
            x.tries = saved_tries
            if x.status == 'exc' and x.exc_frame == uid:
                # one continuation per handler (the exception type is not evaluated: every handler is possible)
                x.ctx = tuple(f for f in x.ctx[:x.ctx.index(('try', uid))]) if ('try', uid) in x.ctx else x.ctx
                for h in s.handlers:
                    y = x.fork()
                    y.status, y.exc_frame = 'run', None
                    ty = None
                    if h.type is not None:
                        r = self.ev(h.type, y)
                        y, ty = r[0]
                    y.emit('except', ty, uid, x.exc_info, node=h)
                    if h.name:
                        self.setvar(y, h.name, ('unknown', new_uid()), h)
                    for z in self.block(h.body, [y]):
                        if z.status == 'exc' and z.exc_frame == uid:
                            # `raise` inside the handler: propagates outwards
                            if saved_tries:
                                z.exc_frame = saved_tries[-1]
                            else:
                                z.status, z.value = 'raise', ('unknown', new_uid())
                        after.append(z)
            else:
                if ('try', uid) in x.ctx:
                    x.ctx = tuple(f for f in x.ctx if f != ('try', uid))
                if x.status == 'run' and s.orelse:
                    after += self.block(s.orelse, [x])
                else:
                    after.append(x)
        if not s.finalbody:
            return after
        out = []
        for x in after:
            status, value, ef, ei = x.status, x.value, x.exc_frame, x.exc_info
            x.status = 'run'
            for y in self.block(s.finalbody, [x]):
                if y.status == 'run':
                    y.status, y.value, y.exc_frame, y.exc_info = status, value, ef, ei
                out.append(y)
        return out

    # loops ---------------------------------------------------------------------------------------------------
    def loop(self, st, kind, iter_sym, node, body_runner, carried_names):
        uid = new_uid()
        info = LoopInfo(uid, kind, iter_sym, ('elem', uid), {}, node)
        body = st.fork()
        body.events = []
        body.ctx = st.ctx + (('loop', uid),)
        body.loop0 = body.cur
        env = body.envs[body.cur]
        for n in sorted(carried_names):
            cur = self.lookup(st, n)
            info.init[n] = cur
            env[n] = ('phi', uid, n)
        info.carried = sorted(carried_names)
        if st.handlers and node is not None and any(isinstance(n, (ast.Yield, ast.YieldFrom)) for n in ast.walk(node)):
            # the body of the `for` that consumes this generator runs at the yields: its variables are carried round as well
            for h in st.handlers:
                fr = body.envs.get(h['frame'])
                if fr is None:
                    continue
                for n in sorted(h['names']):
                    key = f"{n}@{h['frame']}"
                    sv = st.cur
                    st.cur = h['frame']
                    info.init[key] = self.lookup(st, n)
                    st.cur = sv
                    fr[n] = ('phi', uid, key)
                    info.foreign[key] = (h['frame'], n)
                    info.carried.append(key)
        paths = body_runner(body, info)
        info.paths = paths
        out = []
        ev_loop = st.emit('loop', info, node=node)
        for p in paths:
            if p.status in ('return', 'raise', 'exc', 'genstop'):
                # leaves the enclosing function from inside the loop
                o = st.fork()
                o.events[-1] = ev_loop
                o.emit('loopexit', info, p, node=node)
                o.status, o.value, o.exc_frame, o.exc_info = p.status, p.value, p.exc_frame, p.exc_info
                o.unwind_to, o.genstop = p.unwind_to, p.genstop
                out.append(o)
        for n in carried_names:
            st.envs[st.cur][n] = ('loopout', uid, n)
        for key, (fid, n) in info.foreign.items():
            for o in [st] + out:
                if fid in o.envs:
                    o.envs[fid][n] = ('loopout', uid, key)
        return [st] + out, info

    def st_For(self, s, st):
        out = []
        for x, it in self.ev(s.iter, st):
            if x.status != 'run':
                out.append(x)
                continue
            sts = self.generator_for(s, x, it)
            if sts is not None:
                if s.orelse:
                    run = [y for y in sts if y.status == 'run']
                    sts = [y for y in sts if y.status != 'run'] + self.block(s.orelse, run)
                out += sts
                continue
            it2 = self.iter_sentinel(it)
            if it2 is not None:
                # for v in iter(f, sentinel)  ==  while True: v = f(); if v == sentinel: break; body
                fn, sentinel = it2

                lam = s.iter.args[0] if isinstance(s.iter, ast.Call) and len(s.iter.args) == 2 and isinstance(s.iter.args[0], ast.Lambda) \
                    and not (s.iter.args[0].args.args or s.iter.args[0].args.vararg or s.iter.args[0].args.kwonlyargs) else None

                def runner(body, info, fn=fn, sentinel=sentinel, lam=lam):
                    res = []
                    if lam is not None:
                        vals = self.ev(lam.body, body)
                    elif fn[0] == 'call' and func_tail(fn[2]) == 'partial' and fn[3] and not any(a[0] == 'star' for a in fn[3]):
                        v = ('call', new_uid(), fn[3][0], tuple(fn[3][1:]), tuple(fn[4]))
                        body.emit('call', v, node=s)
                        vals = [(body, v)]
                    else:
                        v = ('call', new_uid(), fn, (), ())
                        body.emit('call', v, node=s)
                        vals = [(body, v)]
                    for b2, v in vals:
                        if b2.status != 'run':
                            res.append(b2)
                            continue
                        self.assign(s.target, v, b2, s)
                        t, f = self.branch(b2, ('cmp', '==', v, sentinel), s)
                        if t is not None:
                            t.status = 'break'
                            res.append(t)
                        if f is not None:
                            res += self.block(s.body, [f])
                    return res
                sts, _ = self.loop(x, 'while', None, s, runner, assigned_names([s]) )
            else:
                def runner(body, info):
                    self.assign(s.target, info.elem, body, s)
                    return self.block(s.body, [body])
                sts, _ = self.loop(x, 'for', it, s, runner, assigned_names(s.body) | assigned_names([s.target]))
            if s.orelse:
                run = [y for y in sts if y.status == 'run']
                sts = [y for y in sts if y.status != 'run'] + self.block(s.orelse, run)
            out += sts
        return out

    st_AsyncFor = st_For

    def generator_for(self, s, x, it):
        """`for T in gen(…): BODY` with a generator function that can be followed: the generator's body is executed in place
        and BODY runs (in this frame) at each of its yields.  Returns the resulting states, or None to treat the loop as opaque."""
        start = None
        target, idx = s.target, None
        call = it
        if it[0] == 'call' and it[2] == ('name', 'enumerate') and len(it[3]) == 1 and isinstance(s.target, ast.Tuple) and len(s.target.elts) == 2:
            kw = dict(it[4])
            if set(kw) <= {'start'} and (not kw or (kw['start'][0] == 'const' and type(kw['start'][1]) is int)):
                start = kw['start'][1] if kw else 0
                idx, target = s.target.elts
                call = it[3][0]
        if not (call[0] == 'call' and call[2][0] in ('func', 'method')):
            return None
        tgt = self.callee(call[2], x)
        if tgt is None or not is_generator(tgt[0]) or tgt[0].name in self.mod.no_inline or x.frame(tgt[2]) is None:
            return None
        if any(a[0] == 'star' for a in call[3]) or any(k == '**' for k, _ in call[4]):
            return None
        h = {'uid': new_uid(), 'target': target, 'idx': idx, 'start': start, 'body': s.body, 'frame': x.cur, 'node': s,
             'names': assigned_names(s.body) | assigned_names([s.target])}
        probe = x.fork()
        probe.handlers = probe.handlers + (h,)
        self._gen_ok = True
        try:
            res = self.inline(tgt, call[2], call[3], call[4], probe, s)
        except Unsupported:
            res = None
        finally:
            self._gen_ok = False
        if res is None:
            return None
        out = []
        for y, _v in res:
            y.handlers = tuple(hh for hh in y.handlers if hh['uid'] != h['uid'])
            if y.status == 'genstop' and y.genstop == h['uid']:
                y.status, y.genstop = 'run', None
            out.append(y)
        return out

    def run_handler(self, x, v, n):
        """a yield of a generator that is being followed for a `for` loop: bind the target and run the loop body"""
        h = x.handlers[-1]
        gen_cur = x.cur
        x.handlers = x.handlers[:-1]
        x.cur = h['frame']
        if h['idx'] is not None:
            self.assign(h['idx'], ('enumidx', h['uid'], h['start']), x, h['node'])
        self.assign(h['target'], v, x, h['node'])
        out = []
        for y in self.block(h['body'], [x]):
            y.handlers = y.handlers + (h,)
            if y.status in ('run', 'continue'):
                y.status = 'run'
            elif y.status == 'break':
                y.status, y.genstop = 'genstop', h['uid']
            elif y.status in ('return', 'raise') and y.unwind_to is None:
                y.unwind_to = h['frame']
            y.cur = gen_cur if y.frame(gen_cur) is not None else y.cur
            out.append(y)
        return out

    def iter_sentinel(self, it):
        if it[0] == 'call' and it[2] == ('name', 'iter') and len(it[3]) == 2 and not it[4]:
            return it[3][0], it[3][1]
        return None

    def st_While(self, s, st):
        def runner(body, info):
            res = []
            for x, c in self.ev(s.test, body):
                if x.status != 'run':
                    res.append(x)
                    continue
                t, f = self.branch(x, c, s)
                if f is not None:
                    f.status = 'break'
                    res.append(f)
                if t is not None:
                    res += self.block(s.body, [t])
            return res
        sts, _ = self.loop(st, 'while', None, s, runner, assigned_names(s.body) | assigned_names([s.test]))
        if s.orelse:
            run = [y for y in sts if y.status == 'run']
            sts = [y for y in sts if y.status != 'run'] + self.block(s.orelse, run)
        return sts

    # ------------------------------------------------------------------------------------------ expressions
    def record_field(self, b, name=None, index=None):
        """argument that a constructor call of an immutable record class gave to a field (by name or, for tuples, by position)"""
        if b[0] == 'call' and b[2][0] == 'class' and b[2][1] in self.mod.records and not any(a[0] == 'star' for a in b[3]) \
                and not any(k == '**' for k, _ in b[4]):
            fields, is_tuple = self.mod.records[b[2][1]]
            if index is not None:
                if not is_tuple or not (0 <= index < len(fields)):
                    return None
                name = fields[index]
            if name in fields:
                i = fields.index(name)
                if i < len(b[3]):
                    return b[3][i]
                kw = dict(b[4])
                if name in kw:
                    return kw[name]
        return None

    def mk_attr(self, b, name):
        v = self.record_field(b, name=name)
        if v is not None:
            return v
        if b == ('self',) and self.cls is not None:
            ctor = self.mod.ctor.get(self.cls, {})
            if name in ctor:
                return ctor[name]
            m = self.mod.classes.get(self.cls, {}).get(name)
            if m is not None:
                return ('method', id(m), name)
            c = self.mod.class_consts.get(self.cls, {}).get(name)
            if c is not None:
                return c
        if b[0] == 'class' and b[1] in self.mod.class_consts and name in self.mod.class_consts[b[1]]:
            return self.mod.class_consts[b[1]][name]
        return ('attr', b, name)

    def mk_item(self, b, i):
        v = self.record_field(b, index=i)
        if v is not None:
            return v
        if b[0] == 'tuple' and 0 <= i < len(b[1]) and not any(e[0] == 'star' for e in b[1]):
            return b[1][i]
        if b[0] == 'list' and 0 <= i < len(b[2]) and not any(e[0] == 'star' for e in b[2]):
            return b[2][i]
        return ('item', b, i)

    def mk_sub(self, b, i):
        if i[0] == 'const' and type(i[1]) is int and i[1] >= 0:
            return self.mk_item(b, i[1])
        return ('sub', b, i)

    def ev_list(self, nodes, st):
        """[(state, [syms])] — evaluation of several expressions in order"""
        res = [(st, [])]
        for n in nodes:
            nxt = []
            for x, acc in res:
                if x.status != 'run':
                    nxt.append((x, acc + [('unknown', new_uid())]))
                    continue
                for y, v in self.ev(n, x):
                    nxt.append((y, acc + [v]))
            res = nxt
        return res

    def ev(self, n, st):
        m = getattr(self, 'ev_' + type(n).__name__, None)
        if m is None:
            # an expression form that is not modelled: its value is unknown (no query can match it), the path goes on
            return [(st, ('unknown', new_uid()))]
        return m(n, st)

    def ev_Constant(self, n, st):
        return [(st, ('const', n.value))]

    def ev_Name(self, n, st):
        return [(st, self.lookup(st, n.id))]

    def ev_Attribute(self, n, st):
        return [(x, self.mk_attr(b, n.attr) if x.status == 'run' else b) for x, b in self.ev(n.value, st)]

    def ev_Subscript(self, n, st):
        return [(x, self.mk_sub(v[0], v[1])) for x, v in self.ev_list([n.value, n.slice], st)]

    def ev_Slice(self, n, st):
        parts = [p if p is not None else ast.Constant(value=None) for p in (n.lower, n.upper, n.step)]
        return [(x, ('slice', v[0], v[1], v[2])) for x, v in self.ev_list(parts, st)]

    def ev_Tuple(self, n, st):
        return [(x, ('tuple', tuple(v))) for x, v in self.ev_list(n.elts, st)]

    def ev_List(self, n, st):
        return [(x, ('list', new_uid(), tuple(v))) for x, v in self.ev_list(n.elts, st)]

    def ev_Set(self, n, st):
        return [(x, ('set', new_uid(), tuple(v))) for x, v in self.ev_list(n.elts, st)]

    def ev_Dict(self, n, st):
        if any(k is None for k in n.keys):
            # {**a, …}
            keys = [k if k is not None else ast.Constant(value='**') for k in n.keys]
        else:
            keys = n.keys
        out = []
        for x, ks in self.ev_list(keys, st):
            for y, vs in self.ev_list(n.values, x):
                out.append((y, ('dict', new_uid(), tuple(zip(ks, vs)))))
        return out

    def ev_Starred(self, n, st):
        return [(x, ('star', v)) for x, v in self.ev(n.value, st)]

    def ev_JoinedStr(self, n, st):
        vals = [v.value if isinstance(v, ast.FormattedValue) else v for v in n.values]
        return [(x, ('fstr', tuple(v))) for x, v in self.ev_list(vals, st)]

    def ev_FormattedValue(self, n, st):
        return self.ev(n.value, st)

    def ev_BinOp(self, n, st):
        return [(x, ('bin', BINOPS[type(n.op)], v[0], v[1])) for x, v in self.ev_list([n.left, n.right], st)]

    def ev_UnaryOp(self, n, st):
        if isinstance(n.op, ast.Not):
            return [(x, ('not', v)) for x, v in self.ev(n.operand, st)]
        out = []
        for x, v in self.ev(n.operand, st):
            if isinstance(n.op, ast.USub) and v[0] == 'const' and isinstance(v[1], (int, float)):
                out.append((x, ('const', -v[1])))
            else:
                out.append((x, ('un', UNOPS[type(n.op)], v)))
        return out

    def ev_BoolOp(self, n, st):
        op = 'and' if isinstance(n.op, ast.And) else 'or'
        return [(x, ('bool', op, tuple(v))) for x, v in self.ev_list(n.values, st)]

    def ev_Compare(self, n, st):
        out = []
        for x, v in self.ev_list([n.left] + list(n.comparators), st):
            parts = [('cmp', CMPOPS[type(op)], v[i], v[i + 1]) for i, op in enumerate(n.ops)]
            out.append((x, parts[0] if len(parts) == 1 else ('bool', 'and', tuple(parts))))
        return out

    def ev_IfExp(self, n, st):
        out = []
        for x, c in self.ev(n.test, st):
            if x.status != 'run':
                out.append((x, ('unknown', new_uid())))
                continue
            t, f = self.branch(x, c, n)
            if t is not None:
                out += self.ev(n.body, t)
            if f is not None:
                out += self.ev(n.orelse, f)
        return out

    def ev_NamedExpr(self, n, st):
        out = []
        for x, v in self.ev(n.value, st):
            if x.status == 'run':
                self.setvar(x, n.target.id, v, n)
            out.append((x, v))
        return out

    def ev_Await(self, n, st):
        return self.ev(n.value, st)

    def ev_Yield(self, n, st):
        out = []
        for x, v in (self.ev(n.value, st) if n.value is not None else [(st, ('const', None))]):
            if x.status == 'run' and x.handlers:
                out += [(y, ('unknown', new_uid())) for y in self.run_handler(x, v, n)]
                continue
            if x.status == 'run':
                x.emit('yield', v, node=n)
            out.append((x, ('unknown', new_uid())))
        return out

    def ev_YieldFrom(self, n, st):
        out = []
        if isinstance(n.value, ast.Call):
            # `yield from helper(…)` with a generator visible here: its yields happen in place
            self._gen_ok = True
            try:
                res = self.ev(n.value, st)
            finally:
                self._gen_ok = False
            if all(not (v[0] == 'call' and v[2][0] in ('func', 'method')) for _x, v in res):
                return [(x, ('unknown', new_uid())) for x, v in res]
            return [(x, ('unknown', new_uid())) if x.status != 'run' else self._yield_star(x, v, n) for x, v in res]
        for x, v in self.ev(n.value, st):
            if x.status == 'run':
                if x.handlers:
                    raise Unsupported('yield from a value, inside a followed generator')
                x.emit('yield', ('star', v), node=n)
            out.append((x, ('unknown', new_uid())))
        return out

    def _yield_star(self, x, v, n):
        if x.handlers:
            raise Unsupported('delegation to a generator that cannot be followed, inside a followed generator')
        x.emit('yield', ('star', v), node=n)
        return (x, ('unknown', new_uid()))

    def ev_Lambda(self, n, st):
        a = n.args
        if a.vararg or a.kwarg or a.kwonlyargs or a.defaults:
            return [(st, ('unknown', new_uid()))]
        params = [p.arg for p in a.posonlyargs + a.args]
        sub = st.fork()
        fid = new_uid()
        PARENT[fid] = sub.cur
        depth = sum(1 for f in st.ctx if f[0] == 'lambda')
        sub.envs[fid] = {p: ('bound', depth, i) for i, p in enumerate(params)}
        sub.cur = fid
        sub.ctx = sub.ctx + (('lambda', fid),)
        mark = len(sub.events)
        res = self.ev(n.body, sub)
        if len(res) != 1 or res[0][0].status != 'run':
            return [(st, ('unknown', new_uid()))]
        inner = tuple(e.a for e in res[0][0].events[mark:] if e.kind == 'call')
        return [(st, ('lambda', len(params), res[0][1], strip(('tuple', inner))))]

    def comp(self, n, st, kind, elts):
        sub = st.fork()
        fid = new_uid()
        PARENT[fid] = sub.cur
        sub.envs[fid] = {}
        sub.cur = fid
        mark = len(sub.events)
        gens = []
        uid = new_uid()
        for gi, g in enumerate(n.generators):
            r = self.ev(g.iter, sub)
            if len(r) != 1:
                return [(st, ('unknown', new_uid()))]
            sub, it = r[0]
            elem = ('elem', (uid, gi))
            self.assign(g.target, elem, sub, n)
            conds = []
            for c in g.ifs:
                r = self.ev(c, sub)
                if len(r) != 1:
                    return [(st, ('unknown', new_uid()))]
                sub, cv = r[0]
                conds.append(cv)
            gens.append((it, elem, tuple(conds)))
        vals = []
        for e in elts:
            r = self.ev(e, sub)
            if len(r) != 1:
                return [(st, ('unknown', new_uid()))]
            sub, v = r[0]
            vals.append(v)
        if sub.status != 'run':
            return [(st, ('unknown', new_uid()))]
        sym = ('comp', uid, kind, tuple(vals), tuple(gens))
        # calls made while evaluating the comprehension are part of its value; walrus bindings escape
        for e in sub.events[mark:]:
            if e.kind == 'bind' and e.a in sub.envs[fid]:
                continue
        st.emit('call', sym, node=n)
        return [(st, sym)]

    def ev_ListComp(self, n, st):
        return self.comp(n, st, 'list', [n.elt])

    def ev_SetComp(self, n, st):
        return self.comp(n, st, 'set', [n.elt])

    def ev_GeneratorExp(self, n, st):
        return self.comp(n, st, 'gen', [n.elt])

    def ev_DictComp(self, n, st):
        return self.comp(n, st, 'dict', [n.key, n.value])

    # calls ---------------------------------------------------------------------------------------------------
    def ev_Call(self, n, st):
        out = []
        kwnodes = [k.value for k in n.keywords]
        for x, v in self.ev_list([n.func] + list(n.args) + kwnodes, st):
            if x.status != 'run':
                out.append((x, ('unknown', new_uid())))
                continue
            f = v[0]
            args = []
            for a in v[1:1 + len(n.args)]:
                if a[0] == 'star' and a[1][0] == 'tuple' and not any(e[0] == 'star' for e in a[1][1]):
                    args += list(a[1][1])          # f(*(x, y)) == f(x, y)
                elif a[0] == 'star' and a[1][0] == 'list' and not any(e[0] == 'star' for e in a[1][2]):
                    args += list(a[1][2])
                else:
                    args.append(a)
            args = tuple(args)
            kws = tuple((k.arg if k.arg is not None else '**', val) for k, val in zip(n.keywords, v[1 + len(n.args):]))
            if f == ('name', 'dict') and not args and all(k != '**' for k, _ in kws):
                out.append((x, ('dict', new_uid(), tuple((('const', k), val) for k, val in kws))))
                continue
            target = self.callee(f, x)
            if target is not None and target[0].name in self.mod.no_inline:
                target = None
            if target is not None and len(args) >= 1 and args[-1][0] == 'star' and not any(a[0] == 'star' for a in args[:-1]) \
                    and not any(k == '**' for k, _ in kws):
                # f(a, *rest): the starred value supplies exactly the remaining positional parameters
                node = target[0]
                npos = len(node.args.posonlyargs + node.args.args) - (1 if target[3] is not None else 0)
                if not node.args.vararg and not node.args.defaults and npos >= len(args) - 1:
                    rest = args[-1][1]
                    args = tuple(args[:-1]) + tuple(self.mk_item(rest, i) for i in range(npos - (len(args) - 1)))
            if target is not None and not any(a[0] == 'star' for a in args) and not any(k == '**' for k, _ in kws):
                probe = x.fork()
                try:
                    res = self.inline(target, f, args, kws, probe, n)
                except Unsupported:
                    res = None          # something in the helper is outside the modelled subset: keep it as an opaque call
                if res is not None:
                    out += res
                    continue
            sym = ('call', new_uid(), f, args, kws)
            x.emit('call', sym, node=n)
            # lock.acquire() … lock.release() delimit the same region as `with lock:`
            if f[0] == 'attr' and f[2] == 'acquire' and not args:
                x.ctx = x.ctx + (('with', sym[1], f[1]),)
            elif f[0] == 'attr' and f[2] == 'release' and not args:
                for fr in reversed(x.ctx):
                    if fr[0] == 'with' and same(fr[2], f[1]):
                        x.ctx = tuple(g for g in x.ctx if g is not fr)
                        break
            out.append((x, sym))
        return out

    def callee(self, f, st):
        """(FunctionDef node, class or None, lexical frame id, bound self sym or None) if the call can be followed"""
        if f[0] == 'func' and f[1] in FUNCS:
            node, cls, _ = FUNCS[f[1]]
            return node, cls, f[2], None
        if f[0] == 'method' and self.mod.inline_methods:
            node, cls, _ = FUNCS[f[1]]
            decos = [d.id for d in node.decorator_list if isinstance(d, ast.Name)]
            if 'staticmethod' in decos:
                return node, cls, self.mod.fid, None
            if 'classmethod' in decos:
                return node, cls, self.mod.fid, ('class', cls)
            return node, cls, self.mod.fid, ('self',)
        return None

    def inline(self, target, f, args, kws, st, callnode):
        node, cls, lex, selfsym = target
        if node.decorator_list and not all(isinstance(d, ast.Name) and d.id in ('staticmethod', 'classmethod') for d in node.decorator_list):
            return None
        if node.name in self.mod.no_inline:
            return None
        if is_generator(node):
            if not getattr(self, '_gen_ok', False):
                return None
        self._gen_ok = False
        if st.depth >= MAX_DEPTH or id(node) in st.inlining:
            return None
        a = node.args
        pos = list(a.posonlyargs + a.args)
        bound = {}
        if selfsym is not None:
            if not pos:
                return None
            bound[pos[0].arg] = selfsym
            pos = pos[1:]
        if len(args) > len(pos) and not a.vararg:
            return None
        for p, v in zip(pos, args):
            bound[p.arg] = v
        if len(args) > len(pos):
            bound[a.vararg.arg] = ('tuple', tuple(args[len(pos):]))
        elif a.vararg:
            bound[a.vararg.arg] = ('tuple', ())
        extra = []
        names = {p.arg for p in pos} | {p.arg for p in a.kwonlyargs}
        for k, v in kws:
            if k in names and k not in bound:
                bound[k] = v
            elif a.kwarg:
                extra.append((('const', k), v))
            else:
                return None
        if a.kwarg:
            bound[a.kwarg.arg] = ('dict', new_uid(), tuple(extra))
        # defaults are evaluated in the defining scope
        defaults = dict(zip([p.arg for p in pos][len(pos) - len(a.defaults):], a.defaults)) if a.defaults else {}
        for p, d in zip(a.kwonlyargs, a.kw_defaults):
            if d is not None:
                defaults[p.arg] = d
        missing = [p.arg for p in pos + list(a.kwonlyargs) if p.arg not in bound]
        for m in missing:
            if m not in defaults:
                return None
        fid = new_uid()
        PARENT[fid] = lex
        saved = (st.cur, st.ctx, st.depth, st.inlining, st.tries)
        callee_exec = Exec(self.mod, cls if cls is not None else self.cls) if cls != self.cls else self
        for m in missing:
            d = defaults[m]
            if not isinstance(d, (ast.Constant, ast.Name, ast.Attribute, ast.UnaryOp, ast.Tuple)):
                return None
            sv = st.cur
            st.cur = lex if st.frame(lex) is not None else st.cur
            r = callee_exec.ev(d, st)
            st.cur = sv
            if len(r) != 1:
                return None
            bound[m] = r[0][1]
        states = [st]
        out = []
        uid = new_uid()
        for x in states:
            b = dict(bound)
            x.envs[fid] = b
            x.stack.append(x.cur)
            x.cur = fid
            x.ctx = x.ctx + (('inline', uid, node.name),)
            x.depth += 1
            x.inlining = x.inlining + (id(node),)
            x.emit('call', ('call', uid, f, args, kws), None, 'inlined', node=callnode)
            x.emit('inline', node.name, uid, tuple(sorted(b.items(), key=lambda kv: kv[0])), node=callnode)
            for y in callee_exec.block(node.body, [x]):
                if y.status == 'run':
                    y.status, y.value = 'return', ('const', None)
                if y.status == 'return' and y.unwind_to is None:
                    val = y.value
                    y.status, y.value = 'run', None
                    y.emit('inline-exit', node.name, uid, val, node=callnode)
                else:
                    val = ('unknown', new_uid())
                # back in the caller's frame (also for raise / exc: the caller's handlers run in its frame)
                y.envs.pop(fid, None)
                if y.stack:
                    y.cur = y.stack.pop()
                y.ctx = tuple(fr for fr in y.ctx if not (fr[0] == 'inline' and fr[1] == uid))
                y.depth, y.inlining = saved[2], saved[3]
                if y.unwind_to is not None and y.cur == y.unwind_to:
                    y.unwind_to = None        # back in the function that the loop body returned from / raised in
                if y.status == 'raise' and saved[4] and y.unwind_to is None:
                    y.status, y.exc_frame, y.exc_info = 'exc', saved[4][-1], callnode
                out.append((y, val))
        return out

