"""C06 / C15: the guards of replicat/repository.py that `Repo.lean` / `Access.lean` mirror.

Each recognised shape is emitted as a Bool in `Replicat.Gen`; the property theorems do NOT depend on these flags (a harmless
rewrite must not break a proof) — an unrecognised shape is recorded in the extraction notes (`access.*` / `select.*`) and in the
evidence, and makes the C06 / C15 checks run twice as many correspondence worlds in that run (DESIGN.md §3.1: a changed shape is
not a broken tie, it raises the number of cases).  Normalised-AST fingerprints of every modelled function go into the evidence.

The shapes are read off the control-flow paths of the public commands (tools/symflow.py, tools/replicat_facts.py): what ends up in
`self.props` after `unlock`, which comparison precedes the download of a snapshot / the scheduling of a chunk for deletion, whether a
refusal can follow a deletion, which key the listings are sorted by.  Names of locals and private helpers, branch orientation, early
returns, nested vs. combined conditions do not matter.
"""
import ast
import sys
from pathlib import Path

sys.path.insert(0, str(Path(__file__).resolve().parent.parent))
import replicat_facts as rf  # noqa: E402
import symflow_fmt as symflow  # noqa: E402


def section(ctx):
    an = symflow.analyzer_for(ctx.REPO)
    tree = an.mods['repository'].tree

    def flag(name, ok, why):
        ctx.emit(f'def {name} : Bool := {"true" if ok else "false"}')
        if not ok:
            ctx.notes[('select.' if name.startswith(('restore', 'listing')) else 'access.') + name] = why

    def run(fn, default):
        try:
            return fn(an)
        except Exception as e:  # noqa: BLE001
            return dict(default, why=f'analysis failed: {e!r}')

    for meth in ('_instantiate_key', '_make_key', '_add_key', 'add_key', 'unlock', '_decrypt_snapshot_body', '_download_snapshot_threadsafe',
                 '_load_snapshots', 'list_snapshots', 'list_files', 'restore', 'delete_snapshots', 'clean'):
        ctx.fp('repository.Repository.' + meth, ctx.find_func(tree, 'Repository', meth))

    # EMPTY_TABLE_VALUE (a public class attribute)
    empty = None
    R = an.mods['repository'].classes.get('Repository')
    v = R.consts.get('EMPTY_TABLE_VALUE') if R else None
    if isinstance(v, ast.Constant) and isinstance(v.value, str) and '"' not in v.value and '\\' not in v.value:
        empty = v.value
    ctx.emit(f'def emptyTableValue : String := "{empty if empty is not None else ""}"')

    # unlock: userkey = KDF(key.kdf).derive(password, params=key.kdf_params); private = DESER(DEC(key.private, userkey)) when still sealed
    kf = run(rf.key_files, dict(private_sealed=False))
    flag('privateSealedUnderUserKey', kf.get('private_sealed'),
         kf.get('why') or 'unlock: userkey = KDF(password, key.kdf_params) / private = decrypt(key.private, userkey) not found')

    # loading snapshots: foreign tag ⇒ skipped before anything is fetched
    sl = run(rf.snapshot_loader, dict(tag_checked=False))
    flag('loadSkipsForeignTag', sl.get('tag_checked'),
         sl.get('why') or 'snapshot loader: MAC(FROMHEX(name)) == FROMHEX(tag) does not precede the download in an encrypted repository')

    # clean: tag validated before a chunk is scheduled for deletion
    cv = run(rf.clean_validates_tag, dict(ok=False))
    flag('cleanValidatesTag', cv.get('ok'), cv.get('why') or 'clean: tag check before scheduling a listed chunk for deletion not found')

    # delete_snapshots: unreadable ⇒ raise, unknown ⇒ raise, both before the first deletion
    dr = run(rf.delete_refuses_before_mutation, dict(ok=False))
    flag('deleteRefusesBeforeMutation', dr.get('ok'), dr.get('why') or 'delete_snapshots: refusals before the first deletion not found')

    # restore: newest first + first occurrence wins + file filter per path; listings: sorted by timestamp descending
    ss = run(rf.selection_shapes, dict(restore_ok=False, listings_ok=False))
    flag('restoreSelectsNewestFirstOccurrence', ss.get('restore_ok'),
         ss.get('why') or 'restore: sort by utc_timestamp descending / first occurrence of a path / file filter shape not found')
    flag('listingsSortNewestFirst', ss.get('listings_ok'), 'list_snapshots / list_files: sort(..., reverse=True) on the timestamp not found')
