"""C06 / C15: the guards of replicat/repository.py that `Repo.lean` / `Access.lean` mirror, read from the AST.

Each recognised shape is emitted as a Bool in `Replicat.Gen`; the property theorems do NOT depend on these flags (a harmless
rewrite must not break a proof) — an unrecognised shape is recorded in the extraction notes (`access.*` / `select.*`) and in the
evidence, and makes the C06 / C15 checks run twice as many correspondence worlds in that run (DESIGN.md §3.1: a changed shape is
not a broken tie, it raises the number of cases).  Normalised-AST fingerprints of every modelled function go into the evidence.
"""
import ast


def _norm(ctx, node):
    return ctx.unparse(node).replace('(', '').replace(')', '').replace(' ', '')


def section(ctx):
    src = (ctx.REPO / 'replicat' / 'repository.py').read_text()
    tree = ast.parse(src)
    flags = {}

    def flag(name, ok, why):
        flags[name] = ok
        ctx.emit(f'def {name} : Bool := {"true" if ok else "false"}')
        if not ok:
            ctx.notes[('select.' if name.startswith(('restore', 'listing')) else 'access.') + name] = why

    for meth in ('_instantiate_key', '_make_key', '_add_key', 'add_key', 'unlock', '_decrypt_snapshot_body', '_download_snapshot_threadsafe',
                 '_load_snapshots', 'list_snapshots', 'list_files', 'restore', 'delete_snapshots', 'clean'):
        ctx.fp('repository.Repository.' + meth, ctx.find_func(tree, 'Repository', meth))

    # EMPTY_TABLE_VALUE
    empty = None
    for n in ast.walk(tree):
        if isinstance(n, ast.Assign) and len(n.targets) == 1 and ctx.unparse(n.targets[0]) == 'EMPTY_TABLE_VALUE' and isinstance(n.value, ast.Constant):
            empty = n.value.value
    ctx.emit(f'def emptyTableValue : String := {("%r" % empty).replace(chr(39), chr(34)) if isinstance(empty, str) else chr(34) + chr(34)}')

    # _instantiate_key: userkey = KDF(password, params=key['kdf_params']);  private = decrypt(key['private'], userkey)
    f = ctx.find_func(tree, 'Repository', '_instantiate_key')
    texts = [_norm(ctx, n) for n in ast.walk(f)] if f is not None else []
    ok = any(t.startswith('userkey=') and t.endswith(".derivepassword,params=key['kdf_params']") for t in texts) and \
        any("cipher.decryptkey['private'],userkey" in t for t in texts)
    flag('privateSealedUnderUserKey', ok, '_instantiate_key: derive(password, params=key[kdf_params]) / cipher.decrypt(key[private], userkey) not found')

    # _load_snapshots: foreign tag ⇒ skip
    f = ctx.find_func(tree, 'Repository', '_load_snapshots')
    ok = False
    if f is not None:
        for n in ast.walk(f):
            if isinstance(n, ast.If) and _norm(ctx, n.test) == 'self.props.encryptedandself.props.macdigest!=bytes.fromhextag' and \
                    any(isinstance(b, ast.Return) and b.value is None for b in n.body):
                ok = True
    flag('loadSkipsForeignTag', ok, '_load_snapshots: `if props.encrypted and props.mac(digest) != bytes.fromhex(tag): return` not found')

    # clean: tag validated before a chunk is scheduled for deletion
    f = ctx.find_func(tree, 'Repository', 'clean')
    ok = False
    if f is not None:
        for n in ast.walk(f):
            if isinstance(n, ast.If) and _norm(ctx, n.test) == 'self.props.encrypted':
                for m in ast.walk(n):
                    if isinstance(m, ast.If) and _norm(ctx, m.test) == 'self.props.macbytes.fromhexname!=bytes.fromhextag' and \
                            any(isinstance(b, ast.Continue) for b in m.body):
                        ok = True
    flag('cleanValidatesTag', ok, 'clean: `if props.encrypted: … if props.mac(bytes.fromhex(name)) != bytes.fromhex(tag): continue` not found')

    # delete_snapshots: unreadable ⇒ raise, unknown ⇒ raise, both before the first _delete
    f = ctx.find_func(tree, 'Repository', 'delete_snapshots')
    ok = False
    if f is not None:
        raises = [n.lineno for n in ast.walk(f) if isinstance(n, ast.Raise)]
        first_delete = min([n.lineno for n in ast.walk(f) if isinstance(n, ast.Call) and ctx.unparse(n.func) in ('asyncio.gather',)] or [0])
        unread = any(isinstance(n, ast.If) and _norm(ctx, n.test) in ("snapshot_data:=body['data']isNone", "body['data']isNone")
                     and any(isinstance(b, ast.Raise) for b in n.body) for n in ast.walk(f))
        unknown = any(isinstance(n, ast.If) and _norm(ctx, n.test) == 'remaining_names' and any(isinstance(b, ast.Raise) for b in n.body) for n in ast.walk(f))
        ok = unread and unknown and len(raises) >= 2 and first_delete > max(raises)
    flag('deleteRefusesBeforeMutation', ok, 'delete_snapshots: the two refusals (different key / not available) before the first gather(_delete…) not found')

    # restore: newest first + first occurrence wins + file filter per path
    f = ctx.find_func(tree, 'Repository', 'restore')
    ok = False
    if f is not None:
        texts = [_norm(ctx, n) for n in ast.walk(f) if isinstance(n, (ast.Expr, ast.If, ast.Assign))]
        sort_ok = any(t == "snapshots.sortkey=lambdax:x['data']['utc_timestamp'],reverse=True" for t in texts)
        first_ok = any(isinstance(n, ast.If) and _norm(ctx, n.test) == "file_path:=file_data['path']infiles_digests" and
                       any(isinstance(b, ast.Continue) for b in n.body) for n in ast.walk(f))
        filt_ok = any(isinstance(n, ast.If) and _norm(ctx, n.test) == 'file_reisnotNoneandfile_re.searchfile_pathisNone' and
                      any(isinstance(b, ast.Continue) for b in n.body) for n in ast.walk(f))
        ok = sort_ok and first_ok and filt_ok
    flag('restoreSelectsNewestFirstOccurrence', ok, 'restore: sort by utc_timestamp descending / first occurrence of a path / file filter shape not found')

    # listings: sorted by timestamp descending
    ok = True
    for meth, want in (('list_snapshots', "snapshots.sortkey=lambdax:x[0]or'',reverse=True"), ('list_files', 'files.sortkey=lambdax:x[0],reverse=True')):
        f = ctx.find_func(tree, 'Repository', meth)
        ok = ok and f is not None and any(_norm(ctx, n) == want for n in ast.walk(f) if isinstance(n, ast.Expr))
    flag('listingsSortNewestFirst', ok, 'list_snapshots / list_files: sort(..., reverse=True) on the timestamp not found')
