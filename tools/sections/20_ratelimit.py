"""C20 plug-in of the extractor: shape of `_RateLimitedFileWrapper` and of the places where the commands build the
limiter.  Nothing here is a proof obligation (a harmless rewrite must not alarm): the booleans only tell the harness
to spend more correspondence cases when the code no longer has the shape the model was written from."""
import ast
import re


def section(ctx):
    src = (ctx.REPO / 'replicat' / 'utils' / '__init__.py').read_text()
    tree = ast.parse(src)
    w = ctx.find_func(tree, '_RateLimitedFileWrapper')
    for cls in ('TQDMIOBase', 'TQDMIOReader', 'TQDMIOWriter'):
        ctx.fp(f'utils.{cls}', ctx.find_func(tree, cls))
    ok = w is not None
    want = {
        'read': ("start = time.perf_counter()\ndata = self._file.read(size)\nreal_elapsed = time.perf_counter() - start\n"
                 "expected_elapsed = len(data) / self._rate_limiter.read_limit\n"
                 "self._rate_limiter.pause_reads(max(expected_elapsed - real_elapsed, 0))\nreturn data"),
        'write': ("start = time.perf_counter()\nbytes_written = self._file.write(data)\nreal_elapsed = time.perf_counter() - start\n"
                  "expected_elapsed = bytes_written / self._rate_limiter.write_limit\n"
                  "self._rate_limiter.pause_writes(max(expected_elapsed - real_elapsed, 0))\nreturn bytes_written"),
        'seek': "return self._file.seek(*args, **kwargs)",
        'tell': "return self._file.tell(*args, **kwargs)",
        'truncate': "return self._file.truncate(*args, **kwargs)",
    }
    if ok:
        for name, body in want.items():
            f = ctx.find_func(w, name)
            got = '\n'.join(ctx.unparse(s) for s in f.body) if f is not None else None
            if got != body:
                ok = False
                ctx.notes[f'_RateLimitedFileWrapper.{name}'] = 'shape differs from the modelled one'
    ctx.emit(f'def wrapperShapeRecognised : Bool := {"true" if ok else "false"}')
    rsrc = (ctx.REPO / 'replicat' / 'repository.py').read_text()
    sites = len(re.findall(r'utils\.RateLimitedIO\(rate_limit\)', rsrc))
    wraps = len(re.findall(r'rate_limiter\.wrap\(stream\)', rsrc))
    ctx.emit(f'def limiterCommandSites : Nat := {sites}')
    ctx.emit(f'def limiterWrapSites : Nat := {wraps}')
    if sites != 4 or wraps != 4:
        ctx.notes['limiter_sites'] = f'{sites} constructions, {wraps} wraps (expected 4 and 4)'
    s3 = (ctx.REPO / 'replicat' / 'backends' / 's3c.py').read_text()
    m = re.search(r'chunk_size = hasher\.block_size \* ([\d_]+)', s3)
    ctx.emit(f'def s3DigestReadBlocks : Nat := {int(m.group(1).replace("_", "")) if m else 0}')
