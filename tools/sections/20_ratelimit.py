"""C20 plug-in of the extractor: shape of `_RateLimitedFileWrapper` and of the places where the commands build the
limiter.  Nothing here is a proof obligation (a harmless rewrite must not alarm): the booleans only tell the harness
to spend more correspondence cases when the code no longer has the shape the model was written from.

All of it is read off a symbolic execution (tools/optflow.py), not off the text:

* `wrapperShapeRecognised` — `read` / `write` of the wrapper, by what they DO: clock, the underlying call, clock, then
  `limiter.pause_reads|pause_writes(max(n / limiter.read_limit|write_limit − (t1 − t0), 0))` with n the number of bytes moved,
  and the result of the underlying call returned; `seek` / `tell` / `truncate` hand their arguments to the underlying file.
  The names of the two private attributes are whatever `__init__` stores its two parameters under; locals are irrelevant.
* `limiterCommandSites` — in how many of snapshot / restore / upload_objects / download_objects a `RateLimitedIO(rate_limit)`
  is built when a limit is given (directly or in a helper the command calls);
* `limiterWrapSites` — in how many of them a stream is wrapped by THAT limiter (`<limiter>.wrap(…)`);
* `s3DigestReadBlocks` — the piece size `_get_stream_hexdigest` reads with, in hash blocks.
"""
import sys
from pathlib import Path

sys.path.insert(0, str(Path(__file__).resolve().parent.parent))
import optflow as F  # noqa: E402

COMMANDS = ('snapshot', 'restore', 'upload_objects', 'download_objects')


def _wrapper_attrs(repo, cls):
    """the attributes `__init__(self, file, limiter)` keeps its two parameters in → (file attr, limiter attr)"""
    init = cls.find_method('__init__')
    if init is None:
        return None
    names = [a.arg for a in init.node.args.args]
    if len(names) != 3:
        return None
    ex = F.Exec(repo)
    ex.run(init)
    got = {}
    for ev in ex.events:
        if ev.kind == 'setattr' and ev.obj.op == 'self' and ev.value.op == 'p' and ev.value.a[0] in names[1:]:
            got[ev.value.a[0]] = ev.name
    if set(got) != set(names[1:]):
        return None
    return got[names[1]], got[names[2]]


def _transfer_ok(repo, cls, meth, io_name, limit_attr, pause_name, fattr, lattr):
    """`read(size)` / `write(data)`: see the module docstring"""
    fn = cls.find_method(meth)
    if fn is None:
        return 'missing'
    ex = F.Exec(repo)
    ret = ex.run(fn)
    me = F.mk('self', cls)
    FILE, LIM = F.mk('attr', me, fattr), F.mk('attr', me, lattr)
    calls = [e for e in ex.events if e.kind == 'call']
    if any(e.kind in ('raise', 'setitem', 'unknown-stmt') for e in ex.events) or ex.loops:
        return 'has other effects'
    if any(e.kind == 'setattr' and not (e.obj is me and e.name not in (fattr, lattr)) for e in ex.events):
        return 'has other effects'          # (bookkeeping attributes of the wrapper itself — counters — are not effects)
    clocks = [e for e in calls if e.fq() == 'time.perf_counter']
    ios = [e for e in calls if F.method_call(e, io_name) is FILE]
    pauses = [e for e in calls if F.method_call(e, pause_name) is LIM]
    if len(clocks) != 2 or len(ios) != 1 or len(pauses) != 1:
        return f'{len(clocks)} clock reads, {len(ios)} underlying calls, {len(pauses)} pauses'
    t0, t1, io, pause = clocks[0], clocks[1], ios[0], pauses[0]
    if not (t0.id < io.id < t1.id < pause.id) or any(e.pc for e in (t0, io, t1, pause)):
        return 'order of clock / underlying call / pause'
    param = F.mk('p', fn.node.args.args[1].arg)
    if list(io.args) != [param] or io.kwargs:
        return 'underlying call does not receive the argument'
    if ret is not io.result:
        return 'result of the underlying call is not returned'
    moved = io.result if meth == 'write' else None
    if len(pause.args) != 1 or pause.kwargs:
        return 'pause argument'
    a = pause.args[0]
    if not (a.op == 'call' and F.callee_name(a.a[0]) == 'max' and len(a.a[1]) == 2 and not a.a[2]):
        return 'pause is not max(…, 0)'
    rest = [x for x in a.a[1] if not F.is_k(x, 0)]
    if len(rest) != 1:
        return 'pause is not max(…, 0)'
    d = rest[0]
    elapsed = F.mk('bin', '-', t1.result, t0.result)
    if not (d.op == 'bin' and d.a[0] == '-' and d.a[2] is elapsed):
        return 'pause is not expected − elapsed'
    exp = d.a[1]
    if not (exp.op == 'bin' and exp.a[0] == '/' and exp.a[2] is F.mk('attr', LIM, limit_attr)):
        return 'expected time is not bytes / limit'
    n = exp.a[1]
    if meth == 'write':
        ok = n is moved
    else:
        ok = n.op == 'call' and F.callee_name(n.a[0]) == 'len' and list(n.a[1]) == [io.result]
    return None if ok else 'byte count'


def _delegate_ok(repo, cls, meth, fattr):
    fn = cls.find_method(meth)
    if fn is None:
        return 'missing'
    ex = F.Exec(repo)
    ret = ex.run(fn)
    FILE = F.mk('attr', F.mk('self', cls), fattr)
    calls = [e for e in ex.events if e.kind == 'call']
    if len(calls) != 1 or F.method_call(calls[0], meth) is not FILE or ret is not calls[0].result:
        return 'does not hand over to the underlying file'
    a = fn.node.args
    want_args = [F.mk('p', x.arg) for x in a.args[1:]] + ([F.mk('star', F.mk('p', a.vararg.arg))] if a.vararg else [])
    want_kw = [(None, F.mk('p', a.kwarg.arg))] if a.kwarg else []
    if list(calls[0].args) != want_args or list(calls[0].kwargs) != want_kw:
        return 'arguments are not passed through'
    return None


def section(ctx):
    repo = F.shared_repo(ctx.REPO)
    umod = repo.module('replicat.utils')
    for cls in ('TQDMIOBase', 'TQDMIOReader', 'TQDMIOWriter'):
        c = repo.cls('replicat.utils', cls)
        ctx.fp(f'utils.{cls}', c.node if c is not None else None)
    # the wrapper class: whatever `RateLimitedIO.wrap(file)` instantiates with (file, the limiter)
    w = None
    wrap = repo.func('replicat.utils', 'RateLimitedIO', 'wrap') if umod is not None else None
    if wrap is not None:
        try:
            wx = F.Exec(repo)
            r = wx.run(wrap)
            if r.op == 'call' and r.a[0].op == 'cls' and len(r.a[1]) == 2 and r.a[1][0].op == 'p' and r.a[1][1].op == 'self' and not r.a[2]:
                w = r.a[0].a[0]
        except Exception:  # noqa: BLE001
            w = None
    if w is None:
        ctx.notes['_RateLimitedFileWrapper'] = 'RateLimitedIO.wrap does not build a wrapper from (file, limiter)'
    ok = w is not None
    if ok:
        try:
            attrs = _wrapper_attrs(repo, w)
            if attrs is None:
                ok = False
                ctx.notes['_RateLimitedFileWrapper.__init__'] = 'shape differs from the modelled one'
            else:
                fattr, lattr = attrs
                checks = {'read': _transfer_ok(repo, w, 'read', 'read', 'read_limit', 'pause_reads', fattr, lattr),
                          'write': _transfer_ok(repo, w, 'write', 'write', 'write_limit', 'pause_writes', fattr, lattr)}
                for m in ('seek', 'tell', 'truncate'):
                    checks[m] = _delegate_ok(repo, w, m, fattr)
                for name, why in checks.items():
                    if why is not None:
                        ok = False
                        ctx.notes[f'_RateLimitedFileWrapper.{name}'] = f'shape differs from the modelled one ({why})'
        except Exception as e:  # noqa: BLE001 — advisory flag: an analysis failure means "not the modelled shape"
            ok = False
            ctx.notes['_RateLimitedFileWrapper'] = f'shape differs from the modelled one ({e!r})'
    ctx.emit(f'def wrapperShapeRecognised : Bool := {"true" if ok else "false"}')
    # ---- where the commands build the limiter and wrap their streams
    sites = wraps = 0
    for name in COMMANDS:
        fn = repo.func('replicat.repository', 'Repository', name)
        if fn is None:
            continue
        try:
            ex = F.Exec(repo)
            ex.run(fn)
        except Exception:  # noqa: BLE001
            continue
        RL = F.mk('p', 'rate_limit')
        given = F.Val().set(F.mk('isnone', RL), False)
        limiters = [e for e in ex.events if e.kind == 'call' and e.fq() == 'replicat.utils.RateLimitedIO' and list(e.args[:1]) == [RL]
                    and F.truth(e.pc, given) is not False]
        if limiters:
            sites += 1
        made = {id(e.result) for e in limiters}
        if any(e.kind == 'call' and F.method_call(e, 'wrap') is not None and F.truth(e.pc, given) is not False
               and id(F.resolve(F.method_call(e, 'wrap'), given)) in made for e in ex.events):
            wraps += 1
    ctx.emit(f'def limiterCommandSites : Nat := {sites}')
    ctx.emit(f'def limiterWrapSites : Nat := {wraps}')
    if sites != 4 or wraps != 4:
        ctx.notes['limiter_sites'] = f'{sites} constructions, {wraps} wraps (expected 4 and 4)'
    # ---- S3: the digest of a stream is computed in pieces of `block_size * N`
    blocks = 0
    fn = repo.func('replicat.backends.s3c', '_get_stream_hexdigest')
    if fn is not None:
        try:
            ex = F.Exec(repo)
            ex.run(fn)
            stream = F.mk('p', fn.node.args.args[0].arg)
            sizes = set()
            for e in ex.events:
                if e.kind == 'call' and F.method_call(e, 'read') is stream and len(e.args) == 1:
                    a = e.args[0]
                    if a.op == 'bin' and a.a[0] == '*':
                        x, y = a.a[1], a.a[2]
                        if F.is_k(x):
                            x, y = y, x
                        if x.op == 'attr' and x.a[1] == 'block_size' and F.is_k(y) and type(y.a[0]) is int:
                            sizes.add(y.a[0])
                            continue
                    sizes.add(0)
            if len(sizes) == 1:
                blocks = sizes.pop()
        except Exception:  # noqa: BLE001
            blocks = 0
    ctx.emit(f'def s3DigestReadBlocks : Nat := {blocks}')
