"""C20 plug-in of the extractor: the size literal a user writes for `-L/--limit-rate` and the transfer piece sizes.

Regenerated from the source on every run (nothing here is typed by hand in the model):

* `PREFIXES_TABLE` (in dict order = order of the regex alternation) and `UNITS_TABLE` (an `int` n as coefficient n,
  scale 0; `Decimal('0.125')` as coefficient 125, scale 3 — exactly the operand `Decimal.__mul__` gets);
* `HUMAN_SIZE_REGEX`, evaluated from its defining expression and parsed with CPython's own `re._parser`, as a
  structural description (a prefix-order token list `SizeReTok`), the group names, the Unicode flag, and the fact that
  `human_to_bytes` uses `re.fullmatch` on it;
* the bodies of `human_to_bytes`, `_natural_number`, `_rate_limit` (normalised text compared with the modelled one — ADVISORY:
  `sizeGlueRecognised` is not a proof obligation, a harmless rewrite must not alarm; it makes the harness spend more cases);
* the arithmetic context: precision and rounding of `decimal.DefaultContext`, and whether anything in `replicat/`
  touches the decimal context;
* the character classes `\\d` / `\\s` of the running CPython for `str` patterns (every block of ten decimal digits by the
  code point of its zero; every white-space code point) — they are what `re` and `Decimal` use, so the model covers
  every string, not only ASCII;
* the options whose `dest` is `rate_limit` (sub-parser, flags, type function) and whether the configuration file or
  the environment can supply the limit (`Config` fields, keys popped in `apply_known`, variables read in `apply_env`);
* the piece-size expression at the four call sites (`snapshot`, `restore`, `upload_objects`, `download_objects`) as a
  postfix token list `PieceTok` that the model evaluates.

Anything not recognised is emitted as an empty table / `other` token / `false` flag, so that the model still compiles and
the `decide` discharge in `Properties/C20.lean` (`size_literal_source_facts`) stops compiling instead.
"""
import ast
import re
from decimal import Decimal


def _lean_chars(s):
    return '[' + ', '.join(f"Char.ofNat {ord(c)}" for c in s) + ']'


def _lean_str(x):
    import json
    return json.dumps(str(x))


def _safe_eval(node, env):
    """evaluate a module-level expression of utils/__init__.py (dict / int arithmetic / Decimal('…') / '%' / str.join)"""
    return eval(compile(ast.Expression(node), '<extract>', 'eval'), {'__builtins__': {}}, dict(env))  # noqa: S307


CHILD = r'''
import json, re, sys, decimal, unicodedata
def _re_tokens(pattern):
    import re._parser as sp
    from re._constants import (BRANCH, CATEGORY, CATEGORY_DIGIT, CATEGORY_SPACE, IN, LITERAL, MAX_REPEAT, MAXREPEAT, MIN_REPEAT,
                               SUBPATTERN)
    p = sp.parse(pattern)
    toks = []

    def seq(items):
        items = list(items)
        if len(items) != 1:
            toks.append(f'.seq {len(items)}')
        for it in items:
            one(it)

    def one(it):
        op, av = it
        if op is SUBPATTERN:
            g, add, dele, sub = av
            toks.append(f'.grp {g if g is not None else 0}' if not (add or dele) else f'.other "subpattern-flags"')
            seq(sub)
        elif op in (MAX_REPEAT, MIN_REPEAT):
            lo, hi, sub = av
            kind = {(MAX_REPEAT, 0, 1): '.opt', (MAX_REPEAT, 0, MAXREPEAT): '.star', (MAX_REPEAT, 1, MAXREPEAT): '.plus',
                    (MIN_REPEAT, 0, MAXREPEAT): '.lazyStar'}.get((op, lo, hi))
            toks.append(kind or f'.other "repeat {op} {lo} {hi}"')
            seq(sub)
        elif op is IN:
            if av == [(CATEGORY, CATEGORY_DIGIT)]:
                toks.append('.digit')
            elif av == [(CATEGORY, CATEGORY_SPACE)]:
                toks.append('.space')
            elif all(o is LITERAL for o, _ in av):
                toks.append('.set [' + ', '.join(str(c) for _, c in av) + ']')
            else:
                toks.append(f'.other "class"')
        elif op is LITERAL:
            toks.append(f'.chr {av}')
        elif op is BRANCH:
            toks.append(f'.alt {len(av[1])}')
            for alt in av[1]:
                seq(alt)
        else:
            toks.append(f'.other "{str(op).lower()}"')

    seq(p)
    return toks, dict(p.state.groupdict), p.state.flags



pattern = json.load(sys.stdin)['pattern']
out = {}
try:
    toks, groups, flags = _re_tokens(pattern) if isinstance(pattern, str) else (['.other "not evaluated"'], {}, 0)
    out['regex'] = {'toks': toks, 'groups': groups, 'ascii_or_ignorecase': bool(flags & (re.ASCII | re.IGNORECASE))}
except Exception as e:
    out['regex_error'] = repr(e)
allc = ''.join(chr(i) for i in range(0x110000) if not 0xD800 <= i < 0xE000)
digs = re.findall(r'\d', allc)
zeros = [ord(c) for c in digs if unicodedata.decimal(c) == 0]
out['blocks_ok'] = len(zeros) * 10 == len(digs) and all(unicodedata.decimal(chr(z + i), -1) == i for z in zeros for i in range(10))
out['zeros'] = zeros
out['spaces'] = [ord(c) for c in re.findall(r'\s', allc)]
out['unidata'] = unicodedata.unidata_version
out['prec'] = decimal.DefaultContext.prec
out['half_even'] = decimal.DefaultContext.rounding == decimal.ROUND_HALF_EVEN
out['python'] = sys.version.split()[0]
print(json.dumps(out))
'''


def _interpreter_facts(pattern):
    """regex tree, character classes and decimal context of the interpreter that RUNS replicat (/venv/bin/python)"""
    import json
    import os
    import subprocess
    import sys
    py = '/venv/bin/python' if os.path.exists('/venv/bin/python') else sys.executable
    p = subprocess.run([py, '-c', CHILD], input=json.dumps({'pattern': pattern}), capture_output=True, text=True, timeout=120)
    if p.returncode != 0:
        raise RuntimeError('interpreter facts: ' + p.stderr[-400:])
    return json.loads(p.stdout)


PIECE_VARS = {'snapshot': 'upload_chunk_size', 'restore': 'download_chunk_size',
              'upload_objects': 'upload_chunk_size', 'download_objects': 'download_chunk_size'}


def _piece_tokens(node):
    """postfix tokens of an integer expression over `rate_limit` and `self._concurrent`"""
    if isinstance(node, ast.Name) and node.id == 'rate_limit':
        return ['.limit']
    if isinstance(node, ast.Attribute) and ast.unparse(node) == 'self._concurrent':
        return ['.conc']
    if isinstance(node, ast.Constant) and type(node.value) is int and node.value >= 0:
        return [f'.lit {node.value}']
    if isinstance(node, ast.BinOp) and isinstance(node.op, (ast.Mult, ast.FloorDiv, ast.Add)):
        op = {ast.Mult: '.mul', ast.FloorDiv: '.floordiv', ast.Add: '.add'}[type(node.op)]
        a, b = _piece_tokens(node.left), _piece_tokens(node.right)
        if op != '.floordiv':
            a, b = sorted([a, b])      # `*` and `+` commute on ints (no side effects here): one canonical operand order
        return a + b + [op]
    if (isinstance(node, ast.Call) and isinstance(node.func, ast.Name) and node.func.id in ('max', 'min') and len(node.args) == 2
            and not node.keywords):
        a, b = sorted([_piece_tokens(node.args[0]), _piece_tokens(node.args[1])])
        return a + b + ['.max2' if node.func.id == 'max' else '.min2']
    return ['.other']


def section(ctx):
    emit = ctx.emit
    usrc = (ctx.REPO / 'replicat' / 'utils' / '__init__.py').read_text()
    utree = ast.parse(usrc)
    emit('/-- structural description of `HUMAN_SIZE_REGEX` (CPython `re._parser` tree in prefix order; `grp 0` = unnamed group) -/')
    emit('inductive SizeReTok where')
    emit('  | grp (n : Nat) | seq (n : Nat) | alt (n : Nat) | opt | star | plus | lazyStar | digit | space')
    emit('  | chr (c : Nat) | set (cs : List Nat) | other (what : String)')
    emit('  deriving DecidableEq, Repr')
    emit('/-- postfix description of an integer expression over `rate_limit` and `self._concurrent` -/')
    emit('inductive PieceTok where')
    emit('  | limit | conc | lit (n : Nat) | mul | floordiv | add | max2 | min2 | other')
    emit('  deriving DecidableEq, Repr')

    # ---- tables and the regex, evaluated from their defining expressions
    env = {'Decimal': Decimal}
    assigned = {}
    for st in utree.body:
        if isinstance(st, ast.Assign) and len(st.targets) == 1 and isinstance(st.targets[0], ast.Name) \
                and st.targets[0].id in ('PREFIXES_TABLE', 'UNITS_TABLE', 'HUMAN_SIZE_REGEX'):
            try:
                assigned[st.targets[0].id] = env[st.targets[0].id] = _safe_eval(st.value, env)
            except Exception as e:  # noqa: BLE001
                ctx.notes[f'sizelit.{st.targets[0].id}'] = f'not evaluable: {e!r}'
            ctx.fp(f'utils.{st.targets[0].id}', st)
    prefixes = assigned.get('PREFIXES_TABLE')
    rows = []
    if isinstance(prefixes, dict) and all(isinstance(k, str) and k and type(v) is int and v > 0 for k, v in prefixes.items()):
        rows = list(prefixes.items())
    else:
        ctx.notes['sizelit.PREFIXES_TABLE'] = 'not a dict str -> positive int'
    emit('/-- `PREFIXES_TABLE` in dict order (the order of the alternation in the regex): key characters, multiplier -/')
    emit('def sizePrefixes : List (List Char × Nat) := [' + ', '.join(f'({_lean_chars(k)}, {v})' for k, v in rows) + ']')
    units = assigned.get('UNITS_TABLE')
    urows = []
    ok_units = isinstance(units, dict)
    if ok_units:
        for k, v in units.items():
            if not (isinstance(k, str) and len(k) == 1):
                ok_units = False
                break
            if type(v) is int and v > 0:
                urows.append((k, v, 0))
            elif isinstance(v, Decimal) and v.is_finite() and v > 0 and v.as_tuple().exponent <= 0:
                t = v.as_tuple()
                urows.append((k, int(''.join(map(str, t.digits))), -t.exponent))
            else:
                ok_units = False
                break
    if not ok_units:
        urows = []
        ctx.notes['sizelit.UNITS_TABLE'] = 'not a dict char -> positive int | Decimal with exponent <= 0'
    emit('/-- `UNITS_TABLE`: key, coefficient, scale (the multiplier is coefficient / 10^scale, the operand `Decimal.__mul__` receives) -/')
    emit('def sizeUnits : List (Char × Nat × Nat) := [' + ', '.join(f'(Char.ofNat {ord(k)}, {c}, {s})' for k, c, s in urows) + ']')
    pattern = assigned.get('HUMAN_SIZE_REGEX')
    try:
        facts = _interpreter_facts(pattern if isinstance(pattern, str) else None)
    except Exception as e:  # noqa: BLE001
        # the definitions below must exist whatever happens (the model has to compile); the `decide` discharge then fails
        ctx.notes['sizelit.interpreter'] = f'interpreter facts not available: {e!r}'[:300]
        facts = {'regex_error': 'no interpreter facts', 'zeros': [], 'spaces': [], 'blocks_ok': False, 'unidata': '?', 'prec': 0,
                 'half_even': False, 'python': '?'}
    toks, groups, flagged = ['.other "not evaluated"'], {}, True
    if not isinstance(pattern, str):
        ctx.notes['sizelit.HUMAN_SIZE_REGEX'] = 'not a str'
    elif 'regex' in facts:
        toks, groups, flagged = facts['regex']['toks'], facts['regex']['groups'], facts['regex']['ascii_or_ignorecase']
    else:
        ctx.notes['sizelit.HUMAN_SIZE_REGEX'] = f'not parsed: {facts.get("regex_error")}'
    emit('def sizeRegex : List SizeReTok := [' + ', '.join(toks) + ']')
    emit('/-- group numbers of `value`, `prefix`, `unit` (0 = no such group) -/')
    emit(f'def sizeRegexGroups : Nat × Nat × Nat := ({groups.get("value", 0)}, {groups.get("prefix", 0)}, {groups.get("unit", 0)})')
    emit(f'def sizeRegexGroupCount : Nat := {len(groups)}')
    emit(f'def sizeRegexUnicode : Bool := {"true" if isinstance(pattern, str) and not flagged else "false"}')

    # ---- the glue functions
    csrc = (ctx.REPO / 'replicat' / 'utils' / 'cli.py').read_text()
    ctree = ast.parse(csrc)
    want = {
        ('utils', 'human_to_bytes'): (
            "match = re.fullmatch(HUMAN_SIZE_REGEX, value)\nif match is None:\n    raise ValueError\ngroups = match.groupdict()\n"
            "bytes_amount = Decimal(groups['value'])\nif groups['prefix'] is not None:\n    bytes_amount *= PREFIXES_TABLE[groups['prefix']]\n"
            "if groups['unit'] is not None:\n    bytes_amount *= UNITS_TABLE[groups['unit']]\nreturn int(bytes_amount)"),
        ('cli', '_natural_number'): "if (converted := int(value)) < 1:\n    raise ValueError\nreturn converted",
        ('cli', '_rate_limit'): "return _natural_number(human_to_bytes(value))",
    }
    glue_ok = True
    for (mod, name), body in want.items():
        f = ctx.find_func(utree if mod == 'utils' else ctree, name)
        ctx.fp(f'{mod}.{name}', f)
        got = '\n'.join(ctx.unparse(s) for s in f.body) if f is not None else None
        if got != body:
            glue_ok = False
            ctx.notes[f'sizelit.{name}'] = 'body differs from the modelled one'
    h2b = ctx.find_func(utree, 'human_to_bytes')
    fullmatch = False
    if h2b is not None:
        # whole-string matching: some `….fullmatch(…)` call and no other matching primitive (however the pattern object is obtained)
        attrs = [n.func.attr for n in ast.walk(h2b) if isinstance(n, ast.Call) and isinstance(n.func, ast.Attribute)]
        fullmatch = 'fullmatch' in attrs and not any(a in ('match', 'search', 'findall', 'finditer', 'sub', 'subn', 'split') for a in attrs)
    emit(f'def sizeRegexFullmatch : Bool := {"true" if fullmatch else "false"}')
    emit(f'def sizeGlueRecognised : Bool := {"true" if glue_ok else "false"}')
    # the names used in human_to_bytes / cli must be the module-level ones (no re-binding of Decimal / int / re)
    rebound = sorted({t.id for st in utree.body if isinstance(st, (ast.Assign, ast.FunctionDef, ast.ClassDef))
                      for t in (st.targets if isinstance(st, ast.Assign) else [ast.Name(id=st.name)])
                      if isinstance(t, ast.Name) and t.id in ('Decimal', 'int', 're')})
    emit(f'def sizeNamesRebound : Bool := {"true" if rebound else "false"}')

    # ---- the arithmetic context
    touched = []
    for f in sorted((ctx.REPO / 'replicat').rglob('*.py')):
        if '/tests/' in str(f):
            continue
        if re.search(r'\b(getcontext|setcontext|localcontext|DefaultContext|BasicContext|ExtendedContext)\b', f.read_text()):
            touched.append(str(f.relative_to(ctx.REPO)))
    if touched:
        ctx.notes['sizelit.decimal_context'] = f'touched in {touched}'
    emit(f'/-- `decimal.DefaultContext` of CPython {facts["python"]} (the context every thread starts with) -/')
    emit(f'def decimalPrec : Nat := {int(facts["prec"])}')
    emit(f'def decimalHalfEven : Bool := {"true" if facts["half_even"] else "false"}')
    emit(f'def decimalContextTouched : Bool := {"true" if touched else "false"}')

    # ---- character classes of `re` (str patterns) = what Decimal accepts as digits
    zeros, spaces, unidata = list(facts['zeros']), list(facts['spaces']), facts['unidata']
    if not facts['blocks_ok']:
        ctx.notes['sizelit.digits'] = 'decimal digits do not come in blocks of ten'
        zeros = []
    emit(f'/-- code points of the zeros of every block of ten decimal digits (Unicode {unidata}; `\\d` of `re` for str patterns) -/')
    emit('def decimalZeros : List Nat := [' + ', '.join(map(str, zeros)) + ']')
    emit('/-- code points matched by `\\s` (str patterns) -/')
    emit('def spaceChars : List Nat := [' + ', '.join(map(str, spaces)) + ']')
    ctx.notes['sizelit.unicode'] = f'Unicode {unidata}: {len(zeros)} digit blocks, {len(spaces)} white-space code points'

    # ---- where the limit can come from
    opts = []
    for node in ast.walk(ctree):
        if isinstance(node, ast.Call) and isinstance(node.func, ast.Attribute) and node.func.attr == 'add_argument':
            kw = {k.arg: k.value for k in node.keywords}
            if 'dest' in kw and isinstance(kw['dest'], ast.Constant) and kw['dest'].value == 'rate_limit':
                flags_ = [a.value for a in node.args if isinstance(a, ast.Constant)]
                ty = ctx.unparse(kw['type']) if 'type' in kw else ''
                others = sorted(set(kw) - {'dest', 'type', 'help'})
                opts.append((flags_, ty, others))
    emit('/-- options with `dest=\'rate_limit\'`, one per sub-command: (flags, type function, keywords other than dest/type/help) -/')
    emit('def rateLimitOptions : List (List String × String × List String) := ['
         + ', '.join('([%s], %s, [%s])' % (', '.join(_lean_str(x) for x in fl), _lean_str(ty), ', '.join(_lean_str(x) for x in oth))
                     for fl, ty, oth in opts) + ']')
    cfgsrc = (ctx.REPO / 'replicat' / 'utils' / 'config.py').read_text()
    cfgtree = ast.parse(cfgsrc)
    cfg = ctx.find_func(cfgtree, 'Config')
    fields = [st.target.id for st in (cfg.body if cfg is not None else []) if isinstance(st, ast.AnnAssign) and isinstance(st.target, ast.Name)]
    keys, envs = [], []
    for node in ast.walk(cfg) if cfg is not None else []:
        if isinstance(node, ast.Call):
            fn = ctx.unparse(node.func)
            if fn in ('self.popset', 'self.getset') and len(node.args) >= 2 and isinstance(node.args[1], ast.Constant):
                (envs if ctx.unparse(node.args[0]) == 'os.environ' else keys).append(node.args[1].value)
            elif fn == 'remaining.pop' and node.args and isinstance(node.args[0], ast.Constant):
                keys.append(node.args[0].value)
            elif fn == '_get_environb' and node.args and isinstance(node.args[0], ast.Constant):
                envs.append(node.args[0].value)

    def ratey(s):
        s = str(s).lower()
        return 'rate' in s or 'limit' in s
    from_file = cfg is None or any(ratey(x) for x in fields + keys)
    from_env = cfg is None or any(ratey(x) for x in envs)
    main_src = (ctx.REPO / 'replicat' / '__main__.py').read_text()
    # any other read of the environment in the option pipeline would be a new source
    env_reads_main = len(re.findall(r'os\.environ|getenv', main_src))
    emit('/-- `Config` fields %s; file keys %s; environment variables %s -/' % tuple(str(x).replace('-/', '- /') for x in (fields, keys, envs)))
    emit(f'def rateLimitFromFile : Bool := {"true" if from_file else "false"}')
    emit(f'def rateLimitFromEnv : Bool := {"true" if (from_env or env_reads_main) else "false"}')
    ctx.notes['sizelit.sources'] = f'Config fields {fields}; file keys {keys}; env {envs}'

    # ---- piece sizes at the four call sites
    rsrc = (ctx.REPO / 'replicat' / 'repository.py').read_text()
    rtree = ast.parse(rsrc)
    sites = []
    for fn, var in PIECE_VARS.items():
        f = ctx.find_func(rtree, 'Repository', fn)
        exprs = []
        for node in ast.walk(f) if f is not None else []:
            if isinstance(node, ast.Assign) and len(node.targets) == 1 and ctx.unparse(node.targets[0]) == var \
                    and any(isinstance(n, ast.Name) and n.id == 'rate_limit' for n in ast.walk(node.value)):
                exprs.append(node.value)
        if len(exprs) == 1:
            sites.append((fn, _piece_tokens(exprs[0]), ctx.unparse(exprs[0])))
        else:
            sites.append((fn, ['.other'], f'{len(exprs)} assignments'))
            ctx.notes[f'sizelit.piece.{fn}'] = f'{len(exprs)} assignments of {var} from rate_limit'
    emit('/-- `max(rate_limit // (self._concurrent * 16), 1)` as written at each call site, postfix -/')
    emit('def pieceSites : List (String × List PieceTok) := [' + ', '.join('("%s", [%s])' % (fn, ', '.join(t)) for fn, t, _ in sites) + ']')
    for fn, _t, text in sites:
        emit(f'-- {fn}: {text}'.replace('\n', ' '))
