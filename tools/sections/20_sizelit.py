"""C20 plug-in of the extractor: the size literal a user writes for `-L/--limit-rate` and the transfer piece sizes.

Regenerated from the source on every run (nothing here is typed by hand in the model):

* `PREFIXES_TABLE` (in dict order = order of the regex alternation) and `UNITS_TABLE` (an `int` n as coefficient n,
  scale 0; `Decimal('0.125')` as coefficient 125, scale 3 — exactly the operand `Decimal.__mul__` gets);
* `HUMAN_SIZE_REGEX`, evaluated from its defining expression and parsed with CPython's own `re._parser`, as a
  structural description (a prefix-order token list `SizeReTok`), the group names, the Unicode flag, and the fact that
  `human_to_bytes` uses `re.fullmatch` on it;
* the bodies of `human_to_bytes`, `_natural_number`, `_rate_limit` (normalised text compared with the modelled one — ADVISORY:
  `sizeGlueRecognised` is not a proof obligation, a harmless rewrite must not alarm; it makes the harness spend more cases);
* the arithmetic context: precision and rounding of `decimal.DefaultContext`, and whether anything in `replicat/`
  touches the decimal context;
* the character classes `\\d` / `\\s` of the running CPython for `str` patterns (every block of ten decimal digits by the
  code point of its zero; every white-space code point) — they are what `re` and `Decimal` use, so the model covers
  every string, not only ASCII;
* the options whose `dest` is `rate_limit` (sub-parser, flags, type function) and whether the configuration file or
  the environment can supply the limit (`Config` fields, keys popped in `apply_known`, variables read in `apply_env`);
* the piece-size expression at the four call sites (`snapshot`, `restore`, `upload_objects`, `download_objects`) as a
  postfix token list `PieceTok` that the model evaluates.

Anything not recognised is emitted as an empty table / `other` token / `false` flag, so that the model still compiles and
the `decide` discharge in `Properties/C20.lean` (`size_literal_source_facts`) stops compiling instead.
"""
import ast
import importlib.util
import re
import sys
from decimal import Decimal
from pathlib import Path

sys.path.insert(0, str(Path(__file__).resolve().parent.parent))
import optflow as F  # noqa: E402 — tools/optflow.py: symbolic execution of the source under test


def _lean_chars(s):
    return '[' + ', '.join(f"Char.ofNat {ord(c)}" for c in s) + ']'


def _lean_str(x):
    import json
    return json.dumps(str(x))


def _safe_eval(node, env):
    """evaluate a module-level expression of utils/__init__.py (dict / int arithmetic / Decimal('…') / '%' / str.join)"""
    return eval(compile(ast.Expression(node), '<extract>', 'eval'), {'__builtins__': {}}, dict(env))  # noqa: S307


CHILD = r'''
import json, re, sys, decimal, unicodedata
def _re_tokens(pattern):
    import re._parser as sp
    from re._constants import (BRANCH, CATEGORY, CATEGORY_DIGIT, CATEGORY_SPACE, IN, LITERAL, MAX_REPEAT, MAXREPEAT, MIN_REPEAT,
                               SUBPATTERN)
    p = sp.parse(pattern)
    toks = []

    def seq(items):
        items = list(items)
        if len(items) != 1:
            toks.append(f'.seq {len(items)}')
        for it in items:
            one(it)

    def one(it):
        op, av = it
        if op is SUBPATTERN:
            g, add, dele, sub = av
            toks.append(f'.grp {g if g is not None else 0}' if not (add or dele) else f'.other "subpattern-flags"')
            seq(sub)
        elif op in (MAX_REPEAT, MIN_REPEAT):
            lo, hi, sub = av
            kind = {(MAX_REPEAT, 0, 1): '.opt', (MAX_REPEAT, 0, MAXREPEAT): '.star', (MAX_REPEAT, 1, MAXREPEAT): '.plus',
                    (MIN_REPEAT, 0, MAXREPEAT): '.lazyStar'}.get((op, lo, hi))
            toks.append(kind or f'.other "repeat {op} {lo} {hi}"')
            seq(sub)
        elif op is IN:
            if av == [(CATEGORY, CATEGORY_DIGIT)]:
                toks.append('.digit')
            elif av == [(CATEGORY, CATEGORY_SPACE)]:
                toks.append('.space')
            elif all(o is LITERAL for o, _ in av):
                toks.append('.set [' + ', '.join(str(c) for _, c in av) + ']')
            else:
                toks.append(f'.other "class"')
        elif op is LITERAL:
            toks.append(f'.chr {av}')
        elif op is BRANCH:
            toks.append(f'.alt {len(av[1])}')
            for alt in av[1]:
                seq(alt)
        else:
            toks.append(f'.other "{str(op).lower()}"')

    seq(p)
    return toks, dict(p.state.groupdict), p.state.flags



pattern = json.load(sys.stdin)['pattern']
out = {}
try:
    toks, groups, flags = _re_tokens(pattern) if isinstance(pattern, str) else (['.other "not evaluated"'], {}, 0)
    out['regex'] = {'toks': toks, 'groups': groups, 'ascii_or_ignorecase': bool(flags & (re.ASCII | re.IGNORECASE))}
except Exception as e:
    out['regex_error'] = repr(e)
allc = ''.join(chr(i) for i in range(0x110000) if not 0xD800 <= i < 0xE000)
digs = re.findall(r'\d', allc)
zeros = [ord(c) for c in digs if unicodedata.decimal(c) == 0]
out['blocks_ok'] = len(zeros) * 10 == len(digs) and all(unicodedata.decimal(chr(z + i), -1) == i for z in zeros for i in range(10))
out['zeros'] = zeros
out['spaces'] = [ord(c) for c in re.findall(r'\s', allc)]
out['unidata'] = unicodedata.unidata_version
out['prec'] = decimal.DefaultContext.prec
out['half_even'] = decimal.DefaultContext.rounding == decimal.ROUND_HALF_EVEN
out['python'] = sys.version.split()[0]
print(json.dumps(out))
'''


def _interpreter_facts(pattern):
    """regex tree, character classes and decimal context of the interpreter that RUNS replicat (/venv/bin/python)"""
    import json
    import os
    import subprocess
    import sys
    py = '/venv/bin/python' if os.path.exists('/venv/bin/python') else sys.executable
    p = subprocess.run([py, '-c', CHILD], input=json.dumps({'pattern': pattern}), capture_output=True, text=True, timeout=120)
    if p.returncode != 0:
        raise RuntimeError('interpreter facts: ' + p.stderr[-400:])
    return json.loads(p.stdout)


COMMANDS = ('snapshot', 'restore', 'upload_objects', 'download_objects')


def _piece_tokens(t):
    """postfix tokens of an integer expression (a TERM of the symbolic execution) over `rate_limit` and `self._concurrent`"""
    if t.op == 'p' and t.a[0] == 'rate_limit':
        return ['.limit']
    if t.op == 'attr' and t.a[1] == '_concurrent' and t.a[0].op == 'self':
        return ['.conc']
    if F.is_k(t) and type(t.a[0]) is int and t.a[0] >= 0:
        return [f'.lit {t.a[0]}']
    if t.op == 'bin' and t.a[0] in ('*', '//', '+'):
        op = {'*': '.mul', '//': '.floordiv', '+': '.add'}[t.a[0]]
        a, b = _piece_tokens(t.a[1]), _piece_tokens(t.a[2])
        if op != '.floordiv':
            a, b = sorted([a, b])      # `*` and `+` commute on ints (no side effects here): one canonical operand order
        return a + b + [op]
    if t.op == 'call' and F.callee_name(t.a[0]) in ('max', 'min') and t.a[0].op == 'g' and len(t.a[1]) == 2 and not t.a[2]:
        a, b = sorted([_piece_tokens(t.a[1][0]), _piece_tokens(t.a[1][1])])
        return a + b + ['.max2' if F.callee_name(t.a[0]) == 'max' else '.min2']
    return ['.other']


def _piece_text(t):
    """Python-like rendering of a piece-size term (a comment in Generated.lean)"""
    if t.op == 'p':
        return t.a[0]
    if t.op == 'attr' and t.a[0].op == 'self':
        return 'self.' + t.a[1]
    if F.is_k(t):
        return repr(t.a[0])
    if t.op == 'bin':
        l, r = _piece_text(t.a[1]), _piece_text(t.a[2])
        if t.a[2].op == 'bin':
            r = f'({r})'
        if t.a[1].op == 'bin' and t.a[1].a[0] != t.a[0]:
            l = f'({l})'
        return f'{l} {t.a[0]} {r}'
    if t.op == 'call' and F.callee_name(t.a[0]) in ('max', 'min') and not t.a[2]:
        return f'{F.callee_name(t.a[0])}(' + ', '.join(_piece_text(x) for x in t.a[1]) + ')'
    return F.show(t)[:80]


def _stream_calls(ex):
    """every call of `self.backend.upload_stream` / `download_stream`, direct (`f(*args)`) or deferred
    (`run_in_executor(executor, f, *args)`, `to_thread(f, *args)`, `partial(f, *args)`, `submit(f, *args)`) →
    (method name, positional args, keyword args, event)"""
    def is_stream(t):
        sm = F.split_method(t)
        if sm is not None and sm[1] in ('upload_stream', 'download_stream') and sm[0].op == 'attr' and sm[0].a[1] == 'backend' \
                and sm[0].a[0].op == 'self':
            return sm[1]
        return None
    for e in ex.events:
        if e.kind != 'call':
            continue
        m = is_stream(e.f)
        if m is not None:
            yield m, e.args, e.kwargs, e
            continue
        # deferred: only the known "run this function with these arguments" callers (a repo function that was followed shows
        # the real call in its body; a predicate such as `inspect.iscoroutinefunction(f)` is not a call of f)
        sm = F.split_method(e.f)
        runner = (sm[1] if sm is not None else (F.callee_name(e.f) or '').split('.')[-1])
        if e.inlined or runner not in ('run_in_executor', 'submit', 'to_thread', 'partial', 'run_sync', 'call_soon', 'call_soon_threadsafe'):
            continue
        for i, a in enumerate(e.args):
            m = is_stream(a) if isinstance(a, F.T) and a.op in ('attr', 'bound') else None
            if m is not None:
                yield m, e.args[i + 1:], tuple((k, v) for k, v in e.kwargs if k not in ('executor', 'loop')), e


def piece_site(repo, name):
    """the piece size that reaches the backend's stream method inside command `name` when a rate limit is given →
    (tokens, text).  Found by following the value into the call, wherever it is computed."""
    fn = repo.func('replicat.repository', 'Repository', name)
    base = repo.cls('replicat.backends.base', 'Backend')
    if fn is None or base is None:
        return ['.other'], 'command / Backend not found'
    ex = F.Exec(repo)
    ex.run(fn)
    given = F.Val().set(F.mk('isnone', F.mk('p', 'rate_limit')), False)
    found = {}
    n = 0
    for meth, args, kwargs, ev in _stream_calls(ex):
        if F.truth(ev.pc, given) is False:
            continue
        sig = base.find_method(meth)
        names = [a.arg for a in sig.node.args.args][1:] if sig is not None else []
        if 'chunk_size' not in names or any(a.op == 'star' for a in args):
            return ['.other'], f'{meth}: signature / starred arguments'
        i = names.index('chunk_size')
        v = dict((k, x) for k, x in kwargs if k is not None).get('chunk_size', args[i] if i < len(args) else None)
        n += 1
        if v is None:
            return ['.other'], f'{meth} called without a piece size'
        r = F.resolve(v, given)
        found[id(r)] = r
    if n == 0:
        return ['.other'], 'no stream call'
    toks = {tuple(_piece_tokens(r)) for r in found.values()}
    if len(toks) != 1:
        return ['.other'], f'{len(toks)} different piece sizes'
    r = next(iter(found.values()))
    return list(toks.pop()), _piece_text(r)


# ------------------------------------------------------------------ the glue functions, by behaviour
def _group_of(t, M):
    """`M.groupdict()['g']`, `M.group('g')`, `M['g']` → 'g'"""
    if t.op == 'item' and isinstance(F.kval(t.a[1]), str):
        b = t.a[0]
        if b is M:
            return F.kval(t.a[1])
        if b.op == 'call' and F.split_method(b.a[0]) == (M, 'groupdict') and not b.a[1] and not b.a[2]:
            return F.kval(t.a[1])
    if t.op == 'call' and F.split_method(t.a[0]) == (M, 'group') and len(t.a[1]) == 1 and isinstance(F.kval(t.a[1][0]), str) and not t.a[2]:
        return F.kval(t.a[1][0])
    return None


def _amount_shape(t, M):
    if t.op == 'call' and F.callee_name(t.a[0]) == 'decimal.Decimal' and len(t.a[1]) == 1 and not t.a[2]:
        g = _group_of(t.a[1][0], M)
        return ('dec', g) if g else None
    if t.op == 'bin' and t.a[0] == '*':
        l = _amount_shape(t.a[1], M)
        r = t.a[2]
        if l is not None and r.op == 'item' and r.a[0].op == 'gv':
            g = _group_of(r.a[1], M)
            if g:
                return ('mul', l, (r.a[0].a[0].split('.')[-1], g))
    return None


def _match_event(ex, V):
    """the event that matches V against HUMAN_SIZE_REGEX as a whole → (event, other matching primitives used)"""
    hit, other = None, []
    for e in ex.events:
        if e.kind != 'call':
            continue
        n = e.fq() or ''
        sm = F.split_method(e.f)
        prim = n.split('.')[-1] if n.startswith('re.') else (sm[1] if sm is not None else None)
        if prim not in ('fullmatch', 'match', 'search', 'findall', 'finditer', 'sub', 'subn', 'split'):
            continue
        is_regex = lambda t: t.op == 'gv' and t.a[0] == 'replicat.utils.HUMAN_SIZE_REGEX'      # noqa: E731
        direct = n == 're.fullmatch' and len(e.args) == 2 and is_regex(e.args[0]) and e.args[1] is V and not e.kwargs
        compiled = False
        if sm is not None and sm[1] == 'fullmatch' and list(e.args) == [V] and not e.kwargs:
            pat = sm[0].a[1] if sm[0].op == 'gv' else sm[0]
            compiled = pat.op == 'call' and F.callee_name(pat.a[0]) == 're.compile' and len(pat.a[1]) == 1 and is_regex(pat.a[1][0]) and not pat.a[2]
        if (direct or compiled) and hit is None:
            hit = e
        else:
            other.append(e)
    return hit, other


def glue_human_to_bytes(repo):
    """→ (behaves as modelled, whole-string match on the regex)"""
    fn = repo.func('replicat.utils', 'human_to_bytes')
    if fn is None:
        return False, False
    V = F.mk('p', fn.node.args.args[0].arg)
    ex = F.Exec(repo)
    ret = ex.run(fn)
    me, other = _match_event(ex, V)
    if me is None or other:
        return False, False
    M = me.result
    full = F.contains(ret, M)
    raises = [e for e in ex.events if e.kind == 'raise']
    n0, t0 = F.mk('isnone', M), F.mk('truthy', M)       # a Match object is always true: `if not match` ≡ `if match is None`

    def matched(yes):
        return F.Val().set(n0, not yes).set(t0, yes)
    ok = len(raises) == 1 and F.callee_name(raises[0].value.a[0] if raises[0].value.op == 'call' else raises[0].value) == 'ValueError' \
        and F.truth(raises[0].pc, matched(False)) is True and F.truth(raises[0].pc, matched(True)) is False
    if ok:
        tests = {}
        for at in F.atoms(ret) + F.phi_atoms(ret):
            if at.op == 'isnone':
                g = _group_of(at.a[0], M)
                if g in ('prefix', 'unit'):
                    tests.setdefault(g, []).append(at)
        if set(tests) != {'prefix', 'unit'}:
            ok = False
        for has_p in (True, False):
            for has_u in (True, False):
                if not ok:
                    break
                val = matched(True)
                for at in tests['prefix']:
                    val.set(at, not has_p)
                for at in tests['unit']:
                    val.set(at, not has_u)
                r = F.resolve(ret, val)
                want = ('dec', 'value')
                if has_p:
                    want = ('mul', want, ('PREFIXES_TABLE', 'prefix'))
                if has_u:
                    want = ('mul', want, ('UNITS_TABLE', 'unit'))
                if not (r.op == 'call' and F.callee_name(r.a[0]) == 'int' and len(r.a[1]) == 1 and not r.a[2]
                        and _amount_shape(r.a[1][0], M) == want):
                    ok = False
    return ok, full


def _shared(ctx):
    """what tools/sections/19_options.py already computed in this run (argparse introspection, Config.apply_known /
    apply_env by symbolic execution); computed here if that plug-in did not run"""
    sh = getattr(ctx, 'c19_shared', None)
    if sh is not None:
        return sh
    spec = importlib.util.spec_from_file_location('sections_19_options_for_sizelit', Path(__file__).resolve().parent / '19_options.py')
    mod = importlib.util.module_from_spec(spec)
    spec.loader.exec_module(mod)
    return {'info': mod.introspect(ctx), 'config': mod.config_ast(ctx), 'ty_of': mod.ty_of, 'TY_CLI': mod.TY_CLI,
            'classify': mod.classify_by_behaviour}


def section(ctx):
    emit = ctx.emit
    usrc = (ctx.REPO / 'replicat' / 'utils' / '__init__.py').read_text()
    utree = ast.parse(usrc)
    emit('/-- structural description of `HUMAN_SIZE_REGEX` (CPython `re._parser` tree in prefix order; `grp 0` = unnamed group) -/')
    emit('inductive SizeReTok where')
    emit('  | grp (n : Nat) | seq (n : Nat) | alt (n : Nat) | opt | star | plus | lazyStar | digit | space')
    emit('  | chr (c : Nat) | set (cs : List Nat) | other (what : String)')
    emit('  deriving DecidableEq, Repr')
    emit('/-- postfix description of an integer expression over `rate_limit` and `self._concurrent` -/')
    emit('inductive PieceTok where')
    emit('  | limit | conc | lit (n : Nat) | mul | floordiv | add | max2 | min2 | other')
    emit('  deriving DecidableEq, Repr')

    # ---- tables and the regex, evaluated from their defining expressions
    env = {'Decimal': Decimal}
    assigned = {}
    for st in utree.body:
        if isinstance(st, ast.Assign) and len(st.targets) == 1 and isinstance(st.targets[0], ast.Name) \
                and st.targets[0].id in ('PREFIXES_TABLE', 'UNITS_TABLE', 'HUMAN_SIZE_REGEX'):
            try:
                assigned[st.targets[0].id] = env[st.targets[0].id] = _safe_eval(st.value, env)
            except Exception as e:  # noqa: BLE001
                ctx.notes[f'sizelit.{st.targets[0].id}'] = f'not evaluable: {e!r}'
            ctx.fp(f'utils.{st.targets[0].id}', st)
    prefixes = assigned.get('PREFIXES_TABLE')
    rows = []
    if isinstance(prefixes, dict) and all(isinstance(k, str) and k and type(v) is int and v > 0 for k, v in prefixes.items()):
        rows = list(prefixes.items())
    else:
        ctx.notes['sizelit.PREFIXES_TABLE'] = 'not a dict str -> positive int'
    emit('/-- `PREFIXES_TABLE` in dict order (the order of the alternation in the regex): key characters, multiplier -/')
    emit('def sizePrefixes : List (List Char × Nat) := [' + ', '.join(f'({_lean_chars(k)}, {v})' for k, v in rows) + ']')
    units = assigned.get('UNITS_TABLE')
    urows = []
    ok_units = isinstance(units, dict)
    if ok_units:
        for k, v in units.items():
            if not (isinstance(k, str) and len(k) == 1):
                ok_units = False
                break
            if type(v) is int and v > 0:
                urows.append((k, v, 0))
            elif isinstance(v, Decimal) and v.is_finite() and v > 0 and v.as_tuple().exponent <= 0:
                t = v.as_tuple()
                urows.append((k, int(''.join(map(str, t.digits))), -t.exponent))
            else:
                ok_units = False
                break
    if not ok_units:
        urows = []
        ctx.notes['sizelit.UNITS_TABLE'] = 'not a dict char -> positive int | Decimal with exponent <= 0'
    emit('/-- `UNITS_TABLE`: key, coefficient, scale (the multiplier is coefficient / 10^scale, the operand `Decimal.__mul__` receives) -/')
    emit('def sizeUnits : List (Char × Nat × Nat) := [' + ', '.join(f'(Char.ofNat {ord(k)}, {c}, {s})' for k, c, s in urows) + ']')
    pattern = assigned.get('HUMAN_SIZE_REGEX')
    try:
        facts = _interpreter_facts(pattern if isinstance(pattern, str) else None)
    except Exception as e:  # noqa: BLE001
        # the definitions below must exist whatever happens (the model has to compile); the `decide` discharge then fails
        ctx.notes['sizelit.interpreter'] = f'interpreter facts not available: {e!r}'[:300]
        facts = {'regex_error': 'no interpreter facts', 'zeros': [], 'spaces': [], 'blocks_ok': False, 'unidata': '?', 'prec': 0,
                 'half_even': False, 'python': '?'}
    toks, groups, flagged = ['.other "not evaluated"'], {}, True
    if not isinstance(pattern, str):
        ctx.notes['sizelit.HUMAN_SIZE_REGEX'] = 'not a str'
    elif 'regex' in facts:
        toks, groups, flagged = facts['regex']['toks'], facts['regex']['groups'], facts['regex']['ascii_or_ignorecase']
    else:
        ctx.notes['sizelit.HUMAN_SIZE_REGEX'] = f'not parsed: {facts.get("regex_error")}'
    emit('def sizeRegex : List SizeReTok := [' + ', '.join(toks) + ']')
    emit('/-- group numbers of `value`, `prefix`, `unit` (0 = no such group) -/')
    emit(f'def sizeRegexGroups : Nat × Nat × Nat := ({groups.get("value", 0)}, {groups.get("prefix", 0)}, {groups.get("unit", 0)})')
    emit(f'def sizeRegexGroupCount : Nat := {len(groups)}')
    emit(f'def sizeRegexUnicode : Bool := {"true" if isinstance(pattern, str) and not flagged else "false"}')

    # ---- the glue functions: by what they do (symbolic execution), not by their text
    csrc = (ctx.REPO / 'replicat' / 'utils' / 'cli.py').read_text()
    ctree = ast.parse(csrc)
    repo = F.shared_repo(ctx.REPO)
    for (mod, name) in [('utils', 'human_to_bytes'), ('cli', '_natural_number'), ('cli', '_rate_limit')]:
        ctx.fp(f'{mod}.{name}', ctx.find_func(utree if mod == 'utils' else ctree, name))      # (fingerprints: advisory)
    try:
        h2b_ok, fullmatch = glue_human_to_bytes(repo)
    except Exception as e:  # noqa: BLE001
        h2b_ok, fullmatch = False, False
        ctx.notes['sizelit.human_to_bytes'] = f'not analysed: {e!r}'
    # the type function of the -L options (whatever it is called) must BEHAVE as `int(human_to_bytes(v))`, refusing < 1
    cli_ok = False
    try:
        sh0 = _shared(ctx)
        tyfq = {a['type'] for grp in [sh0['info'].get('initial', []), sh0['info'].get('common', []), sh0['info'].get('top', [])]
                + [c['specific'] for c in sh0['info'].get('commands', [])] for a in grp if a['dest'] == 'rate_limit'}
        cli_ok = bool(tyfq) and all(t is not None and sh0['classify'](repo, t) == 'rateLimit' for t in tyfq)
    except Exception as e:  # noqa: BLE001
        ctx.notes['sizelit.cli'] = f'not analysed: {e!r}'[:200]
    glue_ok = h2b_ok and cli_ok
    if not h2b_ok:
        ctx.notes['sizelit.human_to_bytes'] = ctx.notes.get('sizelit.human_to_bytes', 'behaviour differs from the modelled one')
    if not cli_ok:
        ctx.notes['sizelit._rate_limit'] = 'behaviour of _natural_number / _rate_limit differs from the modelled one'
    emit(f'def sizeRegexFullmatch : Bool := {"true" if fullmatch else "false"}')
    emit(f'def sizeGlueRecognised : Bool := {"true" if glue_ok else "false"}')
    # the names used in human_to_bytes / cli must be the module-level ones (no re-binding of Decimal / int / re)
    rebound = sorted({t.id for st in utree.body if isinstance(st, (ast.Assign, ast.FunctionDef, ast.ClassDef))
                      for t in (st.targets if isinstance(st, ast.Assign) else [ast.Name(id=st.name)])
                      if isinstance(t, ast.Name) and t.id in ('Decimal', 'int', 're')})
    emit(f'def sizeNamesRebound : Bool := {"true" if rebound else "false"}')

    # ---- the arithmetic context
    touched = []
    for f in sorted((ctx.REPO / 'replicat').rglob('*.py')):
        if '/tests/' in str(f):
            continue
        if re.search(r'\b(getcontext|setcontext|localcontext|DefaultContext|BasicContext|ExtendedContext)\b', f.read_text()):
            touched.append(str(f.relative_to(ctx.REPO)))
    if touched:
        ctx.notes['sizelit.decimal_context'] = f'touched in {touched}'
    emit(f'/-- `decimal.DefaultContext` of CPython {facts["python"]} (the context every thread starts with) -/')
    emit(f'def decimalPrec : Nat := {int(facts["prec"])}')
    emit(f'def decimalHalfEven : Bool := {"true" if facts["half_even"] else "false"}')
    emit(f'def decimalContextTouched : Bool := {"true" if touched else "false"}')

    # ---- character classes of `re` (str patterns) = what Decimal accepts as digits
    zeros, spaces, unidata = list(facts['zeros']), list(facts['spaces']), facts['unidata']
    if not facts['blocks_ok']:
        ctx.notes['sizelit.digits'] = 'decimal digits do not come in blocks of ten'
        zeros = []
    emit(f'/-- code points of the zeros of every block of ten decimal digits (Unicode {unidata}; `\\d` of `re` for str patterns) -/')
    emit('def decimalZeros : List Nat := [' + ', '.join(map(str, zeros)) + ']')
    emit('/-- code points matched by `\\s` (str patterns) -/')
    emit('def spaceChars : List Nat := [' + ', '.join(map(str, spaces)) + ']')
    ctx.notes['sizelit.unicode'] = f'Unicode {unidata}: {len(zeros)} digit blocks, {len(spaces)} white-space code points'

    # ---- where the limit can come from: the parsers argparse really builds, Config by symbolic execution
    opts = []
    fields, keys, envs = [], [], []
    have_cfg = False
    try:
        sh = _shared(ctx)
        info = sh['info']
        groups = [info.get('initial', []), info.get('common', []), info.get('top', [])] + [c['specific'] for c in info.get('commands', [])]
        for acts in groups:
            for a in acts:
                if a['dest'] != 'rate_limit':
                    continue
                # the function the model calls `_rate_limit` (= natural number of human_to_bytes), under whatever name
                ty = (a['type'] or '')
                if sh['ty_of'](repo, a['type'], sh['TY_CLI']) == 'rateLimit':
                    ty = '_rate_limit'
                elif ty.startswith('replicat.utils.cli.'):
                    ty = ty.rsplit('.', 1)[-1]
                    ty = ty + '?' if ty == '_rate_limit' else ty
                others = sorted(x for x, on in (('action', a['cls'] != '_StoreAction'), ('nargs', a['nargs'] is not None),
                                                ('default', a['default_kind'] != 'none'), ('required', a['required']),
                                                ('const', a['const_repr'] != 'None')) if on)
                opts.append((a['flags'], ty, others))
        fields = [f['name'] for f in info['config_fields']]
        file_keys, _mutex, env_vars, recognised = sh['config'][:4]
        keys = [k for k, _f, kind, _t in file_keys if kind == 'plain'] + [k for k, _f, kind, _t in file_keys if kind != 'plain']
        envs = [v for v, _f, _t in env_vars]
        have_cfg = bool(recognised) and bool(fields)
    except Exception as e:  # noqa: BLE001
        ctx.notes['sizelit.sources'] = f'not analysed: {e!r}'[:200]
    emit('/-- options with `dest=\'rate_limit\'`, one per sub-command: (flags, type function, keywords other than dest/type/help) -/')
    emit('def rateLimitOptions : List (List String × String × List String) := ['
         + ', '.join('([%s], %s, [%s])' % (', '.join(_lean_str(x) for x in fl), _lean_str(ty), ', '.join(_lean_str(x) for x in oth))
                     for fl, ty, oth in opts) + ']')

    def ratey(s):
        s = str(s).lower()
        return 'rate' in s or 'limit' in s
    from_file = (not have_cfg) or any(ratey(x) for x in fields + keys)
    from_env = (not have_cfg) or any(ratey(x) for x in envs)
    # any other read of the environment in the option pipeline would be a new source
    env_reads_main = 1
    try:
        fmain = repo.func('replicat.__main__', 'main')
        mx = F.Exec(repo, inline=lambda t, ex: t.nested or (t.module.fq == 'replicat.__main__' and t.name != '_cmd_handler'))
        mx.run(fmain)
        env_reads_main = 0
        seen = set()
        for e in mx.events:
            for t in [e.f, *(e.args or ()), *[v for _, v in (e.kwargs or ())], e.value, e.obj]:
                for x in (F.subterms(t, seen) if t is not None else ()):
                    if x.op == 'g' and (x.a[0].startswith(('os.environ', 'os.getenv', 'os.putenv')) or x.a[0] == 'getenv'):
                        env_reads_main += 1
    except Exception as e:  # noqa: BLE001
        ctx.notes['sizelit.main_env'] = f'not analysed: {e!r}'[:200]
    emit('/-- `Config` fields %s; file keys %s; environment variables %s -/' % tuple(str(x).replace('-/', '- /') for x in (fields, keys, envs)))
    emit(f'def rateLimitFromFile : Bool := {"true" if from_file else "false"}')
    emit(f'def rateLimitFromEnv : Bool := {"true" if (from_env or env_reads_main) else "false"}')
    ctx.notes['sizelit.sources'] = ctx.notes.get('sizelit.sources', f'Config fields {fields}; file keys {keys}; env {envs}')

    # ---- piece sizes: the value that reaches the backend's stream method in each of the four commands
    sites = []
    for fn in COMMANDS:
        try:
            toks, text = piece_site(repo, fn)
        except Exception as e:  # noqa: BLE001
            toks, text = ['.other'], f'not analysed: {e!r}'[:120]
        if toks == ['.other']:
            ctx.notes[f'sizelit.piece.{fn}'] = text
        sites.append((fn, toks, text))
    # (for the harness: the piece-size expressions as Python text over `rate_limit` / `self._concurrent`, wherever they are computed)
    import json as _json
    ctx.notes['sizelit.piece_exprs'] = _json.dumps({fn: text for fn, toks, text in sites if toks != ['.other']})
    emit('/-- `max(rate_limit // (self._concurrent * 16), 1)` as written at each call site, postfix -/')
    emit('def pieceSites : List (String × List PieceTok) := [' + ', '.join('("%s", [%s])' % (fn, ', '.join(t)) for fn, t, _ in sites) + ']')
    for fn, _t, text in sites:
        emit(f'-- {fn}: {text}'.replace('\n', ' '))
