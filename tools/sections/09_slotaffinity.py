"""Extractor plug-in for C09: THREAD AFFINITY OF THE CONNECTION-SLOT QUEUE.
Model: `ReplicatModel/SlotQ.lean`; theorems `slot_queue_*` in Properties/C09.lean.

The slot queue is an `asyncio` queue: neither it nor the futures it parks its getters on are thread-safe.  `Sched.lean` treats a slot
request / grant / release as atomic events; that is justified only if every step of the queue runs on the event-loop thread
(`SlotQ.on_loop_no_lost_wakeup`; the witnesses `foreign_put_loses_wakeup`, `foreign_wake_sleeping_loop` show what a give-back executed
by a loader thread itself can do).  Emitted, read structurally from the current source (name-free: the queue is the `self.<attr>` that
`Repository.__init__` binds to an `asyncio.*Queue(...)`):

* `slotQueueOnLoopOnly : Bool` — every reference to that attribute outside `__init__` is either lexically inside a coroutine function /
  async generator (runs on the loop), or inside the ARGUMENTS of a `call_soon_threadsafe(...)` / `run_coroutine_threadsafe(...)` call
  (handed to the loop through its self-pipe).  A reference in a plain function, a lambda or a nested `def` that is not under such a
  call is a use from a foreign thread as far as this recogniser can tell (`false`; never a guessed `true`).
* `slotQueueThreadSideRefs`, `slotQueueLoopSideRefs : Nat` — how many references of either kind were seen (non-vacuity: the thread-side
  manager takes AND gives back, so ≥ 2 thread-side references exist on the current tree).
"""
import ast

_HANDOVER = {'call_soon_threadsafe', 'run_coroutine_threadsafe'}


def _queue_attrs(init):
    out = []
    for n in ast.walk(init):
        if isinstance(n, ast.Assign) and isinstance(n.value, ast.Call):
            f = n.value.func
            nm = f.attr if isinstance(f, ast.Attribute) else f.id if isinstance(f, ast.Name) else ''
            mod = f.value.id if isinstance(f, ast.Attribute) and isinstance(f.value, ast.Name) else ''
            if nm.endswith('Queue') and mod in ('asyncio', ''):
                for t in n.targets:
                    if isinstance(t, ast.Attribute) and isinstance(t.value, ast.Name) and t.value.id == 'self':
                        out.append(t.attr)
    return out


def _callee(call):
    f = call.func
    return f.attr if isinstance(f, ast.Attribute) else f.id if isinstance(f, ast.Name) else None


def section(ctx):
    emit, notes = ctx.emit, ctx.notes
    tree = ast.parse((ctx.REPO / 'replicat' / 'repository.py').read_text())
    cls = ctx.find_func(tree, 'Repository')
    init = next((f for f in getattr(cls, 'body', []) if isinstance(f, ast.FunctionDef) and f.name == '__init__'), None)
    attrs = _queue_attrs(init) if init is not None else []
    # the slot queue is the asyncio queue that __init__ fills (put / put_nowait on it inside __init__)
    filled = [a for a in attrs if any(isinstance(n, ast.Call) and _callee(n) in ('put_nowait', 'put') and isinstance(n.func, ast.Attribute)
                                      and isinstance(n.func.value, ast.Attribute) and n.func.value.attr == a for n in ast.walk(init))]
    if len(filled) != 1:
        notes['slotaffinity.queue'] = f'{len(filled)} asyncio queues filled in __init__ (1 expected): {attrs}'
        emit('opaque slotQueueOnLoopOnly : Bool')
        emit('def slotQueueThreadSideRefs : Nat := 0')
        emit('def slotQueueLoopSideRefs : Nat := 0')
        return
    q = filled[0]
    loop_side, thread_side, bad = 0, 0, []

    def visit(node, in_async, under_handover, fname):
        """walk with context: innermost enclosing function kind, and whether we are inside the arguments of a hand-over call"""
        if isinstance(node, ast.AsyncFunctionDef):
            for ch in node.body:
                visit(ch, True, False, node.name)
            return
        if isinstance(node, (ast.FunctionDef, ast.Lambda)):
            body = node.body if isinstance(node.body, list) else [node.body]
            for ch in body:
                visit(ch, False, under_handover if isinstance(node, ast.Lambda) else False, getattr(node, 'name', '<lambda>'))
            return
        if isinstance(node, ast.Call) and _callee(node) in _HANDOVER:
            visit(node.func, in_async, under_handover, fname)
            for a in list(node.args) + [k.value for k in node.keywords]:
                visit(a, in_async, True, fname)
            return
        if isinstance(node, ast.Attribute) and node.attr == q and isinstance(node.value, ast.Name) and node.value.id == 'self':
            nonlocal loop_side, thread_side
            if under_handover:
                thread_side += 1
            elif in_async:
                loop_side += 1
            else:
                bad.append(f'{fname}:{node.lineno}')
            return
        for ch in ast.iter_child_nodes(node):
            visit(ch, in_async, under_handover, fname)

    for f in cls.body:
        if isinstance(f, (ast.FunctionDef, ast.AsyncFunctionDef)) and f.name != '__init__':
            visit(f, False, False, f.name)
    # aliases of the queue (`q = self._slots`) would escape the lexical rule: any binding of the attribute to a local makes the fact false
    for n in ast.walk(cls):
        if isinstance(n, (ast.Assign, ast.AnnAssign, ast.NamedExpr)) and n is not None:
            v = getattr(n, 'value', None)
            if isinstance(v, ast.Attribute) and v.attr == q and isinstance(v.value, ast.Name) and v.value.id == 'self':
                fn_init = init is not None and any(n is m for m in ast.walk(init))
                if not fn_init:
                    bad.append(f'alias:{n.lineno}')
    if bad:
        notes['slotaffinity.offloop'] = 'slot queue used outside the loop thread / outside a thread-safe hand-over: ' + ', '.join(bad[:6])
    ctx.fingerprints['slotaffinity.queue'] = q
    emit(f'def slotQueueOnLoopOnly : Bool := {"true" if not bad and (loop_side + thread_side) > 0 else "false"}')
    emit(f'def slotQueueThreadSideRefs : Nat := {thread_side}')
    emit(f'def slotQueueLoopSideRefs : Nat := {loop_side}')
