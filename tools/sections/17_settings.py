"""C17 — settings acceptance.  Regenerated from /repo on every run:

* the typed value universe and the guard language (fixed text; the model `ReplicatModel/Settings.lean` builds on them);
* `adapterTable` — one row per entry of `adapters._adapters` (name, abstract bases reached through the class hierarchy,
  keyword-only constructor parameters with their defaults, class-level integer constants, and the `if <cond>: raise …`
  guards at the head of `__init__`, translated into the guard language);
* the two settings schemas of `_validate_init_settings` / `_validate_add_key_settings`, the `DEFAULT_*_NAME` constants;
* `initStages` — the order in which `Repository.init` validates, builds the config, instantiates adapters, makes the key,
  encrypts its private part and UPLOADS the config (read off the statement order of the function body);
* `addKeyUploads` — whether add_key/_add_key touch the backend with a mutating call;
* `keyWriteInit`, `keyWriteAddKey` — how the statement under `if key_output_path is not None:` opens the key file
  (truncating / via rename / in place / appending / exclusive; helpers of `Repository` are followed), and
  `keyWriteAfterChecks` — that statement comes after the last statement that can refuse the settings.

Anything not recognised raises → extract.py records the failure and emits `settingsSectionOk := false` only, so every
dependent definition in Settings.lean stops compiling (reported as a broken obligation, never assumed).
"""
import ast
import json
from fractions import Fraction

PRELUDE = r'''
/-- typed value universe of a settings entry (what JSON / TOML / `ast.literal_eval` of a CLI flag can produce, minus containers) -/
inductive Val where
  | int (i : Int)
  | bool (b : Bool)
  | float (q : Rat)      -- a finite float, with its exact value
  | nan
  | str (s : String)
  | none
  deriving DecidableEq, Repr, Inhabited

inductive CmpOp where | lt | le | gt | ge | eq | ne
  deriving DecidableEq, Repr

inductive GTerm where
  | param (p : String)
  | lit (i : Int)
  | add (a : GTerm) (k : Int)      -- `a + k` / `a - k` with an integer literal
  deriving DecidableEq, Repr

/-- conditions of the `if <cond>: raise` statements at the head of an adapter constructor -/
inductive GCond where
  | cmp (op : CmpOp) (a b : GTerm)
  | chain (a : GTerm) (op1 : CmpOp) (b : GTerm) (op2 : CmpOp) (c : GTerm)
  | isIn (a : GTerm) (vals : List Int)
  | notIn (a : GTerm) (vals : List Int)
  | isInt (a : GTerm)
  | neg (c : GCond)
  | conj (c d : GCond)
  | disj (c d : GCond)
  deriving DecidableEq, Repr

structure Guard where
  cond : GCond
  raises : String
  deriving DecidableEq, Repr

structure AdapterRow where
  name : String
  kinds : List String
  params : List (String × Option Val)
  consts : List (String × Int)
  guards : List Guard
  deriving Repr

/-- statements of `Repository.init`, in source order; the flag says "inside `if props.encrypted:`" -/
inductive InitStage where
  | validate | makeConfig | instantiateConfig | passwordCheck | makeKey | instantiateKey | encryptPrivate | uploadConfig
  deriving DecidableEq, Repr

/-- how the statement that writes the key file (`init`, `_add_key`: `-o / --key-output-file`) opens its output path -/
inductive WriteMode where
  | truncate      -- `Path.write_bytes`, `open(path, 'wb')`, `os.open(… | O_TRUNC)`: earlier content is discarded
  | replace       -- written to a temporary file which is then renamed onto the path
  | inPlace       -- opened for writing without truncation: bytes beyond the new data survive
  | append        -- `'ab'` / `O_APPEND`
  | exclusive     -- `'xb'` / `O_EXCL`: an existing file is refused
  deriving DecidableEq, Repr, Inhabited
'''

ABSTRACT = {'CipherAdapter', 'KDFAdapter', 'MACAdapter', 'HashAdapter', 'ChunkerAdapter'}
CMP = {ast.Lt: 'lt', ast.LtE: 'le', ast.Gt: 'gt', ast.GtE: 'ge', ast.Eq: 'eq', ast.NotEq: 'ne'}


class NotRecognised(Exception):
    pass


def lean_str(s):
    return json.dumps(s, ensure_ascii=False)


def lean_int(i):
    return f'({i})' if i < 0 else str(i)


def lean_val(v):
    if isinstance(v, bool):
        return f'.bool {"true" if v else "false"}'
    if isinstance(v, int):
        return f'.int {lean_int(v)}'
    if isinstance(v, float):
        if v != v:
            return '.nan'
        fr = Fraction(v)
        return f'.float (({fr.numerator} : Rat) / {fr.denominator})'
    if isinstance(v, str):
        return f'.str {lean_str(v)}'
    if v is None:
        return '.none'
    raise NotRecognised(f'default value {v!r}')


def const_eval(node, env):
    """integer / literal constant expressions (`1 << 20`, `MIN_LENGTH`, `128_000`)"""
    code = compile(ast.Expression(body=node), '<default>', 'eval')
    try:
        return eval(code, {'__builtins__': {}}, dict(env))  # noqa: S307 — constants of the repo under test only
    except Exception as e:  # noqa: BLE001
        raise NotRecognised(f'cannot evaluate {ast.unparse(node)}: {e!r}')


def term(node, params, env):
    if isinstance(node, ast.Name) and node.id in params:
        return f'.param {lean_str(node.id)}'
    if isinstance(node, ast.BinOp) and isinstance(node.op, (ast.Add, ast.Sub)):
        try:
            k = const_eval(node.right, env)
        except NotRecognised:
            k = None
        if isinstance(k, int) and not isinstance(k, bool):
            return f'.add ({term(node.left, params, env)}) {lean_int(k if isinstance(node.op, ast.Add) else -k)}'
    v = const_eval(node, env)
    if isinstance(v, bool) or not isinstance(v, int):
        raise NotRecognised(f'guard operand {ast.unparse(node)}')
    return f'.lit {lean_int(v)}'


def cond(node, params, env):
    if isinstance(node, ast.UnaryOp) and isinstance(node.op, ast.Not):
        return f'.neg ({cond(node.operand, params, env)})'
    if isinstance(node, ast.BoolOp):
        parts = [cond(v, params, env) for v in node.values]
        ctor = '.conj' if isinstance(node.op, ast.And) else '.disj'
        out = parts[-1]
        for p in reversed(parts[:-1]):
            out = f'{ctor} ({p}) ({out})'
        return out
    if isinstance(node, ast.Call) and ast.unparse(node.func) == 'isinstance' and len(node.args) == 2 and ast.unparse(node.args[1]) == 'int':
        return f'.isInt ({term(node.args[0], params, env)})'
    if isinstance(node, ast.Compare):
        ops, comps = node.ops, node.comparators
        if len(ops) == 1 and isinstance(ops[0], (ast.In, ast.NotIn)):
            vals = const_eval(comps[0], env)
            if not isinstance(vals, (tuple, list, set, frozenset)) or not all(isinstance(x, int) and not isinstance(x, bool) for x in vals):
                raise NotRecognised(f'membership set {ast.unparse(comps[0])}')
            if isinstance(vals, (set, frozenset)):
                vals = sorted(vals)
            lst = '[' + ', '.join(lean_int(x) for x in vals) + ']'
            ctor = '.isIn' if isinstance(ops[0], ast.In) else '.notIn'
            return f'{ctor} ({term(node.left, params, env)}) {lst}'
        if len(ops) == 1 and type(ops[0]) in CMP:
            return f'.cmp .{CMP[type(ops[0])]} ({term(node.left, params, env)}) ({term(comps[0], params, env)})'
        if len(ops) == 2 and type(ops[0]) in CMP and type(ops[1]) in CMP:
            return (f'.chain ({term(node.left, params, env)}) .{CMP[type(ops[0])]} ({term(comps[0], params, env)}) '
                    f'.{CMP[type(ops[1])]} ({term(comps[1], params, env)})')
    raise NotRecognised(f'guard condition {ast.unparse(node)}')


def class_consts(cls):
    env = {}
    for st in cls.body:
        if isinstance(st, ast.Assign) and len(st.targets) == 1 and isinstance(st.targets[0], ast.Name):
            try:
                env[st.targets[0].id] = const_eval(st.value, env)
            except NotRecognised:
                pass
    return env


def adapter_rows(ctx, tree):
    classes = {n.name: n for n in tree.body if isinstance(n, ast.ClassDef)}
    listed = None
    for n in tree.body:
        if isinstance(n, ast.Assign) and ast.unparse(n.targets[0]) == '_adapters' and isinstance(n.value, ast.List):
            listed = [ast.unparse(e) for e in n.value.elts]
    if not listed or any(x not in classes for x in listed):
        raise NotRecognised('_adapters list')
    mp = [n for n in tree.body if isinstance(n, ast.Assign) and ast.unparse(n.targets[0]) == '_adapters_mapping']
    if not mp or ast.unparse(mp[0].value) != '{a.__name__: a for a in _adapters}':
        raise NotRecognised('_adapters_mapping is not {a.__name__: a for a in _adapters}')

    def mro(name, seen=None):   # linearised enough for "first __init__ found" and "set of abstract bases"
        seen = seen if seen is not None else []
        if name in classes and name not in seen:
            seen.append(name)
            for b in classes[name].bases:
                mro(ast.unparse(b), seen)
        return seen

    rows = []
    for name in listed:
        chain = mro(name)
        kinds = [c for c in chain if c in ABSTRACT]
        env = {}
        for c in reversed(chain):
            env.update(class_consts(classes[c]))
        init = None
        for c in chain:
            for st in classes[c].body:
                if isinstance(st, ast.FunctionDef) and st.name == '__init__':
                    init = st
                    break
            if init is not None:
                break
        params, guards = [], []
        if init is not None:
            a = init.args
            if a.vararg or a.kwarg or a.posonlyargs or [x.arg for x in a.args] != ['self']:
                raise NotRecognised(f'{name}.__init__ signature')
            for arg, d in zip(a.kwonlyargs, a.kw_defaults):
                params.append((arg.arg, None if d is None else ('some', const_eval(d, env))))
            pnames = [p for p, _ in params]
            for st in init.body:
                if isinstance(st, ast.Expr) and isinstance(st.value, ast.Constant) and isinstance(st.value.value, str):
                    continue
                if isinstance(st, ast.If) and not st.orelse and len(st.body) == 1 and isinstance(st.body[0], ast.Raise):
                    exc = st.body[0].exc
                    exc_name = ast.unparse(exc.func) if isinstance(exc, ast.Call) else ast.unparse(exc)
                    guards.append((cond(st.test, pnames, env), exc_name))
                    continue
                if any(isinstance(x, ast.Raise) for x in ast.walk(st)):
                    raise NotRecognised(f'{name}.__init__: raise outside a leading guard: {ast.unparse(st)[:60]}')
                # remaining statements: plain assignments / super().__init__() — modelled by hand in Settings.lean, fingerprinted below
            ctx.fp(f'adapters.{name}.__init__', init)
        consts = [(k, v) for k, v in env.items() if isinstance(v, int) and not isinstance(v, bool)]
        rows.append((name, kinds, params, consts, guards))
        ctx.fp(f'adapters.{name}', classes[name])
    return rows


def schema_dicts(ctx, func):
    """the dict literals passed as first argument of self._validate_settings(...) inside `func`, in order"""
    out = []
    for node in ast.walk(func):
        if isinstance(node, ast.Call) and ast.unparse(node.func) == 'self._validate_settings' and isinstance(node.args[0], ast.Dict):
            d = []
            for k, v in zip(node.args[0].keys, node.args[0].values):
                types = v.elts if isinstance(v, ast.Tuple) else [v]
                names = []
                for t in types:
                    s = ast.unparse(t)
                    if s == 'collections.abc.Mapping':
                        names.append('Mapping')
                    elif s == 'type(None)':
                        names.append('NoneType')
                    else:
                        raise NotRecognised(f'schema type {s}')
                d.append((ast.literal_eval(k), names))
            out.append((node.lineno, node.col_offset, d))
    out.sort()
    return [d for _, _, d in out]


def lean_schema(d):
    return '[' + ', '.join(f'({lean_str(k)}, [' + ', '.join(lean_str(t) for t in ts) + '])' for k, ts in d) + ']'


def classify_init_stmt(st):
    """→ stage name or None (irrelevant statement)."""
    src = ast.unparse(st)
    calls = [ast.unparse(n.func) for n in ast.walk(st) if isinstance(n, ast.Call)]
    if 'self._validate_init_settings' in calls:
        if not (isinstance(st, ast.If) and ast.unparse(st.test) == 'settings'):
            raise NotRecognised('validation is not guarded by `if settings:`')
        return 'validate'
    if 'self._make_config' in calls:
        return 'makeConfig'
    if 'self._instantiate_config' in calls:
        return 'instantiateConfig'
    if 'self._make_key' in calls:
        return 'makeKey'
    if 'self._instantiate_key' in calls:
        return 'instantiateKey'
    if 'props.encrypt' in calls:
        return 'encryptPrivate'
    if any(c.startswith('self._upload') or c.startswith('self._delete') or c in ('self.backend.upload', 'self.backend.upload_stream', 'self.backend.delete')
           for c in calls):
        return 'uploadConfig'      # init has one mutating backend call, the config upload; any mutating call counts as "the backend is touched here"
    if isinstance(st, ast.If) and ast.unparse(st.test) == 'password is None' and any(isinstance(x, ast.Raise) for x in ast.walk(st)):
        return 'passwordCheck'
    if isinstance(st, ast.If) and 'key_output_path' in ast.unparse(st.test):
        return None      # writes / prints the key file: no backend access, cannot fail in the typed universe
    if any(isinstance(x, ast.Raise) for x in ast.walk(st)):
        raise NotRecognised(f'unmodelled raise in init: {src[:80]}')
    return None


def init_stages(ctx, init):
    stages = []

    def walk(body, enc):
        for st in body:
            if isinstance(st, ast.If) and ast.unparse(st.test) == 'props.encrypted':
                walk(st.body, True)
                for x in st.orelse:
                    if classify_init_stmt(x) is not None:
                        raise NotRecognised('modelled statement in the unencrypted branch')
                continue
            k = classify_init_stmt(st)
            if k is not None:
                stages.append((k, enc))
    walk(init.body, False)
    return stages


def kind_checks(make_config):
    """`if not issubclass(<slot>_type, adapters.<Base>): raise …` inside _make_config → [(slot, Base)] (none today)"""
    slots = {'hasher_type': 'hashing', 'chunker_type': 'chunking', 'cipher_type': 'cipher'}
    out = []
    for n in ast.walk(make_config):
        if isinstance(n, ast.Call) and ast.unparse(n.func) == 'issubclass':
            ok = False
            for st in ast.walk(make_config):
                if (isinstance(st, ast.If) and isinstance(st.test, ast.UnaryOp) and isinstance(st.test.op, ast.Not) and st.test.operand is n
                        and len(st.body) == 1 and isinstance(st.body[0], ast.Raise) and not st.orelse):
                    var, base = ast.unparse(n.args[0]), ast.unparse(n.args[1])
                    if var in slots and base.startswith('adapters.') and base[len('adapters.'):] in ABSTRACT:
                        out.append((slots[var], base[len('adapters.'):]))
                        ok = True
            if not ok:
                raise NotRecognised(f'issubclass check of unknown shape in _make_config: {ast.unparse(n)}')
    return out


FALLBACK = [
    'opaque kindChecks : List (String × String)',
    'opaque adapterTable : List AdapterRow',
    'opaque initSchema : List (String × List String)',
    'opaque initEncryptionSchema : List (String × List String)',
    'opaque addKeySchema : List (String × List String)',
    'opaque addKeyEncryptionSchema : List (String × List String)',
    'opaque defaultHasher : String', 'opaque defaultChunker : String', 'opaque defaultCipher : String',
    'opaque defaultMac : String', 'opaque defaultUserKdf : String', 'opaque defaultSharedKdf : String',
    'opaque initStages : List (InitStage × Bool)',
    'opaque addKeyUploads : Bool',
]


def section(ctx):
    """The type prelude is always emitted (so ReplicatModel and the driver keep compiling for every other property);
    if anything of the source is not recognised the tables become `opaque` and `settingsRecognised := false`, so
    every C17 theorem that looks inside them stops compiling."""
    for ln in PRELUDE.strip('\n').split('\n'):
        ctx.emit(ln)
    ctx.emit()
    out = []
    try:
        body(ctx, out.append)
    except Exception as e:  # noqa: BLE001
        ctx.notes['settings'] = f'not recognised: {e!r}'
        out = list(FALLBACK) + ['def settingsRecognised : Bool := false']
    else:
        out.append('def settingsRecognised : Bool := true')
    for ln in out:
        ctx.emit(ln)
    # the key-file statement has its own fallback: not recognising it must not take the adapter tables down with it
    try:
        kw = key_write_facts(ctx)
    except Exception as e:  # noqa: BLE001
        ctx.notes['settings_keywrite'] = f'not recognised: {e!r}'
        for ln in KEYWRITE_FALLBACK:
            ctx.emit(ln)
    else:
        ctx.notes['settings_keywrite'] = f"init: {kw['init']}, _add_key: {kw['add_key']}, after the last check: {kw['after_checks']}"
        ctx.emit(f"def keyWriteInit : WriteMode := .{kw['init']}")
        ctx.emit(f"def keyWriteAddKey : WriteMode := .{kw['add_key']}")
        ctx.emit(f"def keyWriteAfterChecks : Bool := {'true' if kw['after_checks'] else 'false'}")


def body(ctx, emit):
    asrc = (ctx.REPO / 'replicat' / 'utils' / 'adapters.py').read_text()
    atree = ast.parse(asrc)
    rows = adapter_rows(ctx, atree)
    rsrc = (ctx.REPO / 'replicat' / 'repository.py').read_text()
    rtree = ast.parse(rsrc)
    vinit = ctx.find_func(rtree, 'Repository', '_validate_init_settings')
    vadd = ctx.find_func(rtree, 'Repository', '_validate_add_key_settings')
    init = ctx.find_func(rtree, 'Repository', 'init')
    add_key = ctx.find_func(rtree, 'Repository', 'add_key')
    add_key_inner = ctx.find_func(rtree, 'Repository', '_add_key')
    for nm, f in [('_validate_settings', ctx.find_func(rtree, 'Repository', '_validate_settings')), ('_validate_init_settings', vinit),
                  ('_validate_add_key_settings', vadd), ('add_key', add_key), ('_add_key', add_key_inner),
                  ('_make_config', ctx.find_func(rtree, 'Repository', '_make_config')),
                  ('_instantiate_config', ctx.find_func(rtree, 'Repository', '_instantiate_config')),
                  ('_make_key', ctx.find_func(rtree, 'Repository', '_make_key')),
                  ('_instantiate_key', ctx.find_func(rtree, 'Repository', '_instantiate_key')), ('init', init)]:
        if f is None:
            raise NotRecognised(f'Repository.{nm} not found')
        ctx.fp(f'repository.{nm}', f)
    ctx.fp('adapters.from_config', ctx.find_func(atree, 'from_config'))
    si = schema_dicts(ctx, vinit)
    sa = schema_dicts(ctx, vadd)
    if len(si) != 2 or len(sa) != 2:
        raise NotRecognised('expected two schema dicts in each _validate_*_settings')
    # the nested init schema is applied to settings.get('encryption') only when that is not None
    nested_ok = any(isinstance(n, ast.If) and ast.unparse(n.test) == "(encryption_settings := settings.get('encryption')) is not None"
                    for n in ast.walk(vinit))
    if not nested_ok:
        raise NotRecognised('_validate_init_settings: nested validation shape')
    repo_cls = ctx.find_func(rtree, 'Repository')
    defaults = {}
    for st in repo_cls.body:
        if isinstance(st, ast.Assign) and isinstance(st.targets[0], ast.Name) and st.targets[0].id.startswith('DEFAULT_') and st.targets[0].id.endswith('_NAME'):
            defaults[st.targets[0].id] = ast.literal_eval(st.value)
    need = ['DEFAULT_CHUNKER_NAME', 'DEFAULT_CIPHER_NAME', 'DEFAULT_HASHER_NAME', 'DEFAULT_MAC_NAME', 'DEFAULT_USER_KDF_NAME', 'DEFAULT_SHARED_KDF_NAME']
    if any(not isinstance(defaults.get(k), str) for k in need):
        raise NotRecognised('DEFAULT_*_NAME constants')
    stages = init_stages(ctx, init)
    kind_chk = kind_checks(ctx.find_func(rtree, 'Repository', '_make_config'))
    uploads = False
    for f in (add_key, add_key_inner):
        for n in ast.walk(f):
            if isinstance(n, ast.Call):
                c = ast.unparse(n.func)
                if c.startswith('self._upload') or c.startswith('self._delete') or c in ('self.backend.upload', 'self.backend.upload_stream', 'self.backend.delete'):
                    uploads = True

    # ---- emit (only after everything was recognised)
    emit('def adapterTable : List AdapterRow := [')
    for i, (name, kinds, params, consts, guards) in enumerate(rows):
        ps = '[' + ', '.join(f'({lean_str(p)}, ' + ('none' if d is None else f'some ({lean_val(d[1])})') + ')' for p, d in params) + ']'
        cs = '[' + ', '.join(f'({lean_str(k)}, {lean_int(v)})' for k, v in consts) + ']'
        gs = '[' + ', '.join(f'⟨{c}, {lean_str(e)}⟩' for c, e in guards) + ']'
        ks = '[' + ', '.join(lean_str(k) for k in kinds) + ']'
        emit(f'  ⟨{lean_str(name)}, {ks}, {ps}, {cs}, {gs}⟩' + (',' if i + 1 < len(rows) else ''))
    emit(']')
    emit(f'def initSchema : List (String × List String) := {lean_schema(si[0])}')
    emit(f'def initEncryptionSchema : List (String × List String) := {lean_schema(si[1])}')
    emit(f'def addKeySchema : List (String × List String) := {lean_schema(sa[0])}')
    emit(f'def addKeyEncryptionSchema : List (String × List String) := {lean_schema(sa[1])}')
    for k, lean in [('DEFAULT_HASHER_NAME', 'defaultHasher'), ('DEFAULT_CHUNKER_NAME', 'defaultChunker'), ('DEFAULT_CIPHER_NAME', 'defaultCipher'),
                    ('DEFAULT_MAC_NAME', 'defaultMac'), ('DEFAULT_USER_KDF_NAME', 'defaultUserKdf'), ('DEFAULT_SHARED_KDF_NAME', 'defaultSharedKdf')]:
        emit(f'def {lean} : String := {lean_str(defaults[k])}')
    emit('def initStages : List (InitStage × Bool) := [' + ', '.join(f'(.{k}, {"true" if e else "false"})' for k, e in stages) + ']')
    emit('def kindChecks : List (String × String) := [' + ', '.join(f'({lean_str(a)}, {lean_str(b)})' for a, b in kind_chk) + ']')
    emit(f'def addKeyUploads : Bool := {"true" if uploads else "false"}')


# ------------------------------------------------------------------ the key-file statement of init / _add_key
KEYWRITE_FALLBACK = ['opaque keyWriteInit : WriteMode', 'opaque keyWriteAddKey : WriteMode', 'opaque keyWriteAfterChecks : Bool']
OPEN_FLAGS = {'O_WRONLY', 'O_RDWR', 'O_CREAT', 'O_TRUNC', 'O_APPEND', 'O_EXCL', 'O_CLOEXEC', 'O_NOFOLLOW', 'O_BINARY', 'O_SYNC', 'O_DSYNC', 'O_NOCTTY'}


def _flag_names(node):
    """`os.O_WRONLY | os.O_CREAT | …` → set of names"""
    if isinstance(node, ast.BinOp) and isinstance(node.op, ast.BitOr):
        return _flag_names(node.left) | _flag_names(node.right)
    s = ast.unparse(node)
    nm = s[len('os.'):] if s.startswith('os.') else s
    if nm not in OPEN_FLAGS:
        raise NotRecognised(f'open flag {s}')
    return {nm}


def _mode_of_string(mode, on_descriptor=False):
    if not isinstance(mode, str):
        raise NotRecognised(f'open mode {mode!r}')
    if 'x' in mode:
        return 'exclusive'
    if 'a' in mode:
        return 'append'
    if 'w' in mode:
        return None if on_descriptor else 'truncate'      # open(fd, 'wb') does not truncate: the descriptor decides
    if '+' in mode:
        return None if on_descriptor else 'inPlace'
    raise NotRecognised(f'key file opened with mode {mode!r}')


def _open_mode_arg(call, pos):
    for kw in call.keywords:
        if kw.arg == 'mode':
            return ast.literal_eval(kw.value)
    if len(call.args) > pos:
        return ast.literal_eval(call.args[pos])
    return 'r'


def write_mode_of(stmts, cls, depth=0):
    """How a list of statements that stores the key leaves the file at the output path (see `WriteMode`).  Looks at every
    call below the statements: rename onto the path, os.open flags, open()/Path.open() mode strings, truncate calls,
    Path.write_bytes / write_text; calls of other methods of the class / functions of the module are followed (two levels)."""
    calls = [n for st in stmts for n in ast.walk(st) if isinstance(n, ast.Call)]
    names = [ast.unparse(c.func) for c in calls]
    if any(n in ('os.replace', 'os.rename', 'shutil.move') or n.endswith('.replace') and len(c.args) == 1 and not c.keywords or n.endswith('.rename')
           for n, c in zip(names, calls)):
        return 'replace'
    truncates = any(n == 'os.ftruncate' or n == 'os.truncate' or n.endswith('.truncate') for n in names)
    found = []
    for n, c in zip(names, calls):
        if n == 'os.open':
            if len(c.args) < 2:
                raise NotRecognised('os.open without flags')
            fl = _flag_names(c.args[1])
            if not (fl & {'O_WRONLY', 'O_RDWR'}):
                raise NotRecognised('key file descriptor is not opened for writing')
            found.append('exclusive' if 'O_EXCL' in fl else 'append' if 'O_APPEND' in fl else 'truncate' if 'O_TRUNC' in fl else 'inPlace')
        elif n in ('open', 'io.open', 'os.fdopen'):
            m = _mode_of_string(_open_mode_arg(c, 1), on_descriptor=(n == 'os.fdopen' or 'os.open' in names))
            if m is not None:
                found.append(m)
        elif n.endswith('.open') and n != 'os.open':
            found.append(_mode_of_string(_open_mode_arg(c, 0)))
        elif n.endswith('.write_bytes') or n.endswith('.write_text'):
            found.append('truncate')
    if not found and depth < 2 and cls is not None:
        # a helper: another method of the class (`self.name(…)`) or a function of the module (`name(…)`)
        defs = {'self.' + st.name: st for st in cls.body if isinstance(st, (ast.FunctionDef, ast.AsyncFunctionDef))}
        defs.update({st.name: st for st in getattr(cls, 'module_body', []) if isinstance(st, (ast.FunctionDef, ast.AsyncFunctionDef))})
        helpers = [n for n in names if n in defs and n not in ('self.serialize', 'self.display_status')]
        found = [write_mode_of(defs[n].body, cls, depth + 1) for n in helpers]
    found = sorted(set(found))
    if len(found) != 1:
        raise NotRecognised(f'key-file statement: expected one way of opening the file, found {found}')
    mode = found[0]
    if mode == 'inPlace' and truncates:
        mode = 'truncate'
    return mode


def key_write_stmt(func):
    """the `if key_output_path is not None:` statement of `func` and the statements of the function body before it"""
    hits = [n for n in ast.walk(func) if isinstance(n, ast.If) and ast.unparse(n.test) == 'key_output_path is not None']
    if len(hits) != 1:
        raise NotRecognised(f'{func.name}: {len(hits)} `if key_output_path is not None:` statements')
    return hits[0]


def _comes_after_checks(func, write_if):
    """the key-file statement follows (in source order, same or enclosing block) the encryption of the private section — the
    last statement of init / _add_key that depends on the settings and can raise"""
    enc = [n for n in ast.walk(func) if isinstance(n, ast.Call) and ast.unparse(n.func) == 'props.encrypt']
    mk = [n for n in ast.walk(func) if isinstance(n, ast.Call) and ast.unparse(n.func) in ('self._make_key', 'self._instantiate_key')]
    if not enc or not mk:
        raise NotRecognised(f'{func.name}: key construction calls not found')
    last = max((n.end_lineno, n.end_col_offset) for n in enc + mk)
    return (write_if.lineno, write_if.col_offset) > last


def key_write_facts(ctx):
    rtree = ast.parse((ctx.REPO / 'replicat' / 'repository.py').read_text())
    cls = ctx.find_func(rtree, 'Repository')
    init = ctx.find_func(rtree, 'Repository', 'init')
    inner = ctx.find_func(rtree, 'Repository', '_add_key')
    if cls is None or init is None or inner is None:
        raise NotRecognised('Repository.init / _add_key not found')
    cls.module_body = rtree.body
    wi, wa = key_write_stmt(init), key_write_stmt(inner)
    ctx.fp('repository.init.key_write', wi)
    ctx.fp('repository._add_key.key_write', wa)
    return {'init': write_mode_of(wi.body, cls), 'add_key': write_mode_of(wa.body, cls),
            'after_checks': _comes_after_checks(init, wi) and _comes_after_checks(inner, wa)}
